#!/venv/bin/python
"""Detection matrix: run checks (quick) against every seeded change.

usage: tools/crossrun.py [--props C01,C02|all] [--seeds C01-a,...|all] [--own-only] [--jobs 6] [--out notes/crossrun.json]
For each seed: one scratch git worktree of /repo HEAD with the patch applied; then the selected
checks run with VERIF_REPO=<worktree>.  A seed's own property is always run.
"""
import argparse, json, os, subprocess, sys, tempfile, glob, time
VERIF = os.path.dirname(os.path.dirname(os.path.abspath(__file__)))


def sh(cmd, env=None, timeout=3600):
    r = subprocess.run(cmd, env=env, capture_output=True, text=True, timeout=timeout)
    return r.returncode, r.stdout + r.stderr


def main():
    ap = argparse.ArgumentParser()
    ap.add_argument("--props", default="own")
    ap.add_argument("--seeds", default="all")
    ap.add_argument("--jobs", default="6")
    ap.add_argument("--tier", default="quick")
    ap.add_argument("--out", default=os.path.join(VERIF, "notes", "crossrun.json"))
    a = ap.parse_args()
    seeds = sorted(glob.glob(os.path.join(VERIF, "seeded", "*", "meta.json")))
    if a.seeds != "all":
        want = set(a.seeds.split(","))
        seeds = [s for s in seeds if os.path.basename(os.path.dirname(s)) in want]
    allprops = open(os.path.join(VERIF, "claimed.txt")).read().split()
    res = {}
    if os.path.exists(a.out):
        res = json.load(open(a.out))
    for mf in seeds:
        m = json.load(open(mf))
        sid = m["id"]
        props = [m["property"]] if a.props == "own" else (allprops if a.props == "all" else a.props.split(","))
        if m["property"] not in props:
            props = [m["property"]] + props
        tree = tempfile.mkdtemp(prefix="vfx-")
        os.rmdir(tree)
        sh(["git", "-C", "/repo", "worktree", "add", "--detach", tree, m.get("base_commit", "HEAD")])
        try:
            rc, out = sh(["git", "-C", tree, "apply", os.path.join(os.path.dirname(mf), "patch.diff")])
            if rc != 0:
                res.setdefault(sid, {})["_apply"] = "FAILED: " + out[-200:]
                continue
            for p in props:
                t0 = time.time()
                env = dict(os.environ, VERIF_REPO=tree, VERIF_JOBS=a.jobs)
                rc, out = sh([os.path.join(VERIF, "check"), p, "--tier", a.tier, "--no-evidence"], env=env)
                keys = sorted({l.split("violated clause: ")[1].split(" ")[0] for l in out.splitlines() if "violated clause: " in l})
                res.setdefault(sid, {})[p] = {"rc": rc, "verdict": {0: "silent", 1: "VIOLATION", 2: "INCONCLUSIVE"}.get(rc, "rc%d" % rc),
                                              "keys": keys[:6], "wall_s": round(time.time() - t0, 1)}
                print(sid, p, res[sid][p]["verdict"], keys[:2], flush=True)
                json.dump(res, open(a.out, "w"), indent=1, sort_keys=True)
        finally:
            sh(["git", "-C", "/repo", "worktree", "remove", "--force", tree])
    json.dump(res, open(a.out, "w"), indent=1, sort_keys=True)


import atexit, shutil as _sh
atexit.register(lambda: _sh.rmtree(os.path.join(VERIF, "replays", "_scratch"), ignore_errors=True))

if __name__ == "__main__":
    main()
