#!/bin/sh
# tools/accept.sh CNN : seeds sweep on quick, evidence validation
p=$1
cd /verif
for s in 0 1 2 3; do
  VERIF_SEED=$s ./check $p --no-evidence --jobs ${JOBS:-8} > /tmp/accept.$p.$s.out 2>&1; rc=$?
  echo "seed $s rc=$rc $(grep -c KNOWN-FINDING /tmp/accept.$p.$s.out) known; $(tail -1 /tmp/accept.$p.$s.out | cut -c1-120)"
  grep -E "VIOLATION|INCONCLUSIVE|violated clause" /tmp/accept.$p.$s.out | cut -c1-300 | head -8
done
./check $p --jobs ${JOBS:-8} > /tmp/accept.$p.ev.out 2>&1; echo "evidence run rc=$?"
python3-vt -c "
import json,jsonschema,sys
e=json.load(open('/verif/evidence/$p.json'))
jsonschema.validate(e, json.load(open('/root/.vp/EVIDENCE.schema.json')))
c=e['coverage']; print('evidence ok:', c['evaluations'], 'evals', c['distinct_nontrivial'], 'distinct', e['wall_s'], 's', c['verdict'])"
rm -f /tmp/accept.$p.*.out
