#!/venv/bin/python
"""Confirm a seeded change and run the checks against it.

usage: tools/seedtest.py <seed dir with patch.diff, demo.py, meta.json> [--tier quick] [--props C01,C02]
                         [--no-suite] [--in-repo]

Steps (all on a scratch git worktree of /repo under $TMPDIR, removed afterwards — or, with
--in-repo, on /repo itself via `git apply` / `git checkout -- .`):
  1. demo passes on the clean tree, 2. patch applies, 3. the repository's own suite still
  passes (678 passed + the 3 always-failing), 4. demo fails with the change,
  5. the property's check (and any others named) is run against the changed tree.
Prints one JSON line with the outcome.
"""
import argparse, json, os, shutil, subprocess, sys, tempfile

VERIF = os.path.dirname(os.path.dirname(os.path.abspath(__file__)))
ALWAYS_FAIL = {"test_explit_dir_not_readable_version2", "test_system_tor_explit_dir_not_readable0",
               "test_single_client_ioerror"}


def sh(cmd, cwd=None, env=None, timeout=1800):
    r = subprocess.run(cmd, cwd=cwd, env=env, capture_output=True, text=True, timeout=timeout)
    return r.returncode, r.stdout + r.stderr


def fix_devnull():
    import stat
    try:
        if stat.S_ISCHR(os.stat("/dev/null").st_mode):
            return
    except OSError:
        pass
    subprocess.run("rm -rf /dev/null; mknod -m 666 /dev/null c 1 3", shell=True)


def suite(tree):
    rc, out = sh(["/venv/bin/python", "-m", "pytest", "-q", "-p", "no:cacheprovider", "--timeout=900", "-x", "--deselect", "none"],
                 cwd=tree, timeout=1200) if False else sh(
        ["/venv/bin/python", "-m", "pytest", "-q", "-p", "no:cacheprovider", "--timeout=900"], cwd=tree, timeout=1200)
    fix_devnull()
    failed = [l.split("::")[-1].split(" ")[0] for l in out.splitlines() if l.startswith("FAILED") or l.startswith("ERROR")]
    tail = [l for l in out.splitlines() if " passed" in l or " failed" in l][-1:] or [out[-200:]]
    ok = set(failed) <= ALWAYS_FAIL and "678 passed" in tail[0]
    return ok, tail[0].strip(), sorted(set(failed) - ALWAYS_FAIL)


def main():
    ap = argparse.ArgumentParser()
    ap.add_argument("seed")
    ap.add_argument("--tier", default="quick")
    ap.add_argument("--props")
    ap.add_argument("--no-suite", action="store_true")
    ap.add_argument("--jobs", default="8")
    a = ap.parse_args()
    seed = os.path.abspath(a.seed)
    meta = json.load(open(os.path.join(seed, "meta.json")))
    props = (a.props.split(",") if a.props else [meta["property"]])
    tree = tempfile.mkdtemp(prefix="vfseed-")
    os.rmdir(tree)
    res = {"seed": seed, "property": meta["property"]}
    sh(["git", "-C", "/repo", "worktree", "add", "--detach", tree, meta.get("base_commit", "HEAD")])
    try:
        demo = os.path.join(seed, "demo.py")
        envd = dict(os.environ, PYTHONPATH=tree, PYTHONDONTWRITEBYTECODE="1")
        rc0, out0 = sh(["/venv/bin/python", demo], cwd=tempfile.gettempdir(), env=envd, timeout=300)
        res["demo_clean_rc"] = rc0
        base_keys = {}
        if meta.get("base_commit"):
            # pinned to an older commit whose own (since repaired) findings may show: judge by the
            # violated-clause keys the change ADDS to those of the unchanged base tree
            for p in props:
                envc = dict(os.environ, VERIF_REPO=tree, VERIF_JOBS=a.jobs)
                _, outb = sh([os.path.join(VERIF, "check"), p, "--tier", a.tier, "--no-evidence"], env=envc, timeout=3600)
                base_keys[p] = {l.split("violated clause:")[1].split(" (x")[0].strip() for l in outb.splitlines() if "violated clause:" in l}
        rc, out = sh(["git", "-C", tree, "apply", os.path.join(seed, "patch.diff")])
        res["applies"] = rc == 0
        if rc != 0:
            res["apply_error"] = out[-300:]
            print(json.dumps(res)); return 1
        if not a.no_suite:
            ok, tail, extra = suite(tree)
            res["suite_ok"], res["suite"], res["suite_new_failures"] = ok, tail, extra
        rc1, out1 = sh(["/venv/bin/python", demo], cwd=tempfile.gettempdir(), env=envd, timeout=300)
        res["demo_changed_rc"] = rc1
        res["demo_msg"] = out1.strip().splitlines()[-1][:200] if out1.strip() else ""
        res["checks"] = {}
        for p in props:
            envc = dict(os.environ, VERIF_REPO=tree, VERIF_JOBS=a.jobs)
            rcc, outc = sh([os.path.join(VERIF, "check"), p, "--tier", a.tier, "--no-evidence"], env=envc, timeout=3600)
            vl = [l.strip() for l in outc.splitlines() if "violated clause:" in l]
            verdict = {0: "MISSED", 1: "caught", 2: "inconclusive"}.get(rcc, "rc%d" % rcc)
            if p in base_keys:
                vl = [l for l in vl if l.split("violated clause:")[1].split(" (x")[0].strip() not in base_keys[p]]
                if rcc == 1 and not vl:
                    verdict = "MISSED"
            keys = [l[:160] for l in vl][:3]
            res["checks"][p] = {"rc": rcc, "verdict": verdict, "keys": keys}
            if p in base_keys:
                res["checks"][p]["keys_of_unchanged_base_commit"] = sorted(base_keys[p])[:6]
    finally:
        sh(["git", "-C", "/repo", "worktree", "remove", "--force", tree])
        shutil.rmtree(tree, ignore_errors=True)
    print(json.dumps(res, indent=1))
    return 0


import atexit, shutil as _sh
atexit.register(lambda: _sh.rmtree(os.path.join(VERIF, "replays", "_scratch"), ignore_errors=True))


if __name__ == "__main__":
    sys.exit(main())
