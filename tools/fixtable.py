#!/usr/bin/env python3
"""Rewrites the generated parts of DESIGN.md (between <!-- GEN:x --> markers) from
known_findings.json and seeded/*/meta.json."""
import json, os, re, glob
V = os.path.dirname(os.path.dirname(os.path.abspath(__file__)))
kf = json.load(open(os.path.join(V, "known_findings.json")))["findings"]

def cell(s):
    return str(s).replace("|", "\\|").replace("\n", " ")

fixed = [f for f in kf if f["status"] == "fixed"]
openf = [f for f in kf if f["status"] == "open"]
t1 = ["| commit | first reported by | what failed | where |", "|---|---|---|---|"]
for f in fixed:
    what = f["record"].split(" ", 3)[3] if f.get("record") else ""
    t1.append("| %s | %s | %s | `%s` |" % (f["commit"], f["property"], cell(what), cell(f.get("where", ""))))
t2 = ["| key | what | why not repaired |", "|---|---|---|"]
seen = set()
for f in openf:
    what = f["what"]
    why = ""
    for marker in ("not repairable under the unedited suite", "would change", "would need", "treating 'auto'", "keying by identity", "removing the skip", "the reply text is flattened"):
        if marker in what:
            i = what.index(marker)
            j = what.rfind(";", 0, i)
            j2 = what.rfind(":", 0, i)
            why = what[i:]
            break
    t2.append("| `%s` | %s | %s |" % (f["key"], cell(what[:260] + ("…" if len(what) > 260 else "")), cell(why[:200])))
t3 = ["| seed | breaks | needs | first run | now | clause that catches it / note |", "|---|---|---|---|---|---|"]
for mf in sorted(glob.glob(os.path.join(V, "seeded", "*", "meta.json"))):
    m = json.load(open(mf))
    chk = (m.get("observed") or {}).get("check") or {}
    keys = chk.get("keys") or []
    clause = ""
    if keys:
        mm = re.search(r"violated clause: (\S+)", keys[0])
        clause = mm.group(1) if mm else ""
    note = m.get("strengthening") or ""
    t3.append("| %s | %s | %s | %s | %s | %s |" % (
        m["id"], cell(m.get("summary", ""))[:150], cell(m.get("needs", ""))[:150],
        m.get("first_run_of_the_check_as_it_was_then"), chk.get("verdict"),
        cell((("`%s` " % clause) if clause else "") + note)[:330]))
t4 = ["| check | level | quick: cases (distinct non-trivial) | enumerated completely (quick) | main monitor counters (quick) |", "|---|---|---|---|---|"]
for ef in sorted(glob.glob(os.path.join(V, "evidence", "C*.json"))):
    e = json.load(open(ef))
    c = e["coverage"]
    cnt = c.get("monitor_event_counts", {})
    top = sorted(((v, k) for k, v in cnt.items() if not k.startswith("contract_evals")), reverse=True)[:5]
    t4.append("| %s | %s | %d (%d) | %s | %s |" % (
        e["property_id"], e["level"], c["evaluations"], c["distinct_nontrivial"],
        cell("; ".join(c.get("enumerated_completely", [])) or "-")[:200],
        cell(", ".join("%s=%d" % (k, v) for v, k in top))))
gen = {"FIXES": "\n".join(t1), "OPEN": "\n".join(t2), "SEEDS": "\n".join(t3), "CHECKS": "\n".join(t4)}
p = os.path.join(V, "DESIGN.md")
s = open(p).read()
for k, v in gen.items():
    a, b = "<!-- GEN:%s -->" % k, "<!-- /GEN:%s -->" % k
    if a in s:
        i, j = s.index(a) + len(a), s.index(b)
        s = s[:i] + "\n" + v + "\n" + s[j:]
open(p, "w").write(s)
print("fixed", len(fixed), "open", len(openf), "seeds", len(t3) - 2)
