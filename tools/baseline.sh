#!/bin/sh
# run the repository's own suite with the hook guard OFF; print the summary line
cd "${1:-/repo}" && env -u TXTORCON_VERIF /venv/bin/python -m pytest -q -p no:cacheprovider --timeout=900 2>&1 | tail -5
