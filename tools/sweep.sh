#!/bin/sh
# tools/sweep.sh [first_seed] [last_seed] [tier] : every claimed check (or $PROPS) on a range of seeds; prints only problems
cd /verif
a=${1:-0}; b=${2:-5}; tier=${3:-quick}
for s in $(seq $a $b); do
  for p in ${PROPS:-$(cat claimed.txt)}; do
    out=$(VERIF_SEED=$s ./check $p --tier $tier --no-evidence --jobs ${JOBS:-8} 2>&1); rc=$?
    if [ $rc -ne 0 ]; then echo "seed=$s $p rc=$rc"; echo "$out" | grep -E "VIOLATION|INCONCLUSIVE|violated clause|problem" | head -5 | cut -c1-300; fi
  done
  echo "seed $s done"
done
