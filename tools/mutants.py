#!/venv/bin/python
"""Apply each screened mutant (notes/mutants.json + notes/mutants_extra.json) to a scratch
copy of /repo/txtorcon and run the check of its property against it (VERIF_REPO=scratch).

usage: tools/mutants.py [--prop C01] [--id substring] [--tier quick] [--only-survivors]
"""
import argparse, json, os, shutil, subprocess, sys, tempfile
from concurrent.futures import ThreadPoolExecutor

VERIF = os.path.dirname(os.path.dirname(os.path.abspath(__file__)))


def load():
    out = []
    nd = os.path.join(VERIF, "notes")
    for fn in sorted(os.listdir(nd)):
        if fn.startswith("mutants") and fn.endswith(".json"):
            out.extend(json.load(open(os.path.join(nd, fn)))["mutants"])
    return out


def run_one(m, tier, props_available):
    prop = m["property"]
    if prop not in props_available:
        return m["id"], prop, "no-check", ""
    d = tempfile.mkdtemp(prefix="vfmut-")
    try:
        shutil.copytree("/repo/txtorcon", os.path.join(d, "txtorcon"),
                        ignore=shutil.ignore_patterns("__pycache__"))
        p = os.path.join(d, m["file"])
        s = open(p).read()
        if s.count(m["old"]) != 1:
            return m["id"], prop, "does-not-apply(%d)" % s.count(m["old"]), ""
        open(p, "w").write(s.replace(m["old"], m["new"]))
        env = dict(os.environ, VERIF_REPO=d, VERIF_JOBS="4")
        r = subprocess.run([os.path.join(VERIF, "check"), prop, "--tier", tier, "--no-evidence"],
                           env=env, capture_output=True, text=True, timeout=1800)
        keys = [l.strip() for l in r.stdout.splitlines() if "violated clause" in l]
        st = {0: "MISSED", 1: "caught", 2: "inconclusive"}.get(r.returncode, "rc%d" % r.returncode)
        return m["id"], prop, st, "; ".join(k[:110] for k in keys[:2])
    finally:
        shutil.rmtree(d, ignore_errors=True)


def main():
    ap = argparse.ArgumentParser()
    ap.add_argument("--prop")
    ap.add_argument("--id")
    ap.add_argument("--tier", default="quick")
    ap.add_argument("--all", action="store_true", help="also mutants the baseline suite catches")
    a = ap.parse_args()
    ms = load()
    if a.prop:
        ms = [m for m in ms if m["property"] == a.prop]
    if a.id:
        ms = [m for m in ms if a.id in m["id"]]
    if not a.all:
        ms = [m for m in ms if m.get("passes_baseline_suite")]
    avail = {f[:-3].upper() for f in os.listdir(os.path.join(VERIF, "vf", "props")) if f.startswith("c")}
    with ThreadPoolExecutor(4) as ex:
        res = list(ex.map(lambda m: run_one(m, a.tier, avail), ms))
    bad = 0
    for (i, p, st, k) in res:
        print("%-28s %-4s %-14s %s" % (i, p, st, k))
        if st in ("MISSED", "inconclusive"):
            bad += 1
    print("%d mutants, %d not caught" % (len(res), bad))


import atexit, shutil as _sh
atexit.register(lambda: _sh.rmtree(os.path.join(VERIF, "replays", "_scratch"), ignore_errors=True))


if __name__ == "__main__":
    main()
