#!/venv/bin/python
"""Regenerate MANIFEST.json from the property modules (vf/props/cNN.py).

A module is claimed when it defines READY = True.  Everything else is listed under
not_applicable with the reason it gives (NOT_APPLICABLE) or 'check not built yet'.
"""
import importlib, json, os, sys
VERIF = os.path.dirname(os.path.dirname(os.path.abspath(__file__)))
sys.path.insert(0, VERIF)
from vf import env
env.ensure_deps(); env.setup()

props = [json.loads(l) for l in open(os.path.join(VERIF, "properties.jsonl"))]
checks, na = [], []
claimed = set(open(os.path.join(VERIF, "claimed.txt")).read().split())
for p in props:
    pid = p["id"]
    try:
        m = importlib.import_module("vf.props." + pid.lower())
    except ModuleNotFoundError:
        m = None
    if m is None or not getattr(m, "READY", False) or pid not in claimed:
        na.append({"property_id": pid, "reason": getattr(m, "NOT_APPLICABLE", None) or
                   "runtime-monitoring check for this property is not built yet (work in progress); the technique applies, see DESIGN.md section 2"})
        continue
    checks.append({
        "property_id": pid,
        "quick_cmd": "./check %s --tier quick" % pid,
        "thorough_cmd": "./check %s --tier thorough" % pid,
        "evidence_file": "/verif/evidence/%s.json" % pid,
        "replay_cmd_template": "./check %s --replay {path}" % pid,
        "engine": "vf",
        "level_claimed": {"category": m.LEVEL, "text": m.LEVEL_TEXT, "design_ref": "DESIGN.md section 2 / %s" % pid},
        "level_note": m.LEVEL_NOTE,
        "technique": m.TECHNIQUE,
    })
man = {
    "version": 1,
    "setup_cmd": "/venv/bin/python -m vf.setup",
    "hooks": {
        "guard": "TXTORCON_VERIF",
        "enable": "no repository hook is needed: checks import txtorcon from /repo's working tree (sys.path[0]=/repo) in a fresh interpreter per shard and attach monitors from outside; ./check exports TXTORCON_VERIF=1 (reserved)",
        "baseline_off_cmd": "cd /repo && env -u TXTORCON_VERIF /venv/bin/python -m pytest -ra -q -p no:cacheprovider --timeout=900 --continue-on-collection-errors",
        "source_commits": [],
        "add_only": True,
    },
    "engines": [{"name": "vf", "path": "/verif/vf", "serves_properties": [c["property_id"] for c in checks],
                 "kind_free_text": "runtime monitoring: real txtorcon code from the working tree driven by generated / enumerated / fault-injected workloads on harness-owned transports, clocks, reactors and process doubles; boundary recorders + independent reference oracles (reply encoder, kvline, RFC 1928, FakeTor, TorSim); sharded over 16 processes"}],
    "checks": checks,
    "not_applicable": na,
    "notes": "Every check: exit 0 held on what was observed (KNOWN-FINDING lines for findings listed in known_findings.json), exit 1 + VIOLATION line, exit 2 + INCONCLUSIVE line (monitor floor not reached / shard died). VERIF_SEED selects the random stream; VERIF_REPO can point the checks at another checkout (used to validate them against seeded breaks).",
}
json.dump(man, open(os.path.join(VERIF, "MANIFEST.json"), "w"), indent=1)
print("claimed:", [c["property_id"] for c in checks])
