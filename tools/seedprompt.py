#!/usr/bin/env python3
"""tools/seedprompt.py CNN...  -> writes /tmp/seed-CNN-out/PROMPT.txt (property text only; nothing from /verif)"""
import json, sys
props = {json.loads(l)['id']: json.loads(l) for l in open('/verif/properties.jsonl')}
def prompt(pid):
    p = props[pid]
    return f"""You are a software engineer asked to produce *seeded defects* for the open-source project meejah/txtorcon (a Twisted-based client for Tor's control protocol), to evaluate a verification tool you know nothing about.

You have your own scratch git worktree of the project at /tmp/seed-{pid} (work ONLY there; never touch /repo or /verif, never read anything under /verif). Python is /venv/bin/python. The existing test suite is run with:
    cd /tmp/seed-{pid} && /venv/bin/python -m pytest -q -p no:cacheprovider
On the unchanged tree it gives 678 passed and exactly these 3 failures (root-permission tests, always failing here): test_endpoints.py::EndpointTests::test_explit_dir_not_readable_version2, test_endpoints.py::EndpointTests::test_system_tor_explit_dir_not_readable0, test_torconfig.py::HiddenServiceTests::test_single_client_ioerror.
HAZARD: some tests use '/dev/null' as a directory path; when the suite runs as root, /dev/null can get replaced by a directory (a watchdog restores it within a second; if a command fails with "/dev/null: Is a directory" just re-run it).

THE PROPERTY (this text is all you get about what is being verified):
  id: {pid}
  title: {p['title']}
  statement: {p['statement']}
  quantified over: {p['quantifier']['text']}
  code it is anchored in: {', '.join(p['anchors']['files'])}

YOUR TASK: produce THREE different changes (variants a, b, c) to the txtorcon source (not the tests), each of which
  1. BREAKS the property above (some input / schedule / history exists for which the statement becomes false),
  2. still imports/compiles and still PASSES the existing test suite exactly as before (678 passed, the same 3 failures, nothing else),
  3. looks like a realistic mistake or plausible refactoring a maintainer could make (off-by-one, dropped guard, reordered statements, stale state, wrong variable, missing reset, over-eager optimisation, two cooperating sites that each look fine alone) — not sabotage with a magic constant,
  4. needs something SPECIFIC to manifest — a particular interleaving or ordering, a fault/crash at a particular point, a multi-step sequence of operations, an unusual-but-legal input — rather than something ordinary use would expose at once. Make the three variants differ in mechanism and in how subtle they are (variant c should be the hardest to notice).
For each variant also write a DEMONSTRATION: a small standalone Python program demo.py that drives the real txtorcon code (use twisted.test.proto_helpers / fake transports / task.Clock / fake reactors as the project's own tests do; no network, no real Tor) and exits 0 on the unchanged tree and non-zero (with a short message saying what went wrong) with your change applied. Run it as `cd /tmp && PYTHONPATH=/tmp/seed-{pid} /venv/bin/python <demo.py>`.

PROCEDURE for each variant: make the edit in the worktree; run the full suite and confirm the exact same results; run the demo and see it fail; save `git -C /tmp/seed-{pid} diff > /tmp/seed-{pid}-out/<variant>/patch.diff`; then `git -C /tmp/seed-{pid} checkout -- .` and confirm the demo passes on the clean tree; go on to the next variant from the clean tree.
DELIVERABLES in /tmp/seed-{pid}-out/<a|b|c>/ : patch.diff (applies with `git apply` to the clean tree), demo.py, meta.json with keys: property ("{pid}"), summary (one sentence: what the change does), breaks (which clause of the statement becomes false), needs (what exactly is required for it to manifest), suite_result (the pytest summary line you observed with the change), demo_fails_with_change (true/false), demo_passes_without_change (true/false).
Leave the worktree clean (no diff) at the end. Final reply: for each variant two lines (what it does; what is needed to see it)."""
import glob
for pid in sys.argv[1:]:
    text = prompt(pid)
    taken = []
    for mf in sorted(glob.glob('/verif/seeded/%s-*/meta.json' % pid)):
        taken.append('  - ' + json.load(open(mf))['summary'][:300])
    if taken:
        text = text.replace("YOUR TASK: produce THREE different changes",
                            "ALREADY TAKEN (other engineers produced these earlier; yours must use DIFFERENT mechanisms and preferably touch different functions or need different circumstances):\n"
                            + "\n".join(taken) + "\n\nYOUR TASK: produce THREE different changes")
    open(f'/tmp/seed-{pid}-out/PROMPT.txt', 'w').write(text)
    print('wrote', pid, 'taken:', len(taken))
