#!/venv/bin/python
"""tools/keepseed.py <src dir> <seed id> <initially: caught|missed> [note]
Re-confirms the seeded change with tools/seedtest.py (suite + demo + check) and stores it as
/verif/seeded/<id>/ {patch.diff, demo.py, meta.json} with what was run and observed."""
import json, os, shutil, subprocess, sys
VERIF = os.path.dirname(os.path.dirname(os.path.abspath(__file__)))
src, sid, initially = sys.argv[1:4]
note = sys.argv[4] if len(sys.argv) > 4 else ""
r = subprocess.run([os.path.join(VERIF, "tools", "seedtest.py"), src, "--jobs", "6"], capture_output=True, text=True)
res = json.loads(r.stdout[r.stdout.index("{"):])
meta = json.load(open(os.path.join(src, "meta.json")))
ok = (res.get("demo_clean_rc") == 0 and res.get("demo_changed_rc") not in (0, None) and res.get("suite_ok")
      and res.get("applies"))
dst = os.path.join(VERIF, "seeded", sid)
os.makedirs(dst, exist_ok=True)
for f in ("patch.diff", "demo.py"):
    shutil.copy(os.path.join(src, f), os.path.join(dst, f))
prop = meta["property"]
meta.update({
    "id": sid,
    "origin": "written by a fresh sub-agent that was given only the property text and its own worktree of /repo (nothing from /verif)",
    "confirmed_by_me": ok,
    "what_i_ran": ["tools/seedtest.py %s  (scratch git worktree of /repo HEAD: demo on clean tree, git apply, full repo suite, demo on changed tree, ./check %s --tier quick with VERIF_REPO=<worktree>)" % (sid, prop)],
    "observed": {"demo_rc_clean_tree": res.get("demo_clean_rc"), "demo_rc_changed_tree": res.get("demo_changed_rc"),
                 "demo_message": res.get("demo_msg"), "repo_suite_with_change": res.get("suite"),
                 "check": res.get("checks", {}).get(prop)},
    "first_run_of_the_check_as_it_was_then": initially,
    "strengthening": note,
})
json.dump(meta, open(os.path.join(dst, "meta.json"), "w"), indent=1)
print(sid, "confirmed" if ok else "NOT CONFIRMED", res.get("checks", {}).get(prop, {}).get("verdict"))
