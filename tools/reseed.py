#!/venv/bin/python
"""tools/reseed.py <seed id> [note] : re-run the stored seeded change against today's checks and
update meta.json (observed.check, strengthening note). The first-run verdict is kept."""
import json, os, subprocess, sys
VERIF = os.path.dirname(os.path.dirname(os.path.abspath(__file__)))
sid = sys.argv[1]
note = sys.argv[2] if len(sys.argv) > 2 else None
d = os.path.join(VERIF, "seeded", sid)
r = subprocess.run([os.path.join(VERIF, "tools", "seedtest.py"), d, "--no-suite", "--jobs", "6"], capture_output=True, text=True)
res = json.loads(r.stdout[r.stdout.index("{"):])
m = json.load(open(os.path.join(d, "meta.json")))
prop = m["property"]
m["observed"]["check"] = res["checks"][prop]
m["observed"]["demo_rc_clean_tree"] = res.get("demo_clean_rc")
m["observed"]["demo_rc_changed_tree"] = res.get("demo_changed_rc")
if note:
    m["strengthening"] = note
json.dump(m, open(os.path.join(d, "meta.json"), "w"), indent=1)
print(sid, res["checks"][prop]["verdict"])
