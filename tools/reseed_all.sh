#!/bin/sh
# tools/reseed_all.sh [lanes] : re-run every stored seeded change against today's checks (own property,
# quick tier, no suite) and refresh seeded/<id>/meta.json 'observed.check'; prints the ones not caught
cd /verif
n=${1:-4}
ls seeded > /tmp/reseed_all.list
i=0
while [ $i -lt $n ]; do
  ( awk -v n=$n -v i=$i 'NR % n == i' /tmp/reseed_all.list | while read id; do /venv/bin/python tools/reseed.py $id 2>&1 | tail -1; done > /tmp/reseed_all.$i.log ) &
  i=$((i+1))
done
wait
cat /tmp/reseed_all.*.log | grep -v " caught$"
echo "total: $(cat /tmp/reseed_all.*.log | wc -l)  caught: $(cat /tmp/reseed_all.*.log | grep -c ' caught$')"
