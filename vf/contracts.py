"""icontract invariants attached to the real classes from the harness (DESIGN 1.4).

The predicates are silent observers: they record a breach and return True, so a contract
never changes the behaviour under observation.  ``drain(rec, case)`` turns breaches recorded
since the last call into violations attributed to the case that was running.
Evaluations are counted (zero evaluations => the floor in the property module trips).
"""
EVALS = {}
BREACHES = []
_installed = set()


def _count(name):
    EVALS[name] = EVALS.get(name, 0) + 1


class ContractBroken(Exception):
    pass


def install_protocol():
    """TorControlProtocol: the in-flight slot and its Deferred agree; nothing waits in the
    queue while no command is in flight; SingleObserver's fired value never changes."""
    if "protocol" in _installed:
        return True
    try:
        import icontract
    except ImportError:
        return False
    from txtorcon import torcontrolprotocol as T
    from txtorcon import util as U

    def inflight_slot_matches_deferred(self):
        _count("TorControlProtocol.inflight_slot_matches_deferred")
        if (self.command is None) != (self.defer is None):
            BREACHES.append(("inflight-slot-and-deferred-disagree",
                             {"command": repr(self.command)[:80], "defer": repr(self.defer)[:40]}))
        return True

    def idle_means_empty_queue(self):
        _count("TorControlProtocol.idle_means_empty_queue")
        if self.command is None and self.commands and getattr(self, "transport", None) is not None:
            BREACHES.append(("commands-queued-while-nothing-in-flight",
                             {"queued": [c[1][:40] for c in self.commands][:5]}))
        return True

    def fired_value_is_stable(self):
        _count("SingleObserver.fired_value_is_stable")
        if self._fired is not self._NotFired:
            first = self.__dict__.setdefault("_vf_first_fired", self._fired)
            if first is not self._fired:
                BREACHES.append(("single-observer-value-changed", {}))
        return True

    T.TorControlProtocol = icontract.invariant(
        inflight_slot_matches_deferred, error=ContractBroken)(T.TorControlProtocol)
    T.TorControlProtocol = icontract.invariant(
        idle_means_empty_queue, error=ContractBroken)(T.TorControlProtocol)
    U.SingleObserver = icontract.invariant(
        fired_value_is_stable, error=ContractBroken)(U.SingleObserver)
    _installed.add("protocol")
    return True


def drain(rec, case, icls="general"):
    n = 0
    while BREACHES:
        name, detail = BREACHES.pop(0)
        rec.violation("contract-" + name, icls, detail, case)
        n += 1
    return n


def report(rec):
    for k, v in EVALS.items():
        rec.count("contract_evals:" + k, v)
        EVALS[k] = 0
