"""Boundary doubles: recording transport, logical clock, address doubles."""
from twisted.internet import address
from twisted.internet.interfaces import ITransport, ITCPTransport
from zope.interface import implementer


class LClock(object):
    """logical time: one tick per observable event"""
    def __init__(self):
        self.t = 0

    def tick(self):
        self.t += 1
        return self.t


@implementer(ITCPTransport)
class RecTransport(object):
    """Transport double: records every write with a logical timestamp.

    `sink`, when given, is called with each written chunk (the fake server's
    inbox); nothing is ever delivered back re-entrantly from inside write().
    """
    def __init__(self, clock=None, sink=None, host=("127.0.0.1", 40000),
                 peer=("127.0.0.1", 9051)):
        self.clock = clock or LClock()
        self.sink = sink
        self.writes = []            # (t, bytes)
        self.lost = False           # set by the harness when it injects connectionLost
        self.writes_after_loss = []
        self.disconnecting = False
        self.lose_calls = 0
        self.abort_calls = 0
        self._host = address.IPv4Address("TCP", host[0], host[1])
        self._peer = address.IPv4Address("TCP", peer[0], peer[1])
        self.producer = None

    # ITransport
    def write(self, data):
        assert isinstance(data, bytes), "transport.write needs bytes, got %r" % (type(data),)
        t = self.clock.tick()
        if self.lost:
            self.writes_after_loss.append((t, data))
        self.writes.append((t, data))
        if self.sink is not None and not self.lost:
            self.sink(data)

    def writeSequence(self, seq):
        self.write(b"".join(seq))

    def loseConnection(self, *a, **kw):
        self.lose_calls += 1
        self.disconnecting = True

    def abortConnection(self):
        self.abort_calls += 1
        self.disconnecting = True

    def getHost(self):
        return self._host

    def getPeer(self):
        return self._peer

    def registerProducer(self, producer, streaming):
        self.producer = producer

    def unregisterProducer(self):
        self.producer = None

    def setTcpNoDelay(self, enabled):
        pass

    def getTcpNoDelay(self):
        return False

    def setTcpKeepAlive(self, enabled):
        pass

    def getTcpKeepAlive(self):
        return False

    def loseWriteConnection(self):
        pass

    # helpers
    def value(self):
        return b"".join(d for (_, d) in self.writes)

    def clear(self):
        self.writes = []


def segmentations(data, cuts):
    """split `data` at the sorted offsets in `cuts` (0 < c < len)"""
    out = []
    last = 0
    for c in sorted(set(cuts)):
        if 0 < c < len(data):
            out.append(data[last:c])
            last = c
    out.append(data[last:])
    return [x for x in out if x]
