"""Reach counters: how often each function the property is anchored in was entered.

Uses sys.monitoring PY_START restricted (set_local_events) to the code objects of
the named functions, so the cost is confined to those functions.  Names are
"module:qualname" (e.g. "txtorcon.socks:_SocksMachine._parse_request_reply");
inlineCallbacks/decorated functions are unwrapped through __wrapped__.
"""
import importlib
import sys

_counts = {}
_code_names = {}
_TOOL = 4
_installed = False


def _resolve(name):
    modname, qual = name.split(":")
    obj = importlib.import_module(modname)
    for part in qual.split("."):
        try:
            obj = getattr(obj, part)
        except Exception:
            # e.g. automat output methods refuse attribute access on the class
            raw = obj.__dict__[part]
            obj = getattr(raw, "method", raw)
    seen = 0
    while hasattr(obj, "__wrapped__") and seen < 5:
        obj = obj.__wrapped__
        seen += 1
    if isinstance(obj, property):
        obj = obj.fget
    obj = getattr(obj, "__func__", obj)
    return obj.__code__


def _on_start(code, offset):
    n = _code_names.get(code)
    if n is not None:
        _counts[n] += 1
    return None


def install(names):
    global _installed
    if not names:
        return
    mon = sys.monitoring
    if not _installed:
        try:
            mon.use_tool_id(_TOOL, "vf-reach")
        except ValueError:
            pass
        mon.register_callback(_TOOL, mon.events.PY_START, _on_start)
        _installed = True
    for n in names:
        try:
            code = _resolve(n)
        except Exception as e:         # anchor renamed/removed: count stays absent
            _counts.setdefault(n + " (unresolved: %s)" % type(e).__name__, 0)
            continue
        _code_names[code] = n
        _counts.setdefault(n, 0)
        mon.set_local_events(_TOOL, code, mon.events.PY_START)


def counts():
    return dict(_counts)
