"""Shared generators: reply texts, replies, segmentations."""
import random

PRINTABLE = "".join(chr(c) for c in range(0x20, 0x7f))

# lines that look like protocol syntax but are plain content
LOOKALIKES = [
    "250 OK", "250-OK", "250+info=", "650 STREAM 1 NEW 0 x:1", "650-CONF_CHANGED", "650+NS",
    "552 Unrecognized key", "552-more", "510 nope", "251 fine", "250", "650", "2500 x",
    "key=value", "a=b=c", "=x", "x=", "k v=w", "OK ", " OK", "ok", "OKAY", "250 OK\t",
    "\"quoted\"", "'single'", "\"half", "back\\slash", "tab\there", "-", "+", " ",
    "  two  spaces  ", "version=0.4.8.12", "config/names=", "ns/all=",
]
DOT_LINES = [".", ".x", "..", "...", ".hidden=1", ". x", ".OK", ".", "..."]
EDGE_LINES = [" .", ". ", " . ", "\t.", "OK"]       # tagged edge class (DESIGN C01 L)


def rnd_for(*parts):
    return random.Random("/".join(str(p) for p in parts))


def text(rnd, maxlen=24, allow_empty=True, edge=False, dots=True):
    r = rnd.random()
    if r < 0.30:
        return rnd.choice(LOOKALIKES)
    if dots and r < 0.40:
        return rnd.choice(DOT_LINES)
    if edge and r < 0.46:
        return rnd.choice(EDGE_LINES)
    if allow_empty and r < 0.50:
        return ""
    n = rnd.randint(1, maxlen)
    if rnd.random() < 0.1:
        n = rnd.randint(maxlen, maxlen * 8)
    return "".join(rnd.choice(PRINTABLE) for _ in range(n))


def first_text(rnd, **kw):
    """text for a status-coded line (mid/end/data-first): may not be confused with
    nothing -- any printable text is legal there"""
    if kw.pop("status_dots", True) and rnd.random() < 0.04:
        return rnd.choice(["../keys/x", "..", "...x", ".hidden", ". x"])      # dots mean nothing in a status line
    return text(rnd, dots=False, **kw)


def reply(rnd, code=None, max_parts=5, edge=False, allow_5xx_multi=True):
    if code is None:
        r = rnd.random()
        if r < 0.70:
            code = 250
        elif r < 0.75:
            code = 251
        else:
            code = rnd.choice([500, 510, 511, 512, 513, 514, 515, 550, 551, 552, 553, 554, 555])
    parts = []
    nparts = rnd.choice([0, 0, 1, 1, 2, 3, rnd.randint(0, max_parts)])
    if code >= 500 and (not allow_5xx_multi or rnd.random() < 0.6):
        nparts = 0
    for _ in range(nparts):
        if rnd.random() < 0.55:
            parts.append(("mid", first_text(rnd, edge=edge)))
        else:
            nl = rnd.choice([0, 1, 1, 2, 3, rnd.randint(0, 8)])
            parts.append(("data", first_text(rnd, edge=edge),
                          [text(rnd, edge=edge) for _ in range(nl)]))
    if code >= 500:
        end = first_text(rnd, allow_empty=False) or "Unrecognized"
        if rnd.random() < 0.08:
            end = "OK"          # an error whose last line reads like the 2xx terminator
    else:
        end = "OK" if rnd.random() < 0.8 else (first_text(rnd, allow_empty=False, edge=edge) or "OK")
    parts.append(("end", end))
    return code, parts


def chunking(rnd):
    """a chunk-size cycle"""
    r = rnd.random()
    if r < 0.2:
        return [1 << 30]
    if r < 0.4:
        return [1]
    if r < 0.5:
        return [2]
    return [rnd.choice([1, 1, 2, 3, 5, 8, 13, 40, 200]) for _ in range(rnd.randint(1, 6))]


def has_edge(parts):
    """does this reply contain a tagged edge-class line (whitespace-padded dot in a
    data block)"""
    for p in parts:
        if p[0] == "data":
            for ln in p[2]:
                if ln.strip() == "." and ln != ".":
                    return "data-line-whitespace-padded-dot"
                if ln == ".":
                    return "data-line-single-dot"
    return None
