"""Environment set-up shared by every check process.

* the code under test is imported from the repository working tree
  (``$VERIF_REPO``, default ``/repo``), never from a copy or an installed
  distribution;
* third-party verification dependencies (icontract) live in ``/verif/.deps``
  which is *not* committed: it is (re)created from the offline wheelhouse on
  demand;
* the hook guard ``TXTORCON_VERIF`` is set (no repository hook currently needs
  it; it is reserved, see MANIFEST.hooks).
"""
import os
import subprocess
import sys

VERIF = os.path.dirname(os.path.dirname(os.path.abspath(__file__)))
REPO = os.environ.get("VERIF_REPO", "/repo")
DEPS = os.path.join(VERIF, ".deps")
WHEELS = "/opt/veriftools/wheels"
GUARD = "TXTORCON_VERIF"


def ensure_deps():
    """Install icontract into /verif/.deps from the offline wheelhouse."""
    marker = os.path.join(DEPS, "icontract")
    if os.path.isdir(marker):
        return True
    os.makedirs(DEPS, exist_ok=True)
    cmd = [sys.executable, "-m", "pip", "install", "--quiet", "--no-index",
           "--find-links", WHEELS, "--target", DEPS, "icontract"]
    try:
        subprocess.run(cmd, check=True, stdout=subprocess.DEVNULL,
                       stderr=subprocess.DEVNULL, timeout=300)
    except Exception:
        return False
    return os.path.isdir(marker)


def setup():
    os.environ[GUARD] = "1"
    os.environ.setdefault("PYTHONHASHSEED", "0")
    os.environ["TZ"] = "UTC"
    try:
        import time
        time.tzset()
    except Exception:
        pass
    sys.dont_write_bytecode = True
    for p in (DEPS, REPO):
        if p in sys.path:
            sys.path.remove(p)
    sys.path.insert(0, DEPS)
    sys.path.insert(0, REPO)
    # make sure we really got the working tree
    import txtorcon
    got = os.path.dirname(os.path.dirname(os.path.abspath(txtorcon.__file__)))
    if os.path.realpath(got) != os.path.realpath(REPO):
        raise RuntimeError("txtorcon imported from %s, wanted %s" % (got, REPO))
    return REPO
