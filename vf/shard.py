"""One shard = one fresh interpreter: python -m vf.shard <PROP> <spec.json> <out.json>"""
import faulthandler
import importlib
import json
import sys
import warnings


def main():
    prop, specfile, outfile = sys.argv[1:4]
    faulthandler.enable()
    from . import env
    env.setup()
    warnings.simplefilter("ignore")
    from .rec import Recorder
    from . import reach
    with open(specfile) as f:
        spec = json.load(f)
    mod = importlib.import_module("vf.props." + prop.lower())
    reach.install(getattr(mod, "ANCHORS", []))
    rec = Recorder(prop, spec.get("shard", "0"))
    mod.run_shard(spec, rec)
    res = rec.result()
    res["reach"] = reach.counts()
    with open(outfile + ".tmp", "w") as f:
        json.dump(res, f)
    import os
    os.replace(outfile + ".tmp", outfile)


if __name__ == "__main__":
    main()
