"""Reference parser for Tor's control-port key/value lines (SETCONF, RESETCONF, ...).

Written from control-spec section 2.2/3.1 and the description of kvline_parse()
(flags KV_QUOTED | KV_OMIT_VALS) and unescape_string(); no code shared with txtorcon.

    line   = item *( 1*WSP item )
    item   = key [ "=" value ]
    key    = 1*<any char except "=", WSP>
    value  = QuotedString / *<any char except WSP>
    QuotedString = DQUOTE *( qdtext / "\\" any ) DQUOTE     C-style escapes

A quoted value must be followed by white space or the end of the line.
"""


class KvError(ValueError):
    pass


WSP = " \t\r\n\v\f"      # TOR_ISSPACE


def unescape(body):
    """decode the inside of a QuotedString"""
    out = []
    i = 0
    n = len(body)
    while i < n:
        c = body[i]
        if c == '"':
            raise KvError("unescaped quote inside quoted string")
        if c != "\\":
            out.append(c)
            i += 1
            continue
        i += 1
        if i >= n:
            raise KvError("dangling backslash")
        e = body[i]
        if e == "n":
            out.append("\n"); i += 1
        elif e == "t":
            out.append("\t"); i += 1
        elif e == "r":
            out.append("\r"); i += 1
        elif e in "01234567":
            j = i
            v = 0
            while j < n and j < i + 3 and body[j] in "01234567":
                v = v * 8 + int(body[j])
                j += 1
            if v > 255:
                raise KvError("octal escape out of range")
            out.append(chr(v))
            i = j
        elif e in "xX":
            h = body[i + 1:i + 3]
            if len(h) != 2 or any(ch not in "0123456789abcdefABCDEF" for ch in h):
                raise KvError("bad hex escape")
            out.append(chr(int(h, 16)))
            i += 3
        else:
            out.append(e)       # \" \\ \' and any other char stand for themselves
            i += 1
    return "".join(out)


def parse(line):
    """-> list of (key, value-or-None).  `line` is the text after the command word."""
    items = []
    i = 0
    n = len(line)
    while True:
        while i < n and line[i] in WSP:
            i += 1
        if i >= n:
            break
        # key
        j = i
        while j < n and line[j] not in WSP and line[j] != "=":
            j += 1
        key = line[i:j]
        if key == "":
            raise KvError("empty key at %d" % i)
        i = j
        if i >= n or line[i] != "=":
            items.append((key, None))
            continue
        i += 1   # skip '='
        if i < n and line[i] == '"':
            j = i + 1
            while j < n:
                if line[j] == "\\":
                    j += 2
                    continue
                if line[j] == '"':
                    break
                j += 1
            if j >= n:
                raise KvError("unterminated quoted string")
            val = unescape(line[i + 1:j])
            i = j + 1
            if i < n and line[i] not in WSP:
                raise KvError("garbage after quoted string")
        else:
            j = i
            while j < n and line[j] not in WSP:
                j += 1
            val = line[i:j]
            i = j
        items.append((key, val))
    return items


def selftest():
    assert parse("SocksPort=9050") == [("SocksPort", "9050")]
    assert parse('Log="notice stdout" ORPort=0') == [("Log", "notice stdout"), ("ORPort", "0")]
    assert parse("ORPort") == [("ORPort", None)]
    assert parse("A= B=1") == [("A", ""), ("B", "1")]
    assert parse('A="x\\"y\\\\z\\n\\t\\101\\x41"') == [("A", 'x"y\\z\n\tAA')]
    assert parse("A=b=c") == [("A", "b=c")]
    assert parse("A=b\tC=d") == [("A", "b"), ("C", "d")]
    for bad in ('A="x', 'A="x"y', '=x', 'A="a"b"'):
        try:
            parse(bad)
        except KvError:
            pass
        else:
            raise AssertionError(bad)
    return 12
