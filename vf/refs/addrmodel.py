"""Reference address-map model (control-spec 4.1.7 ADDRMAP / GETINFO address-mappings/*)
under a virtual clock, and the renderer of the ADDRMAP lines Tor writes.

Written from the specification; shares no code with txtorcon.

Time is *virtual seconds* (float) since an epoch chosen by the harness; expiry instants
are whole seconds (Tor prints ISO times with second resolution).  An event is a JSON-able
dict::

    {"name": "www.example.com", "addr": "192.0.2.1" | "<error>",
     "exp": 3600 | None,            # absolute virtual second of expiry, None = NEVER
     "form": "local" | "expires" | "cached" | "never" | "never-cached" | "positional",
                                    # "positional" = name addr "local" "utc": the pre-keyword form txtorcon
                                    # still accepts (4th field = UTC expiry); not in today's control-spec
     "cached": "YES" | "NO", "streamid": 12 | None,
     "tzoff": 7200}                 # optional: Tor's local time runs this many seconds ahead of UTC
                                    # (only meaningful on forms that carry EXPIRES=, which is UTC)

Semantics (property C20): the latest event for a name decides; ``<error>`` drops the
name at once; ``NEVER`` persists; a finite expiry T means the name resolves at every
instant strictly before T and at no instant strictly after T (the instant T itself is
not judged: ``boundary`` reports it so the harness can stay away from it).
"""
import datetime

FMT = "%Y-%m-%d %H:%M:%S"
ERROR = "<error>"


def iso(epoch, second):
    """virtual whole second -> 'YYYY-MM-DD HH:MM:SS' (process TZ is UTC: local == UTC)"""
    return (epoch + datetime.timedelta(seconds=int(second))).strftime(FMT)


def render(ev, epoch):
    """the text after '650 ADDRMAP ' / one line of address-mappings/all.

        Address SP NewAddress SP Expiry [SP "error=" ErrorCode] [SP "EXPIRES=" UTCExpiry]
        [SP "CACHED=" Cached] [SP "STREAMID=" StreamId]
        Expiry = DQUOTE ISOTime DQUOTE / "NEVER"
    """
    err = ev["addr"] == ERROR
    # "errkw": False renders an <error> line the way Tors older than the error= keyword did:
    # the <error> address alone says that the lookup failed
    errkw = err and ev.get("errkw", True)
    out = [ev["name"], ev["addr"]]
    form = ev["form"]
    if ev["exp"] is None:
        out.append("NEVER")
        if errkw:
            out.append("error=yes")
        if form == "never-cached":
            out.append('CACHED="%s"' % ev.get("cached", "NO"))
    else:
        t = iso(epoch, ev["exp"])
        out.append('"%s"' % iso(epoch, ev["exp"] + ev.get("tzoff", 0)))
        if errkw:
            out.append("error=yes")
        if form == "positional" and not errkw:
            out.append('"%s"' % t)
        elif form in ("expires", "cached", "positional"):
            out.append('EXPIRES="%s"' % t)
        if form == "cached":
            out.append('CACHED="%s"' % ev.get("cached", "NO"))
    if ev.get("streamid") is not None and form in ("cached", "never-cached"):
        out.append("STREAMID=%d" % ev["streamid"])
    return " ".join(out)


class Name(object):
    __slots__ = ("live", "addr", "exp", "addresses", "history")

    def __init__(self):
        self.live = False
        self.addr = None
        self.exp = None
        self.addresses = []        # every address this name was ever mapped to, in order
        self.history = []          # (t_event, was_live, prev_exp, addr, exp) per event


class AddrModel(object):
    def __init__(self):
        self.now = 0.0
        self.names = {}
        self.boundary_hits = []     # names whose mapping expired exactly at a judged instant

    # -- stimuli ----------------------------------------------------------------
    def event(self, ev):
        """apply one mapping event at the current instant.
        -> (was_live, is_live) for the name"""
        n = self.names.setdefault(ev["name"], Name())
        self._settle(n)
        was = n.live
        prev_exp = n.exp if was else "dead"
        n.history.append((self.now, was, prev_exp, ev["addr"], ev["exp"]))
        if ev["addr"] == ERROR:
            n.live = False
            return was, False
        if ev["addr"] not in n.addresses:
            n.addresses.append(ev["addr"])
        n.addr = ev["addr"]
        n.exp = ev["exp"]
        n.live = n.exp is None or n.exp > self.now
        if n.exp is not None and n.exp == self.now:
            self.boundary_hits.append(ev["name"])
        return was, n.live

    def advance(self, dt):
        """-> names whose mapping expired in (old now, new now]"""
        assert dt >= 0
        self.now += dt
        gone = []
        for name, n in self.names.items():
            if n.live and n.exp is not None and n.exp <= self.now:
                if n.exp == self.now:
                    self.boundary_hits.append(name)
                n.live = False
                gone.append(name)
        return gone

    def _settle(self, n):
        if n.live and n.exp is not None and n.exp <= self.now:
            n.live = False

    # -- queries ----------------------------------------------------------------
    def lookup(self, name):
        """latest address if the latest mapping has not expired, else None"""
        n = self.names.get(name)
        if n is None or not n.live:
            return None
        if n.exp is not None and n.exp <= self.now:
            return None
        return n.addr

    def boundary(self):
        """names whose mapping expired exactly at an instant the harness stopped at (the
        statement does not say which way that instant goes: not judged)"""
        return list(self.boundary_hits)

    def live_expiries(self):
        return sorted({n.exp for n in self.names.values()
                       if n.live and n.exp is not None and n.exp > self.now})

    def live_count(self):
        return sum(1 for k in self.names if self.lookup(k) is not None)

    # -- structural class of a name's history (mechanism keys) --------------------
    def history_class(self, name):
        """minimal structural class of what Tor said about `name` so far.  First match wins:
          error-on-live-name  some <error> event (anywhere in the history) hit a live mapping
          never-after-finite  some NEVER mapping (anywhere in the history) replaced a live finite one
          error-on-new-name   the latest event is <error> for a name that was not mapped
        then, over the current chain (= the events since the name last went from unmapped
        to mapped, i.e. from the latest event that arrived while the name was not mapped):
          expiry>=24h         a finite mapping lay 24 h or more after its event
          update-shorter      an update moved a live finite expiry to an earlier time
          subsecond-clock     a finite future mapping arrived at a fractional clock reading
          update / new-name   anything else
        """
        n = self.names.get(name)
        if n is None or not n.history:
            return "never-mentioned"
        h = n.history
        if any(a == ERROR and w for (_, w, _, a, _) in h):
            return "error-on-live-name"
        if any(w and a != ERROR and e is None and p not in (None, "dead") for (_, w, p, a, e) in h):
            return "never-after-finite"
        if h[-1][3] == ERROR:
            return "error-on-new-name"
        start = max(i for i, ev in enumerate(h) if not ev[1])
        c = h[start:]
        if any(e is not None and e - t0 >= 86400 for (t0, _, _, a, e) in c):
            return "expiry>=24h"
        if any(w and e is not None and p not in (None, "dead") and e < p for (_, w, p, a, e) in c):
            return "update-shorter"
        if any(e is not None and e > t0 and t0 != int(t0) for (t0, _, _, a, e) in c):
            return "subsecond-clock"
        if len(c) > 1:
            return "update"
        return "new-name"


def selftest():
    """the model against hand-computed expectations, the renderer against the literal
    lines of control-spec / Tor's changelog for ticket 8596"""
    epoch = datetime.datetime(2013, 4, 3, 6, 0, 0)
    m = AddrModel()
    n = 0
    e1 = {"name": "example.com", "addr": "192.0.43.10", "exp": 3 * 3600, "form": "cached", "cached": "NO"}
    assert render(e1, epoch) == 'example.com 192.0.43.10 "2013-04-03 09:00:00" EXPIRES="2013-04-03 09:00:00" CACHED="NO"'
    e2 = {"name": "example.com", "addr": "192.0.2.1", "exp": None, "form": "never-cached", "cached": "YES"}
    assert render(e2, epoch) == 'example.com 192.0.2.1 NEVER CACHED="YES"'
    e3 = {"name": "example.invalid", "addr": ERROR, "exp": 60, "form": "cached", "cached": "NO"}
    assert render(e3, epoch) == 'example.invalid <error> "2013-04-03 06:01:00" error=yes EXPIRES="2013-04-03 06:01:00" CACHED="NO"'
    e5 = dict(e1, tzoff=7200)
    assert render(e5, epoch) == 'example.com 192.0.43.10 "2013-04-03 11:00:00" EXPIRES="2013-04-03 09:00:00" CACHED="NO"'
    e6 = dict(e1, form="positional", tzoff=-12600)
    assert render(e6, epoch) == 'example.com 192.0.43.10 "2013-04-03 05:30:00" "2013-04-03 09:00:00"'
    assert render(dict(e3, form="local", errkw=False), epoch) == 'example.invalid <error> "2013-04-03 06:01:00"'
    assert render(dict(e3, form="expires", errkw=False), epoch) == \
        'example.invalid <error> "2013-04-03 06:01:00" EXPIRES="2013-04-03 06:01:00"'
    assert render(dict(e3, form="positional", errkw=False, tzoff=3600), epoch) == \
        'example.invalid <error> "2013-04-03 07:01:00" "2013-04-03 06:01:00"'
    assert render(dict(e3, form="local"), epoch) == 'example.invalid <error> "2013-04-03 06:01:00" error=yes'
    assert render(dict(e3, exp=None, form="never", errkw=False), epoch) == 'example.invalid <error> NEVER'
    e4 = {"name": "a.example", "addr": "10.0.0.1", "exp": 62, "form": "local"}
    assert render(e4, epoch) == 'a.example 10.0.0.1 "2013-04-03 06:01:02"'
    n += 4
    assert m.event(e1) == (False, True) and m.lookup("example.com") == "192.0.43.10"
    assert m.advance(3 * 3600 - 0.5) == [] and m.lookup("example.com") == "192.0.43.10"
    assert m.advance(1.0) == ["example.com"] and m.lookup("example.com") is None
    assert m.event(e2) == (False, True)
    assert m.advance(40 * 86400) == [] and m.lookup("example.com") == "192.0.2.1"
    assert m.history_class("example.com") == "new-name"
    m.advance(0.5)                                             # back to a whole second
    m.event(dict(e1, exp=int(m.now) + 10))
    assert m.history_class("example.com") == "update"         # finite after NEVER
    m.event(dict(e1, exp=int(m.now) + 5))
    assert m.history_class("example.com") == "update-shorter"
    assert m.event(dict(e3, name="example.com")) == (True, False)
    assert m.lookup("example.com") is None and m.history_class("example.com") == "error-on-live-name"
    assert m.event(e3) == (False, False) and m.history_class("example.invalid") == "error-on-new-name"
    m2 = AddrModel()
    m2.event(dict(e4, exp=86400))
    assert m2.history_class("a.example") == "expiry>=24h"
    m2.event(dict(e4, name="b.example", exp=-5))
    assert m2.lookup("b.example") is None
    m2.advance(0.5)
    m2.event(dict(e4, name="c.example", exp=9))
    assert m2.history_class("c.example") == "subsecond-clock"
    m2.advance(8.5)
    assert m2.boundary() == ["c.example"]
    n += 16
    return n
