"""Independent SOCKS5 reference, written from RFC 1928 and Tor's socks-extensions.txt.

Shares no code with txtorcon (and does not use ``socket.inet_*`` / ``struct``, which
txtorcon's encoder is built on): addresses are converted by the small functions below.

Client side (what a client may write), RFC 1928 section 3 and 4::

    greeting   VER(05) NMETHODS(1..255) METHODS(NMETHODS bytes)
    request    VER(05) CMD RSV(00) ATYP DST.ADDR DST.PORT(2 bytes, network order)
               CMD  01 CONNECT  02 BIND  03 UDP ASSOCIATE   (Tor: F0 RESOLVE, F1 RESOLVE_PTR)
               ATYP 01 IPv4 (4 bytes)  03 DOMAINNAME (1 length byte + that many bytes)
                    04 IPv6 (16 bytes)

Server side (what the scripted server emits), RFC 1928 section 3 and 6::

    method     VER(05) METHOD
    reply      VER(05) REP RSV(00) ATYP BND.ADDR BND.PORT

``parse_*`` raise ``Incomplete`` when the bytes are a proper prefix of a message and
``Malformed`` when no continuation can make them one.
"""

VER = 5
CMD_CONNECT = 0x01
CMD_BIND = 0x02
CMD_UDP_ASSOCIATE = 0x03
CMD_RESOLVE = 0xF0          # Tor extension
CMD_RESOLVE_PTR = 0xF1      # Tor extension
CMD_NAMES = {"CONNECT": CMD_CONNECT, "RESOLVE": CMD_RESOLVE, "RESOLVE_PTR": CMD_RESOLVE_PTR}
ATYP_IPV4 = 0x01
ATYP_DOMAIN = 0x03
ATYP_IPV6 = 0x04
METHOD_NONE = 0x00
METHOD_GSSAPI = 0x01
METHOD_USERPASS = 0x02
METHOD_UNACCEPTABLE = 0xFF

# RFC 1928 section 6, REP field
REPLY_MEANING = {
    0: "succeeded",
    1: "general SOCKS server failure",
    2: "connection not allowed by ruleset",
    3: "Network unreachable",
    4: "Host unreachable",
    5: "Connection refused",
    6: "TTL expired",
    7: "Command not supported",
    8: "Address type not supported",
}


class Incomplete(Exception):
    """the bytes are a proper prefix of a message; `need` = minimal total length known so far"""
    def __init__(self, need, have, what):
        Exception.__init__(self, "%s: have %d bytes, need at least %d" % (what, have, need))
        self.need = need
        self.have = have
        self.what = what


class Malformed(Exception):
    def __init__(self, field, why):
        Exception.__init__(self, "%s: %s" % (field, why))
        self.field = field
        self.why = why


# ---------------------------------------------------------------------------
# address text <-> bytes (own implementation)

def ipv4_text(b):
    if len(b) != 4:
        raise ValueError("IPv4 needs 4 bytes")
    return ".".join(str(x) for x in bytes(b))


def ipv4_bytes(text):
    parts = text.split(".")
    if len(parts) != 4:
        raise ValueError("not a dotted quad: %r" % (text,))
    out = []
    for p in parts:
        if not p or len(p) > 3 or any(c not in "0123456789" for c in p):
            raise ValueError("bad octet %r" % (p,))
        if len(p) > 1 and p[0] == "0":
            raise ValueError("leading zero in octet %r" % (p,))
        v = int(p)
        if v > 255:
            raise ValueError("octet out of range %r" % (p,))
        out.append(v)
    return bytes(out)


def _groups(b):
    return [(b[i] << 8) | b[i + 1] for i in range(0, 16, 2)]


def ipv6_text(b, style="canonical"):
    """render 16 bytes as IPv6 text.

    styles: canonical (RFC 5952: lower case, longest zero run of >= 2 groups compressed,
    leftmost on a tie), full (8 groups, no leading zeros), padded (8 groups of 4 digits),
    upper (canonical, upper case), dotted (last 32 bits as dotted quad, rest canonical-ish),
    altzero (compress the *last* zero run instead of the longest, when there are several)
    """
    b = bytes(b)
    if len(b) != 16:
        raise ValueError("IPv6 needs 16 bytes")
    g = _groups(b)
    if style == "full":
        return ":".join("%x" % x for x in g)
    if style == "padded":
        return ":".join("%04x" % x for x in g)
    if style == "upper":
        return ipv6_text(b, "canonical").upper()
    if style == "dotted":
        head = _compress(g[:6], tail_follows=True)
        return head + ipv4_text(b[12:])
    if style == "altzero":
        runs = _zero_runs(g)
        if not runs:
            return ":".join("%x" % x for x in g)
        start, ln = runs[-1]
        return _render(g, start, ln)
    runs = [r for r in _zero_runs(g) if r[1] >= 2]
    if not runs:
        return ":".join("%x" % x for x in g)
    best = max(runs, key=lambda r: (r[1], -r[0]))
    return _render(g, best[0], best[1])


def _zero_runs(g):
    runs = []
    i = 0
    while i < len(g):
        if g[i] == 0:
            j = i
            while j < len(g) and g[j] == 0:
                j += 1
            runs.append((i, j - i))
            i = j
        else:
            i += 1
    return runs


def _render(g, start, ln):
    left = ":".join("%x" % x for x in g[:start])
    right = ":".join("%x" % x for x in g[start + ln:])
    return left + "::" + right


def _compress(g, tail_follows):
    """render the first groups of an address whose tail is written as a dotted quad"""
    runs = [r for r in _zero_runs(g) if r[1] >= 2]
    if not runs:
        return ":".join("%x" % x for x in g) + ":"
    start, ln = max(runs, key=lambda r: (r[1], -r[0]))
    left = ":".join("%x" % x for x in g[:start])
    right = ":".join("%x" % x for x in g[start + ln:])
    return left + "::" + (right + ":" if right else "")


def ipv6_bytes(text):
    """parse IPv6 text (RFC 4291 section 2.2 forms 1-3) into 16 bytes"""
    if not isinstance(text, str):
        raise ValueError("text wanted")
    if text.count("::") > 1 or ":::" in text:
        raise ValueError("more than one '::'")
    tail = b""
    if "." in text:
        i = text.rfind(":")
        if i < 0:
            raise ValueError("dotted part without ':'")
        tail = ipv4_bytes(text[i + 1:])
        text = text[:i + 1]
        if text.endswith("::"):
            pass
        elif text.endswith(":"):
            text = text[:-1]
    want_groups = 8 - (2 if tail else 0)

    def hexgroups(s):
        if s == "":
            return []
        out = []
        for p in s.split(":"):
            if not (1 <= len(p) <= 4) or any(c not in "0123456789abcdefABCDEF" for c in p):
                raise ValueError("bad group %r" % (p,))
            out.append(int(p, 16))
        return out

    if "::" in text:
        l, r = text.split("::")
        lg, rg = hexgroups(l), hexgroups(r)
        missing = want_groups - len(lg) - len(rg)
        if missing < 1:
            raise ValueError("'::' must stand for at least one group")
        g = lg + [0] * missing + rg
    else:
        g = hexgroups(text)
        if len(g) != want_groups:
            raise ValueError("wrong number of groups")
    return b"".join(bytes([x >> 8, x & 0xFF]) for x in g) + tail


# ---------------------------------------------------------------------------
# client -> server

def parse_greeting(data):
    """-> ({"ver", "methods"}, consumed)"""
    data = bytes(data)
    if len(data) < 2:
        raise Incomplete(2, len(data), "greeting")
    ver, n = data[0], data[1]
    if ver != VER:
        raise Malformed("greeting.VER", "is %d, not 5" % ver)
    if n == 0:
        raise Malformed("greeting.NMETHODS", "is 0")
    if len(data) < 2 + n:
        raise Incomplete(2 + n, len(data), "greeting")
    return {"ver": ver, "methods": list(data[2:2 + n])}, 2 + n


def parse_request(data):
    """-> ({"ver","cmd","rsv","atyp","addr" (raw bytes),"host" (decoded),"port"}, consumed)

    `host` is the dotted quad / canonical IPv6 text / the raw name bytes.
    Field values other than the framing (unknown CMD, RSV != 0, VER != 5) are *reported*,
    not rejected -- the oracle decides; only an unknown ATYP makes framing impossible.
    """
    data = bytes(data)
    if len(data) < 4:
        raise Incomplete(4, len(data), "request header")
    ver, cmd, rsv, atyp = data[0], data[1], data[2], data[3]
    if atyp == ATYP_IPV4:
        alen, off = 4, 4
    elif atyp == ATYP_IPV6:
        alen, off = 16, 4
    elif atyp == ATYP_DOMAIN:
        if len(data) < 5:
            raise Incomplete(5, len(data), "request DST.ADDR length octet")
        alen, off = data[4], 5
    else:
        raise Malformed("request.ATYP", "unknown address type %d" % atyp)
    need = off + alen + 2
    if len(data) < need:
        raise Incomplete(need, len(data), "request DST.ADDR/DST.PORT for ATYP %d" % atyp)
    addr = data[off:off + alen]
    port = (data[off + alen] << 8) | data[off + alen + 1]
    if atyp == ATYP_IPV4:
        host = ipv4_text(addr)
    elif atyp == ATYP_IPV6:
        host = ipv6_text(addr)
    else:
        host = addr
    return {"ver": ver, "cmd": cmd, "rsv": rsv, "atyp": atyp, "addr": addr, "host": host,
            "port": port}, need


def encode_greeting(methods=(METHOD_NONE,)):
    return bytes([VER, len(methods)]) + bytes(methods)


def encode_request(cmd, atyp, addr, port, ver=VER, rsv=0):
    return bytes([ver, cmd, rsv, atyp]) + _addr_field(atyp, addr) + bytes([port >> 8, port & 0xFF])


# ---------------------------------------------------------------------------
# server -> client

def encode_method_reply(method=METHOD_NONE, ver=VER):
    return bytes([ver, method])


def _addr_field(atyp, addr):
    if atyp == ATYP_IPV4:
        a = ipv4_bytes(addr) if isinstance(addr, str) else bytes(addr)
        if len(a) != 4:
            raise ValueError("IPv4 address field needs 4 bytes")
        return a
    if atyp == ATYP_IPV6:
        a = ipv6_bytes(addr) if isinstance(addr, str) else bytes(addr)
        if len(a) != 16:
            raise ValueError("IPv6 address field needs 16 bytes")
        return a
    if atyp == ATYP_DOMAIN:
        a = addr.encode("ascii") if isinstance(addr, str) else bytes(addr)
        if len(a) > 255:
            raise ValueError("domain name longer than 255")
        return bytes([len(a)]) + a
    # unknown address type: the caller supplies the raw bytes that follow
    return bytes(addr)


def encode_reply(code, atyp, addr, port, ver=VER, rsv=0):
    """VER REP RSV ATYP BND.ADDR BND.PORT"""
    if not (0 <= code <= 255 and 0 <= port <= 65535):
        raise ValueError("field out of range")
    return bytes([ver, code, rsv, atyp]) + _addr_field(atyp, addr) + bytes([port >> 8, port & 0xFF])


def parse_reply(data):
    """decoder for the server side (used to self-test the encoder) -> (fields, consumed)"""
    data = bytes(data)
    if len(data) < 4:
        raise Incomplete(4, len(data), "reply header")
    ver, code, rsv, atyp = data[:4]
    if atyp == ATYP_IPV4:
        alen, off = 4, 4
    elif atyp == ATYP_IPV6:
        alen, off = 16, 4
    elif atyp == ATYP_DOMAIN:
        if len(data) < 5:
            raise Incomplete(5, len(data), "reply length octet")
        alen, off = data[4], 5
    else:
        raise Malformed("reply.ATYP", "unknown address type %d" % atyp)
    need = off + alen + 2
    if len(data) < need:
        raise Incomplete(need, len(data), "reply address/port")
    return {"ver": ver, "code": code, "rsv": rsv, "atyp": atyp, "addr": data[off:off + alen],
            "port": (data[need - 2] << 8) | data[need - 1]}, need


# ---------------------------------------------------------------------------

def selftest():
    """hand-built messages; returns the number of assertions that held"""
    n = 0

    def ok(cond, what):
        nonlocal n
        if not cond:
            raise AssertionError("socks5 reference self-test: " + what)
        n += 1

    # greeting
    g, used = parse_greeting(b"\x05\x01\x00")
    ok(g == {"ver": 5, "methods": [0]} and used == 3, "greeting 05 01 00")
    g, used = parse_greeting(b"\x05\x02\x00\x02rest")
    ok(g["methods"] == [0, 2] and used == 4, "greeting with two methods")
    for bad, exc in ((b"", Incomplete), (b"\x05", Incomplete), (b"\x05\x02\x00", Incomplete),
                     (b"\x04\x01\x00", Malformed), (b"\x05\x00", Malformed)):
        try:
            parse_greeting(bad)
            ok(False, "greeting %r accepted" % (bad,))
        except exc:
            ok(True, "")
    ok(encode_greeting() == b"\x05\x01\x00", "encode greeting")

    # requests written out by hand from RFC 1928 section 4
    r, used = parse_request(b"\x05\x01\x00\x01\x01\x02\x03\x04\x01\xbb")
    ok(used == 10 and r["cmd"] == 1 and r["atyp"] == 1 and r["host"] == "1.2.3.4" and r["port"] == 443,
       "CONNECT 1.2.3.4:443")
    r, used = parse_request(b"\x05\xf0\x00\x03\x09meejah.ca\x00\x00")
    ok(used == 16 and r["cmd"] == 0xF0 and r["atyp"] == 3 and r["host"] == b"meejah.ca" and r["port"] == 0,
       "RESOLVE meejah.ca")
    v6 = bytes.fromhex("20010db8000000000000000000000001")
    r, used = parse_request(b"\x05\x01\x00\x04" + v6 + b"\x1f\x90" + b"extra")
    ok(used == 22 and r["atyp"] == 4 and r["addr"] == v6 and r["host"] == "2001:db8::1" and r["port"] == 8080,
       "CONNECT [2001:db8::1]:8080 + trailing")
    r, used = parse_request(b"\x05\xf1\x00\x01\x7f\x00\x00\x01\x00\x00")
    ok(r["cmd"] == 0xF1 and r["host"] == "127.0.0.1", "RESOLVE_PTR 127.0.0.1")
    # the 10-byte request with ATYP 4 is four bytes of address short of an IPv6 request
    try:
        parse_request(b"\x05\x01\x00\x04\x20\x02\x44\x93\x04\xd2")
        ok(False, "short IPv6 request accepted")
    except Incomplete as e:
        ok(e.need == 22 and e.have == 10, "short IPv6 request: need 22")
    try:
        parse_request(b"\x05\x01\x00\x02\x00\x00\x00\x00\x00\x00")
        ok(False, "ATYP 2 accepted")
    except Malformed as e:
        ok(e.field == "request.ATYP", "ATYP 2 malformed")
    # every proper prefix of a request is Incomplete, the whole is not
    for msg in (b"\x05\x01\x00\x01\x01\x02\x03\x04\x01\xbb", b"\x05\xf0\x00\x03\x03abc\x00\x50",
                b"\x05\x01\x00\x04" + v6 + b"\x00\x01", b"\x05\x01\x00\x03\xff" + b"a" * 255 + b"\xff\xfe"):
        for k in range(len(msg)):
            try:
                parse_request(msg[:k])
                ok(False, "prefix %d of %r parsed" % (k, msg))
            except Incomplete:
                ok(True, "")
        r, used = parse_request(msg)
        ok(used == len(msg), "whole message consumed")
        ok(encode_request(r["cmd"], r["atyp"], r["addr"], r["port"]) == msg, "request re-encodes")
    ok(parse_request(b"\x05\x01\x00\x03\xff" + b"a" * 255 + b"\xff\xfe")[0]["port"] == 0xFFFE, "port big-endian")

    # replies
    ok(encode_method_reply() == b"\x05\x00" and encode_method_reply(0xFF) == b"\x05\xff"
       and encode_method_reply(0, ver=4) == b"\x04\x00", "method replies")
    ok(encode_reply(0, ATYP_IPV4, "0.0.0.0", 0) == b"\x05\x00\x00\x01\x00\x00\x00\x00\x00\x00", "success 0.0.0.0:0")
    ok(encode_reply(5, ATYP_IPV4, b"\x00\x00\x00\x00", 0xFFFF) == b"\x05\x05\x00\x01\x00\x00\x00\x00\xff\xff",
       "connection refused")
    ok(encode_reply(0, ATYP_DOMAIN, b"meejah", 0) == b"\x05\x00\x00\x03\x06meejah\x00\x00", "domain reply")
    ok(encode_reply(0, ATYP_IPV6, "::", 0xBEEF) == b"\x05\x00\x00\x04" + b"\x00" * 16 + b"\xbe\xef", "ipv6 reply")
    ok(encode_reply(0, 0xAF, b"\x00\x00\x00\x00", 0, ver=5) == b"\x05\x00\x00\xaf\x00\x00\x00\x00\x00\x00",
       "unknown-atyp reply carries the raw bytes")
    for code in (0, 1, 8, 9, 255):
        for atyp, addr in ((1, b"\x01\x02\x03\x04"), (4, v6), (3, b"x"), (3, b"n" * 255)):
            enc = encode_reply(code, atyp, addr, 0x1234)
            dec, used = parse_reply(enc + b"tail")
            ok(used == len(enc) and dec == {"ver": 5, "code": code, "rsv": 0, "atyp": atyp, "addr": addr,
                                            "port": 0x1234}, "reply round trip")
    ok(len(REPLY_MEANING) == 9, "reply table")

    # address text
    ok(ipv4_text(b"\x00\x01\x02\xff") == "0.1.2.255" and ipv4_bytes("255.0.10.1") == b"\xff\x00\x0a\x01", "ipv4")
    for bad in ("1.2.3", "1.2.3.4.5", "256.1.1.1", "01.2.3.4", "1..3.4", "a.b.c.d", ""):
        try:
            ipv4_bytes(bad)
            ok(False, "ipv4 %r accepted" % bad)
        except ValueError:
            ok(True, "")
    table = [
        ("00000000000000000000000000000000", "::"),
        ("00000000000000000000000000000001", "::1"),
        ("20010db8000000000000000000000001", "2001:db8::1"),
        ("20010db8000000010001000100010001", "2001:db8:0:1:1:1:1:1"),
        ("20010db8000000000001000000000001", "2001:db8::1:0:0:1"),
        ("fe800000000000000000000000000000", "fe80::"),
        ("00000000000000000000ffff01020304", "::ffff:102:304"),
        ("ffffffffffffffffffffffffffffffff", "ffff:ffff:ffff:ffff:ffff:ffff:ffff:ffff"),
        ("000100000000000000000000000a0000", "1::a:0"),
    ]
    for hx, txt in table:
        b = bytes.fromhex(hx)
        ok(ipv6_text(b) == txt, "ipv6 canonical %s -> %s (got %s)" % (hx, txt, ipv6_text(b)))
        for style in ("canonical", "full", "padded", "upper", "dotted", "altzero"):
            t = ipv6_text(b, style)
            ok(ipv6_bytes(t) == b, "ipv6 %s form %r parses back" % (style, t))
    ok(ipv6_text(bytes.fromhex("00000000000000000000ffff01020304"), "dotted") == "::ffff:1.2.3.4", "v4-mapped")
    ok(ipv6_bytes("::ffff:1.2.3.4") == bytes.fromhex("00000000000000000000ffff01020304"), "v4-mapped parse")
    ok(ipv6_bytes("1:2:3:4:5:6:1.2.3.4") == bytes.fromhex("00010002000300040005000601020304"), "form 3 no ::")
    for bad in ("", ":", "1::2::3", "1:2:3:4:5:6:7", "1:2:3:4:5:6:7:8:9", "12345::", "g::", "1:::2", "::1.2.3"):
        try:
            ipv6_bytes(bad)
            ok(False, "ipv6 %r accepted" % bad)
        except ValueError:
            ok(True, "")
    # cross-check the formatter/parser against the standard library on a deterministic sample
    import ipaddress
    import random
    rnd = random.Random("socks5-selftest")
    for i in range(300):
        b = bytes(rnd.choice([0, 0, 0, rnd.randrange(256), 0xFF]) for _ in range(16))
        for style in ("canonical", "full", "padded", "upper", "dotted", "altzero"):
            t = ipv6_text(b, style)
            ok(ipaddress.IPv6Address(t).packed == b, "stdlib disagrees on %r" % t)
        ok(ipv6_text(b) == str(ipaddress.IPv6Address(b)), "canonical form differs from stdlib for %s" % b.hex())
        b4 = bytes(rnd.randrange(256) for _ in range(4))
        ok(ipaddress.IPv4Address(ipv4_text(b4)).packed == b4, "stdlib disagrees on ipv4")
    return n


if __name__ == "__main__":
    print("socks5 reference self-test: %d ok" % selftest())
