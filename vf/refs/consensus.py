"""Reference network-status (consensus) document GENERATOR, expected relay VIEW and an
independent reference READER (dir-spec 3.4.1 "r"/"a"/"s"/"w"/"p" items as Tor's control
port renders them for ``GETINFO ns/all`` and ``650+NEWCONSENSUS``, control-spec 3.9/4.1.15).

Written from the specifications; shares no code with txtorcon (base64 is done by hand
here and only cross-checked against the standard library in ``selftest``).

A relay entry is a plain JSON-able dict::

    {"nick": "Unnamed", "id": "<40 hex, upper>", "digest": "<40 hex>",
     "published": "2026-03-01 12:00:00", "ip": "192.0.2.7", "orport": 9001, "dirport": 0,
     "a": ["[2001:db8::1]:9001", ...],        # zero or more "a" lines (dir-spec: any number)
     "flags": ["Fast", "Guard", ...],          # the "s" line (exactly once), as written; [] -> "s " (dir-spec:
                                               # "s" SP Flags NL with Flags a possibly empty series)
     "bw": 1234 | None,                        # "w Bandwidth=" (at most once) or no w line
     "wx": ["Unmeasured=1"],                   # further w-line keywords (after Bandwidth=)
     "p": "accept 80,443" | None}              # "p" line (at most once) or none

Item order inside one entry is the one dir-spec prescribes: r, a*, s, w?, p?.
"""

ALPHABET = "ABCDEFGHIJKLMNOPQRSTUVWXYZabcdefghijklmnopqrstuvwxyz0123456789+/"
_INDEX = {c: i for i, c in enumerate(ALPHABET)}

KNOWN_FLAGS = ["Authority", "BadExit", "Exit", "Fast", "Guard", "HSDir", "MiddleOnly",
               "NoEdConsensus", "Running", "Stable", "StaleDesc", "Sybil", "V2Dir", "Valid"]


# ---------------------------------------------------------------------------
# identity codecs (RFC 4648 base64 without padding  <->  "$" + upper-case hex)

def b64_nopad(data):
    """base64 of `data` with the trailing '=' padding removed (dir-spec 1.2: "base64
    ... with trailing equals signs removed"); 20 bytes -> 27 characters"""
    out = []
    n = len(data)
    i = 0
    while i + 3 <= n:
        v = (data[i] << 16) | (data[i + 1] << 8) | data[i + 2]
        out.append(ALPHABET[(v >> 18) & 63] + ALPHABET[(v >> 12) & 63]
                   + ALPHABET[(v >> 6) & 63] + ALPHABET[v & 63])
        i += 3
    rest = n - i
    if rest == 1:
        v = data[i] << 4
        out.append(ALPHABET[(v >> 6) & 63] + ALPHABET[v & 63])
    elif rest == 2:
        v = ((data[i] << 8) | data[i + 1]) << 2
        out.append(ALPHABET[(v >> 12) & 63] + ALPHABET[(v >> 6) & 63] + ALPHABET[v & 63])
    return "".join(out)


def b64_nopad_decode(text):
    bits = 0
    nbits = 0
    out = bytearray()
    for ch in text:
        bits = (bits << 6) | _INDEX[ch]
        nbits += 6
        if nbits >= 8:
            nbits -= 8
            out.append((bits >> nbits) & 0xFF)
            bits &= (1 << nbits) - 1
    if bits:
        raise ValueError("non-canonical base64 (non-zero trailing bits)")
    return bytes(out)


def identity_b64(hexid):
    """40 hex digits -> the 27-character identity of an "r" line"""
    return b64_nopad(bytes.fromhex(hexid))


def fingerprint(hexid):
    """40 hex digits -> "$" + upper-case hex, the form control-spec uses for LongName"""
    return "$" + hexid.upper()


def b64_to_fingerprint(b64):
    return "$" + b64_nopad_decode(b64).hex().upper()


# ---------------------------------------------------------------------------
# rendering

def entry_lines(r):
    lines = ["r %s %s %s %s %s %d %d" % (
        r["nick"], identity_b64(r["id"]), identity_b64(r["digest"]), r["published"],
        r["ip"], r["orport"], r["dirport"])]
    for a in r.get("a", ()):
        lines.append("a " + a)
    lines.append("s " + " ".join(r["flags"]))
    if r.get("bw") is not None:
        lines.append(" ".join(["w", "Bandwidth=%d" % r["bw"]] + list(r.get("wx", ()))))
    if r.get("p") is not None:
        lines.append("p " + r["p"])
    return lines


def document_lines(relays):
    out = []
    for r in relays:
        out.extend(entry_lines(r))
    return out


# ---------------------------------------------------------------------------
# the relay view a client must hold after a document (property C16)

def view(relays):
    """-> {"relays": {fingerprint: {...}}, "unique": {nick: fingerprint},
           "duplicate": set(nick), "guards": set(fp), "authorities": set(fp)}"""
    by_fp = {}
    names = {}
    for r in relays:
        fp = fingerprint(r["id"])
        if fp in by_fp:
            raise ValueError("identity listed twice: " + fp)
        by_fp[fp] = {
            "nick": r["nick"], "ip": r["ip"], "ipv6": list(r.get("a", ())),
            "orport": int(r["orport"]), "dirport": int(r["dirport"]),
            "flags": sorted(f.lower() for f in r["flags"]),
            "bandwidth": r.get("bw"),           # None = no w line (client default)
            "b64": identity_b64(r["id"]),
        }
        names.setdefault(r["nick"], []).append(fp)
    return {
        "relays": by_fp,
        "unique": {n: fps[0] for n, fps in names.items() if len(fps) == 1},
        "duplicate": {n for n, fps in names.items() if len(fps) > 1},
        "by_name": names,
        "guards": {fp for fp, v in by_fp.items() if "guard" in v["flags"]},
        "authorities": {fp for fp, v in by_fp.items() if "authority" in v["flags"]},
    }


# ---------------------------------------------------------------------------
# independent reference READER (used only to self-test the generator)

def read_document(lines):
    """dir-spec 3.4.1 reader for the items this generator writes; strict about order and
    multiplicity (r once, a any number, s exactly once, w / p at most once, in that order)"""
    out = []
    cur = None
    stage = None
    order = {"r": 0, "a": 1, "s": 2, "w": 3, "p": 4}
    for ln in lines:
        kw, _, rest = ln.partition(" ")
        if kw not in order:
            raise ValueError("unknown item %r" % ln)
        if kw == "r":
            if cur is not None:
                if "flags" not in cur:
                    raise ValueError("entry without s line")
                out.append(cur)
            f = rest.split(" ")
            if len(f) != 8:
                raise ValueError("r line needs 8 arguments: %r" % ln)
            cur = {"nick": f[0], "id": b64_nopad_decode(f[1]).hex().upper(),
                   "digest": b64_nopad_decode(f[2]).hex().upper(),
                   "published": f[3] + " " + f[4], "ip": f[5], "orport": int(f[6]),
                   "dirport": int(f[7]), "a": [], "bw": None, "wx": [], "p": None}
            if len(f[1]) != 27 or len(cur["id"]) != 40:
                raise ValueError("identity is not 27 characters / 20 bytes")
            stage = 0
            continue
        if cur is None:
            raise ValueError("item before first r line")
        if order[kw] < stage or (order[kw] == stage and kw != "a"):
            raise ValueError("item out of order / repeated: %r" % ln)
        stage = order[kw]
        if kw == "a":
            cur["a"].append(rest)
        elif kw == "s":
            cur["flags"] = rest.split(" ") if rest else []
        elif kw == "w":
            kws = rest.split(" ")
            if not kws[0].startswith("Bandwidth="):
                raise ValueError("w line must start with Bandwidth=")
            cur["bw"] = int(kws[0][len("Bandwidth="):])
            cur["wx"] = kws[1:]
        elif kw == "p":
            cur["p"] = rest
    if cur is not None:
        if "flags" not in cur:
            raise ValueError("entry without s line")
        out.append(cur)
    return out


def normalise(r):
    return {"nick": r["nick"], "id": r["id"].upper(), "digest": r["digest"].upper(),
            "published": r["published"], "ip": r["ip"], "orport": int(r["orport"]),
            "dirport": int(r["dirport"]), "a": list(r.get("a", ())), "flags": list(r["flags"]),
            "bw": r.get("bw"), "wx": list(r.get("wx", ())), "p": r.get("p")}


def selftest():
    import base64
    import binascii
    import random
    rnd = random.Random(16)
    n = 0
    # codec against the standard library and the published example of txtorcon's docs
    samples = [bytes(20), b"\xff" * 20, bytes(range(20)), b"\x00" * 19 + b"\x01",
               b"\x80" + b"\x00" * 19, b"\xfb\xef\xbe" * 6 + b"\xfb\xef"]
    samples += [bytes(rnd.getrandbits(8) for _ in range(20)) for _ in range(500)]
    samples += [bytes(rnd.getrandbits(8) for _ in range(k)) for k in range(0, 12)]
    for b in samples:
        want = base64.b64encode(b).decode("ascii").rstrip("=")
        got = b64_nopad(b)
        assert got == want, (b, got, want)
        assert b64_nopad_decode(got) == b
        if len(b) == 20:
            assert len(got) == 27
            assert b64_to_fingerprint(got) == "$" + binascii.hexlify(b).decode().upper()
        n += 1
    assert b64_to_fingerprint("ABJlguUFz1lvQS0jq8nhTdRiXEk") == "$00126582E505CF596F412D23ABC9E14DD4625C49"
    # generator -> reader round trip
    for _ in range(300):
        relays = []
        for k in range(rnd.randint(1, 12)):
            relays.append({
                "nick": rnd.choice(["Unnamed", "a", "relay%d" % k, "X" * 19]),
                "id": "%040X" % rnd.getrandbits(160), "digest": "%040X" % rnd.getrandbits(160),
                "published": "2026-03-%02d %02d:00:59" % (rnd.randint(1, 28), rnd.randint(0, 23)),
                "ip": "%d.%d.%d.%d" % tuple(rnd.randint(1, 254) for _ in range(4)),
                "orport": rnd.randint(1, 65535), "dirport": rnd.choice([0, 80, 9030]),
                "a": ["[2001:db8::%x]:%d" % (rnd.randint(1, 65535), rnd.randint(1, 65535))
                      for _ in range(rnd.choice([0, 0, 1, 2]))],
                "flags": sorted(rnd.sample(KNOWN_FLAGS, rnd.randint(0, 6))),
                "bw": rnd.choice([None, 0, 7, 51500]),
                "wx": [], "p": rnd.choice([None, "reject 1-65535", "accept 80,443"])})
            if relays[-1]["bw"] is not None and rnd.random() < 0.2:
                relays[-1]["wx"] = ["Unmeasured=1"]
        got = read_document(document_lines(relays))
        assert got == [normalise(r) for r in relays], (got, relays)
        v = view(relays)
        assert set(v["relays"]) == {fingerprint(r["id"]) for r in relays}
        n += 1
    return n
