"""Reference control-port reply/event ENCODER (control-spec section 2.3, 2.4, 4).

Written from the specification; shares no code with txtorcon.

    Reply      = *(MidReplyLine / DataReplyLine) EndReplyLine
    MidReplyLine  = StatusCode "-" ReplyLine CRLF
    DataReplyLine = StatusCode "+" ReplyLine CRLF CmdData      (dot-stuffed, ends ".CRLF")
    EndReplyLine  = StatusCode SP ReplyLine CRLF

A reply is represented as ``(code, parts)`` where ``parts`` is a list of
``("mid", text)`` / ``("data", first, [lines])`` followed by exactly one
``("end", text)``.
"""

CRLF = b"\r\n"


def encode(code, parts):
    out = []
    c = ("%03d" % code).encode("ascii")
    assert parts and parts[-1][0] == "end"
    for p in parts:
        kind = p[0]
        if kind == "mid":
            out.append(c + b"-" + p[1].encode("ascii") + CRLF)
        elif kind == "data":
            out.append(c + b"+" + p[1].encode("ascii") + CRLF)
            for ln in p[2]:
                b = ln.encode("ascii")
                if b.startswith(b"."):
                    b = b"." + b            # dot-stuffing (2.4.1 / RFC 2821 style)
                out.append(b + CRLF)
            out.append(b"." + CRLF)
        elif kind == "end":
            out.append(c + b" " + p[1].encode("ascii") + CRLF)
        else:
            raise ValueError(kind)
    return b"".join(out)


def lines_of(parts):
    """every reply line and data-block line, in order (the logical content)"""
    out = []
    for p in parts:
        if p[0] == "mid":
            out.append(p[1])
        elif p[0] == "data":
            out.append(p[1])
            out.extend(p[2])
        else:
            out.append(p[1])
    return out


def expected_text(code, parts):
    """what a client must obtain for a plain command (property C01):
    all lines in order joined by newline; for 2xx the final "OK" status line removed
    (a reply consisting only of "250 OK" yields "OK")."""
    ls = lines_of(parts)
    if 200 <= code < 300 and len(ls) > 1 and ls[-1] == "OK":
        ls = ls[:-1]
    return "\n".join(ls)


def expected_callback_lines(code, parts):
    """(mandatory lines, optional trailing 'OK') for a per-line-callback command"""
    ls = lines_of(parts)
    if 200 <= code < 300 and ls[-1] == "OK":
        return ls[:-1], True
    return ls, False


# ---------------------------------------------------------------------------
# events (650)

def encode_event(name, form, text, more=()):
    """form: 'single'  -> 650 NAME text
             'multi'   -> 650-NAME text / 650-more... / 650 OK
             'data'    -> 650+NAME text / more... / . / 650 OK
    """
    head = name if text == "" else name + " " + text
    if form == "single":
        return encode(650, [("end", head)])
    if form == "multi":
        return encode(650, [("mid", head)] + [("mid", m) for m in more] + [("end", "OK")])
    if form == "data":
        return encode(650, [("data", head, list(more)), ("end", "OK")])
    raise ValueError(form)


def event_payloads(name, form, text, more=()):
    """acceptable payloads handed to a listener: text after the event name with the
    further lines joined by newline; a trailing "\\nOK" is tolerated (leniency L of C02)."""
    body = "\n".join([text] + list(more))
    if form == "single":
        return {body}
    return {body, body + "\nOK"}


# ---------------------------------------------------------------------------
# reference DECODER (used only to self-test the encoder)

def decode_stream(data):
    """decode a byte stream of complete replies into [(code, parts)]"""
    lines = data.split(CRLF)
    assert lines[-1] == b""
    lines = lines[:-1]
    out = []
    parts = []
    i = 0
    while i < len(lines):
        ln = lines[i].decode("ascii")
        code, sep, rest = int(ln[:3]), ln[3], ln[4:]
        i += 1
        if sep == "-":
            parts.append(("mid", rest))
        elif sep == "+":
            body = []
            while lines[i] != b".":
                b = lines[i].decode("ascii")
                if b.startswith("."):
                    b = b[1:]
                body.append(b)
                i += 1
            i += 1
            parts.append(("data", rest, body))
        elif sep == " ":
            parts.append(("end", rest))
            out.append((code, parts))
            parts = []
        else:
            raise ValueError(ln)
    assert not parts
    return out


def selftest():
    import random
    rnd = random.Random(1)
    alpha = "aZ09 .=\"-+"
    n = 0
    for _ in range(2000):
        stream = b""
        want = []
        for _ in range(rnd.randint(1, 4)):
            parts = []
            for _ in range(rnd.randint(0, 3)):
                t = "".join(rnd.choice(alpha) for _ in range(rnd.randint(0, 6)))
                if rnd.random() < 0.5:
                    parts.append(("mid", t))
                else:
                    parts.append(("data", t, ["".join(rnd.choice(alpha) for _ in range(rnd.randint(0, 5)))
                                              for _ in range(rnd.randint(0, 3))]))
            parts.append(("end", "OK"))
            code = rnd.choice([250, 251, 552, 650])
            want.append((code, parts))
            stream += encode(code, parts)
        got = decode_stream(stream)
        assert got == want, (got, want)
        n += 1
    return n
