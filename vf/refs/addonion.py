"""Reference for Tor's ephemeral onion-service commands and the HS_DESC event.

Written from control-spec section 3.27 (ADD_ONION), 3.28 (DEL_ONION) and 4.1.25
(HS_DESC); shares no code with txtorcon.

    "ADD_ONION" SP KeyType ":" KeyBlob
                [SP "Flags=" Flag *("," Flag)]
                [SP "MaxStreams=" NumStreams]
                1*(SP "Port=" VirtPort ["," Target])
                *(SP "ClientAuth=" ClientName [":" ClientBlob]) CRLF

    KeyType  = "NEW" / "RSA1024" / "ED25519-V3"
    KeyBlob  = "BEST" / "RSA1024" / "ED25519-V3"   (for NEW)   or the serialized key
    Flag     = "DiscardPK" / "Detach" / "BasicAuth" / "NonAnonymous" /
               "MaxStreamsCloseCircuit" / "V3Auth"
    VirtPort = 1..65535
    Target   = port / address:port / "unix:" path          (default: 127.0.0.1:VirtPort)

    reply:   "250-ServiceID=" id CRLF ["250-PrivateKey=" KeyType ":" KeyBlob CRLF]
             *("250-ClientAuth=" ClientName ":" ClientBlob CRLF) "250 OK" CRLF

    "DEL_ONION" SP ServiceID CRLF            (ServiceID without ".onion")

The argument part is split on single spaces exactly like Tor's parser does: the
arguments after the key specifier are keyword arguments whose order is free;
anything that is not ``Keyword=value`` with a known keyword is an error.  Like Tor,
the parser is line based: it is handed ONE command line (the text after the command
word); a CR or LF inside it cannot occur (FakeTor splits lines before).
"""
import base64
import hashlib
import re


class AddOnionError(ValueError):
    def __init__(self, code, text):
        ValueError.__init__(self, "%d %s" % (code, text))
        self.code = code
        self.text = text


KNOWN_FLAGS = ("DiscardPK", "Detach", "BasicAuth", "NonAnonymous", "MaxStreamsCloseCircuit", "V3Auth")
NEW_BLOBS = ("BEST", "RSA1024", "ED25519-V3")
KEY_TYPES = ("NEW", "RSA1024", "ED25519-V3")

_V2_ID = re.compile(r"^[a-z2-7]{16}$")
_V3_ID = re.compile(r"^[a-z2-7]{56}$")
_CLIENT_NAME = re.compile(r"^[A-Za-z0-9+\-_]{1,16}$")


class AddOnion(object):
    """decoded ADD_ONION arguments"""
    __slots__ = ("key_type", "key_blob", "flags", "ports", "client_auth", "max_streams")

    def __init__(self):
        self.key_type = None
        self.key_blob = None
        self.flags = []            # in wire order
        self.ports = []            # [(virtport:int, target:str|None)] in wire order
        self.client_auth = []      # [(name, blob|None)] in wire order
        self.max_streams = None

    def key_spec(self):
        return "%s:%s" % (self.key_type, self.key_blob)

    def as_tuple(self):
        return (self.key_spec(), tuple(self.ports), tuple(sorted(self.flags)), tuple(self.client_auth))

    def version(self):
        """service version the request asks for (NEW:BEST is Tor's choice: reported as None)"""
        t = self.key_blob if self.key_type == "NEW" else self.key_type
        return {"RSA1024": 2, "ED25519-V3": 3}.get(t)


def parse_target(text):
    """Target of a Port= mapping -> ('tcp', host|None, port) | ('unix', path)"""
    if text.startswith("unix:"):
        path = text[5:]
        if not path:
            raise AddOnionError(512, "Invalid VIRTPORT/TARGET")
        return ("unix", path)
    host = None
    port = text
    if ":" in text:
        host, _, port = text.rpartition(":")
        if host.startswith("[") and host.endswith("]"):
            host = host[1:-1]
        if not host:
            raise AddOnionError(512, "Invalid VIRTPORT/TARGET")
    if not port.isdigit() or not (1 <= int(port) <= 65535):
        raise AddOnionError(512, "Invalid VIRTPORT/TARGET")
    return ("tcp", host, int(port))


def parse_port(value):
    """value of Port=  ->  (virtport, target-text|None)"""
    virt, sep, target = value.partition(",")
    if not virt.isdigit() or not (1 <= int(virt) <= 65535):
        raise AddOnionError(512, "Invalid VIRTPORT/TARGET")
    if sep and target == "":
        raise AddOnionError(512, "Invalid VIRTPORT/TARGET")
    if sep:
        if " " in target or "\t" in target:
            raise AddOnionError(512, "Invalid VIRTPORT/TARGET")
        parse_target(target)
        return (int(virt), target)
    return (int(virt), None)


def parse_add_onion(rest):
    """`rest` = text after the command word "ADD_ONION".  -> AddOnion, or raises
    AddOnionError(code, text) with the status Tor would answer."""
    if "\r" in rest or "\n" in rest:
        raise AddOnionError(512, "line break inside a command line")
    toks = rest.split(" ")
    if toks and toks[0] == "":
        toks = toks[1:]
    if "" in toks:
        raise AddOnionError(512, "empty argument (two consecutive spaces)")
    if not toks:
        raise AddOnionError(512, "Missing arguments to ADD_ONION")
    a = AddOnion()
    ktype, sep, blob = toks[0].partition(":")
    if not sep:
        raise AddOnionError(512, "Invalid key type/blob")
    if ktype not in KEY_TYPES:
        raise AddOnionError(513, "Invalid key type")
    if ktype == "NEW" and blob not in NEW_BLOBS:
        raise AddOnionError(513, "Invalid key type")
    if blob == "":
        raise AddOnionError(512, "Invalid key type/blob")
    a.key_type, a.key_blob = ktype, blob
    seen_flags = False
    for t in toks[1:]:
        kw, sep, val = t.partition("=")
        if not sep:
            raise AddOnionError(513, "Invalid argument %r" % t)
        if kw == "Port":
            a.ports.append(parse_port(val))
        elif kw == "Flags":
            if seen_flags:
                raise AddOnionError(512, "Duplicate Flags argument")
            seen_flags = True
            fl = val.split(",")
            if val == "" or "" in fl:
                raise AddOnionError(512, "Invalid 'Flags' argument")
            for f in fl:
                if f not in KNOWN_FLAGS:
                    raise AddOnionError(512, "Invalid 'Flags' argument: %s" % f)
                if f in a.flags:
                    raise AddOnionError(512, "Duplicate flag: %s" % f)
                a.flags.append(f)
        elif kw == "MaxStreams":
            if not val.isdigit() or int(val) > 65535:
                raise AddOnionError(512, "Invalid MaxStreams")
            a.max_streams = int(val)
        elif kw == "ClientAuth":
            name, sep2, cblob = val.partition(":")
            if not _CLIENT_NAME.match(name):
                raise AddOnionError(512, "Invalid ClientAuth client name")
            if sep2 and cblob == "":
                raise AddOnionError(512, "Invalid ClientAuth blob")
            if name in [n for (n, _) in a.client_auth]:
                raise AddOnionError(512, "Duplicate name in ClientAuth")
            a.client_auth.append((name, cblob if sep2 else None))
        else:
            raise AddOnionError(513, "Invalid argument %r" % t)
    if not a.ports:
        raise AddOnionError(512, "Missing 'Port' argument")
    if a.client_auth and "BasicAuth" not in a.flags:
        raise AddOnionError(512, "No auth type specified")
    if "DiscardPK" in a.flags and a.key_type != "NEW":
        # Tor accepts this (nothing to discard: the key is never echoed); not an error
        pass
    return a


def parse_del_onion(rest):
    """-> service id (without .onion) or raises AddOnionError"""
    toks = rest.split(" ")
    if len(toks) != 1 or toks[0] == "":
        raise AddOnionError(512, "Missing argument to DEL_ONION" if not rest.strip()
                            else "Too many arguments to DEL_ONION")
    sid = toks[0]
    if not (_V2_ID.match(sid) or _V3_ID.match(sid)):
        raise AddOnionError(512, "Malformed Onion Service id")
    return sid


# ---------------------------------------------------------------------------
# replies

def add_onion_reply(service_id, private_key=None, client_auths=()):
    """(code, parts) of a successful ADD_ONION.  private_key = None | "Type:Blob"
    (present only when Tor generated the key and DiscardPK was not given);
    client_auths = [(name, blob)] only for clients whose blob Tor generated."""
    parts = [("mid", "ServiceID=%s" % service_id)]
    if private_key is not None:
        parts.append(("mid", "PrivateKey=%s" % private_key))
    for name, blob in client_auths:
        parts.append(("mid", "ClientAuth=%s:%s" % (name, blob)))
    parts.append(("end", "OK"))
    return (250, parts)


# ---------------------------------------------------------------------------
# service ids

def v2_service_id(der_pkcs1_public_key):
    """base32 of the first 10 bytes of SHA-1 over the DER PKCS#1 public key, lower case"""
    return base64.b32encode(hashlib.sha1(der_pkcs1_public_key).digest()[:10]).decode("ascii").lower()


def v3_service_id(pubkey32):
    """rend-spec-v3 6: base32(PUBKEY | CHECKSUM | VERSION), CHECKSUM = SHA3-256(".onion checksum" | PUBKEY | VERSION)[:2]"""
    assert len(pubkey32) == 32
    ver = b"\x03"
    chk = hashlib.sha3_256(b".onion checksum" + pubkey32 + ver).digest()[:2]
    return base64.b32encode(pubkey32 + chk + ver).decode("ascii").lower()


# ---------------------------------------------------------------------------
# HS_DESC events (control-spec 4.1.25)
#   "650" SP "HS_DESC" SP Action SP HSAddress SP AuthType SP HsDir
#         [SP DescriptorID] [SP "REASON=" Reason] [SP "REPLICA=" Replica] [SP "HSDIR_INDEX=" Index]

HS_DESC_ACTIONS = ("REQUESTED", "UPLOAD", "RECEIVED", "UPLOADED", "IGNORE", "FAILED", "CREATED")
FAIL_REASONS = ("UPLOAD_REJECTED", "UNEXPECTED", "BAD_DESC", "QUERY_REJECTED", "NOT_FOUND", "QUERY_NO_HSDIR")


def hsdir_name(i):
    """LongName of directory number i: $<40 hex>~<nickname>"""
    fp = hashlib.sha1(b"vf-hsdir-%d" % i).hexdigest().upper()
    return "$%s~hsdir%d" % (fp, i)


def descriptor_id(addr, i=0):
    return base64.b32encode(hashlib.sha1(("%s/%d" % (addr, i)).encode()).digest()).decode("ascii").lower()


def hs_desc(action, addr, hsdir, auth="UNKNOWN", descid=None, reason=None, replica=None, hsdir_index=None):
    """the text after 'HS_DESC ' of one event.  `addr` is the service id WITHOUT .onion."""
    assert action in HS_DESC_ACTIONS
    assert " " not in addr and not addr.endswith(".onion")
    t = [action, addr, auth, hsdir]
    if action == "UPLOAD":
        t.append(descid if descid is not None else descriptor_id(addr))
        if hsdir_index is not None:
            t.append("HSDIR_INDEX=%s" % hsdir_index)
    elif action == "UPLOADED":
        pass                                    # Tor sends no descriptor id here
    elif action == "FAILED":
        if descid is not None:
            t.append(descid)
        if reason != "":                        # reason="" : no REASON= field (it is optional in the grammar)
            t.append("REASON=%s" % (reason or "UPLOAD_REJECTED"))
    elif action == "CREATED":
        t[3] = "UNKNOWN"
        t.append(descid if descid is not None else descriptor_id(addr))
        if replica is not None:
            t.append("REPLICA=%d" % replica)
    else:
        if descid is not None:
            t.append(descid)
        if reason is not None:
            t.append("REASON=%s" % reason)
    return " ".join(t)


def parse_hs_desc(text):
    """inverse of hs_desc (self-test only) -> dict"""
    t = text.split(" ")
    d = {"action": t[0], "addr": t[1], "auth": t[2], "hsdir": t[3], "descid": None, "kw": {}}
    for x in t[4:]:
        if "=" in x:
            k, _, v = x.partition("=")
            d["kw"][k] = v
        else:
            d["descid"] = x
    return d


# ---------------------------------------------------------------------------

def selftest():
    n = 0
    a = parse_add_onion("NEW:BEST Port=80,127.0.0.1:8080")
    assert a.as_tuple() == ("NEW:BEST", ((80, "127.0.0.1:8080"),), (), ()); n += 1
    a = parse_add_onion("NEW:ED25519-V3 Flags=DiscardPK,Detach Port=80 Port=443,unix:/run/x.sock")
    assert a.key_spec() == "NEW:ED25519-V3" and a.flags == ["DiscardPK", "Detach"]
    assert a.ports == [(80, None), (443, "unix:/run/x.sock")] and a.version() == 3; n += 1
    a = parse_add_onion("RSA1024:MIICXAIBAAKBgQ== Port=80,8080 Flags=BasicAuth ClientAuth=bob ClientAuth=alice:0GFrfFnQJjIcNzGVtMBAAA")
    assert a.client_auth == [("bob", None), ("alice", "0GFrfFnQJjIcNzGVtMBAAA")] and a.version() == 2
    assert a.key_blob == "MIICXAIBAAKBgQ==" and a.ports == [(80, "8080")]; n += 1
    # spec example
    a = parse_add_onion("NEW:BEST Flags=DiscardPK Port=80")
    assert a.flags == ["DiscardPK"]; n += 1
    bad = ["", "NEW:BEST", "NEW:FOO Port=80", "BEST Port=80", "NEW:BEST Port=0", "NEW:BEST Port=65536",
           "NEW:BEST Port=80, 127.0.0.1:80", "NEW:BEST Port=80,", "NEW:BEST Flags=Detach DiscardPK Port=80",
           "NEW:BEST Flags=Nope Port=80", "NEW:BEST Flags= Port=80", "NEW:BEST Port=80 ClientAuth=bob",
           "NEW:BEST Port=80 Flags=BasicAuth ClientAuth=bob ClientAuth=bob", "NEW:BEST Port=80  Flags=Detach",
           "NEW:BEST Port=127.0.0.1:8080,80", "NEW:BEST Port=80 Bogus", "NEW:BEST Port=80,unix:",
           "NEW:BEST Port=80\r\nSIGNAL HALT", "RSA1024: Port=80", "NEW:BEST Port=80,host:notaport",
           "NEW:BEST Port=80 Flags=BasicAuth ClientAuth=has:two:colons ClientAuth=", "NEW:BEST Flags=Detach,Detach Port=80"]
    for b in bad:
        try:
            parse_add_onion(b)
        except AddOnionError:
            n += 1
        else:
            raise AssertionError("accepted: %r" % b)
    assert parse_port("80,[::1]:81") == (80, "[::1]:81"); n += 1
    assert parse_target("[::1]:81") == ("tcp", "::1", 81) and parse_target("8080") == ("tcp", None, 8080); n += 1
    assert parse_del_onion("abcdefghijklmnop") == "abcdefghijklmnop"; n += 1
    for b in ["", "abcdefghijklmnop.onion", "abcdefghijklmnop x", "ABCDEFGHIJKLMNOP", "abc"]:
        try:
            parse_del_onion(b)
        except AddOnionError:
            n += 1
        else:
            raise AssertionError("accepted: %r" % b)
    # service ids: the RSA example of rend-spec / txtorcon-independent known pair is checked in
    # vf.faketor.oniontor.selftest (needs `cryptography`); here only the shapes
    assert _V2_ID.match(v2_service_id(b"\x30\x81\x89" + b"\x00" * 137)); n += 1
    sid = v3_service_id(bytes(range(32)))
    raw = base64.b32decode(sid.upper())
    assert _V3_ID.match(sid) and raw[:32] == bytes(range(32)) and raw[34:] == b"\x03"; n += 1
    # events round-trip
    for act in ("UPLOAD", "UPLOADED", "FAILED", "CREATED"):
        txt = hs_desc(act, "abcdefghijklmnop", hsdir_name(3), reason="UNEXPECTED" if act == "FAILED" else None,
                      descid="d" * 32 if act != "UPLOADED" else None)
        p = parse_hs_desc(txt)
        assert p["action"] == act and p["addr"] == "abcdefghijklmnop" and p["auth"] == "UNKNOWN"
        assert (p["hsdir"] == hsdir_name(3)) == (act != "CREATED")
        assert (p["descid"] is None) == (act == "UPLOADED")
        assert ("REASON" in p["kw"]) == (act == "FAILED")
        n += 1
    assert "REASON" not in hs_desc("FAILED", "abcdefghijklmnop", hsdir_name(1), reason="")
    assert hs_desc("FAILED", "abcdefghijklmnop", hsdir_name(1), reason="UNEXPECTED").endswith(" REASON=UNEXPECTED"); n += 1
    code, parts = add_onion_reply("abcdefghijklmnop", "RSA1024:xyz", [("bob", "cookie")])
    assert code == 250 and parts == [("mid", "ServiceID=abcdefghijklmnop"), ("mid", "PrivateKey=RSA1024:xyz"),
                                     ("mid", "ClientAuth=bob:cookie"), ("end", "OK")]; n += 1
    return n
