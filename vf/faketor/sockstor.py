"""FakeTor pieces for C18: a config store that knows Tor's SocksPort option family,
and a fake reactor (connectTCP / connectUNIX / listenTCP) that opens no socket.

Option family (Tor's ``VPORT(SocksPort)``): ``SocksPortLines`` is the LINELIST_V
("Virtual") list, ``SocksPort`` and ``__SocksPort`` are LINELIST_S ("Dependent") views
of it.  GETCONF answers with Tor's canonical spelling ``SocksPort``; an option without
a value is answered with the bare key (``250 SocksPort``).  Assigning any member of the
family replaces the whole family (they share one list in Tor).  SETCONF values are
checked against the SocksPort line grammar of the tor manual and refused with 513 like
Tor does -- nothing is changed then.
"""
import re

from twisted.internet import address, defer, error, task
from twisted.python import failure

from .. import wire
from . import core

SOCKS_FAMILY = ("SocksPort", "__SocksPort")

OPTIONS = {
    "SocksPortLines": "Virtual",
    "SocksPort": "Dependent",
    "__SocksPort": "Dependent",
    "DNSPortLines": "Virtual",
    "DNSPort": "Dependent",
    "__DNSPort": "Dependent",
    "TransPortLines": "Virtual",
    "TransPort": "Dependent",
    "__TransPort": "Dependent",
    "Log": "LineList",
    "SafeSocks": "Boolean",
    "SocksTimeout": "TimeInterval",
    "Nickname": "String",
    "SocksPolicy": "LineList",
}

OTHER_VALUES = {
    "DNSPort": ["5353 IsolateDestAddr"],
    "TransPort": ["9040"],
    "Log": ["notice stdout"],
    "SafeSocks": ["0"],
    "SocksTimeout": ["120"],
    "SocksPolicy": ["accept 127.0.0.1", "reject *"],
}

# flags of a SocksPort line (tor(1), SocksPort); every one may carry a "No" prefix
_FLAGS = set(x.lower() for x in (
    "IPv4Traffic IPv6Traffic PreferIPv6 DNSRequest OnionTraffic OnionTrafficOnly "
    "CacheIPv4DNS CacheIPv6DNS CacheDNS UseIPv4Cache UseIPv6Cache UseDNSCache "
    "PreferIPv6Automap PreferSOCKSNoAuth ExtendedErrors GroupWritable WorldWritable "
    "RelaxDirModeCheck IsolateClientAddr IsolateSOCKSAuth IsolateClientProtocol "
    "IsolateDestPort IsolateDestAddr KeepAliveIsolateSOCKSAuth").split())

_V4 = re.compile(r"^(\d{1,3})\.(\d{1,3})\.(\d{1,3})\.(\d{1,3})$")
_HOSTNAME = re.compile(r"^(?=.{1,253}$)[A-Za-z]([A-Za-z0-9-]{0,62})(\.[A-Za-z0-9]([A-Za-z0-9-]{0,62}))*$")


def is_host_name(host):
    """a host NAME (localhost, an FQDN), not an address literal"""
    return bool(_HOSTNAME.match(str(host))) and not re.match(r"^[0-9.]+$", str(host))


def split_line(line):
    """'<first> <flag> <flag>' -> (first, [flags]); the first word of a unix entry may be
    ``unix:"quoted path"``.  None if it cannot be split."""
    s = line.strip()
    if s.startswith('unix:"'):
        j = s.find('"', 6)
        if j < 0:
            return None
        first, rest = s[:j + 1], s[j + 1:]
        if rest and not rest[0].isspace():
            return None
        return first, rest.split()
    parts = s.split()
    if not parts:
        return None
    return parts[0], parts[1:]


def parse_first(first):
    """reference reading of the address part of a SocksPort line (host = IPv4 literal or host name) ->
    ('tcp', host, port) | ('tcp6', host, port) | ('unix', path) | ('auto',) | None"""
    if first.startswith("unix:"):
        p = first[5:]
        if p.startswith('"'):
            if len(p) < 2 or not p.endswith('"'):
                return None
            p = p[1:-1]
        if not p:
            return None
        return ("unix", p)
    if first.lower() == "auto":
        return ("auto",)
    if first.isdigit():
        n = int(first)
        return ("tcp", "127.0.0.1", n) if n <= 65535 else None
    if first.startswith("["):
        m = re.match(r"^\[([0-9a-fA-F:.]+)\]:(\d+|auto)$", first)
        if not m:
            return None
        if m.group(2) == "auto":
            return ("auto",)
        n = int(m.group(2))
        return ("tcp6", m.group(1), n) if n <= 65535 else None
    if ":" in first:
        host, _, port = first.rpartition(":")
        m = _V4.match(host)
        if m and any(int(g) > 255 for g in m.groups()):
            return None
        if not m and not is_host_name(host):      # tor(1): [address:]port, the address may be a name Tor resolves
            return None
        if port == "auto":
            return ("auto",)
        if not port.isdigit() or int(port) > 65535:
            return None
        return ("tcp", host, int(port))
    return None


def valid_line(line):
    sp = split_line(line)
    if sp is None:
        return False
    first, flags = sp
    if parse_first(first) is None:
        return False
    for f in flags:
        lf = f.lower()
        if lf.startswith("sessiongroup="):
            if not lf[13:].isdigit():
                return False
            continue
        if lf.startswith("no") and lf[2:] in _FLAGS:
            continue
        if lf not in _FLAGS:
            return False
    return True


class SocksStore(core.ConfigStore):
    def __init__(self, socks=None, under_socks=None, others=True):
        values = {}
        if others:
            values.update(OTHER_VALUES)
        if socks:
            values["SocksPort"] = list(socks)
        if under_socks:
            values["__SocksPort"] = list(under_socks)
        core.ConfigStore.__init__(self, OPTIONS, values, {})
        self.validators = [self._check_ports]
        self.rejected = []
        self.apply_log = []

    def _check_ports(self, staged):
        for name in SOCKS_FAMILY + ("DNSPort", "__DNSPort", "TransPort", "__TransPort"):
            for v in staged.get(name, []):
                if not valid_line(v):
                    self.rejected.append((name, v))
                    return (513, "Unacceptable option value: Invalid %s configuration" % name)
        return None

    def apply(self, items, reset=False):
        before = len(self.history)
        had = self.socks_entries()
        err = core.ConfigStore.apply(self, items, reset)
        # what Tor had at the moment it processed this SETCONF, what was asked, what came of it
        self.apply_log.append({"before": had, "items": list(items), "err": err})
        if err is None and len(self.history) > before:
            named = set(self.canon(k) for k, _ in items)
            if named & set(SOCKS_FAMILY):
                for n in SOCKS_FAMILY:
                    if n not in named:
                        self.values[n] = []
        return err

    def socks_entries(self):
        """every line of the SocksPort family Tor currently has (what GETCONF reports)"""
        return self.get("SocksPort") + self.get("__SocksPort")

    def snapshot_others(self):
        return {k: list(v) for k, v in self.values.items() if k not in SOCKS_FAMILY}


def make_tor(socks=None, under_socks=None):
    tor = core.FakeTor(conf=SocksStore(socks, under_socks))
    return tor


# ---------------------------------------------------------------------------
# fake reactor

class FakePort(object):
    def __init__(self, reactor, number, interface):
        self.reactor = reactor
        self.number = number
        self.interface = interface or "0.0.0.0"
        self.open = True

    def getHost(self):
        return address.IPv4Address("TCP", self.interface, self.number)

    def stopListening(self):
        self.open = False
        return defer.succeed(None)

    def startListening(self):
        self.open = True


class FakeConnector(object):
    def __init__(self, reactor, kind, target, factory, timeout):
        self.reactor = reactor
        self.kind = kind
        self.target = target
        self.factory = factory
        self.timeout = timeout
        self.state = "connecting"
        self.stopped = False

    def getDestination(self):
        if self.kind == "tcp":
            return address.IPv4Address("TCP", self.target[0], self.target[1])
        return address.UNIXAddress(self.target[0])

    def stopConnecting(self):
        self.stopped = True

    def disconnect(self):
        self.stopped = True

    def connect(self):
        raise RuntimeError("reconnect is not modelled")


class FakeReactor(task.Clock):
    """IReactorTime (task.Clock) + connectTCP/connectUNIX/listenTCP doubles.

    Connection attempts are only recorded; the harness resolves the oldest open one with
    ``succeed()`` or ``fail(exc)`` after the connect call returned (a real reactor never
    reports an outcome from inside connectTCP)."""

    def __init__(self, free_ports=(45011, 45012, 45013)):
        task.Clock.__init__(self)
        self.attempts = []            # ("tcp", host, port) | ("unix", path)
        self.open = []                # FakeConnector, oldest first
        self.listening = []           # FakePort
        self.free_ports = list(free_ports)
        self.transports = []

    # -- IReactorTCP / IReactorUNIX (client side) -------------------------------
    def connectTCP(self, host, port, factory, timeout=30, bindAddress=None):
        c = FakeConnector(self, "tcp", (host, port), factory, timeout)
        self.attempts.append(("tcp", host, port))
        self.open.append(c)
        factory.doStart()
        factory.startedConnecting(c)
        return c

    def connectUNIX(self, address, factory, timeout=30, checkPID=0):
        c = FakeConnector(self, "unix", (address,), factory, timeout)
        self.attempts.append(("unix", address))
        self.open.append(c)
        factory.doStart()
        factory.startedConnecting(c)
        return c

    def listenTCP(self, port, factory, backlog=50, interface=""):
        if port == 0:
            port = self.free_ports.pop(0) if self.free_ports else 45999
        p = FakePort(self, port, interface)
        self.listening.append(p)
        factory.doStart()
        return p

    # -- harness side -----------------------------------------------------------
    def fail(self, exc):
        c = self.open.pop(0)
        c.state = "failed"
        c.factory.clientConnectionFailed(c, failure.Failure(exc))
        c.factory.doStop()
        return c

    def succeed(self, sink=None):
        """-> (protocol, transport) for the oldest open attempt"""
        c = self.open.pop(0)
        c.state = "connected"
        addr = c.getDestination()
        proto = c.factory.buildProtocol(addr)
        if c.kind == "tcp":
            tr = wire.RecTransport(sink=sink, host=("127.0.0.1", 40100 + len(self.transports)),
                                   peer=(c.target[0], c.target[1]))
        else:
            tr = wire.RecTransport(sink=sink)
        self.transports.append(tr)
        if proto is not None:
            proto.makeConnection(tr)
        return proto, tr


CONNECT_ERRORS = {
    "refused": lambda tag: error.ConnectionRefusedError("refused " + tag),
    "timeout": lambda tag: error.TimeoutError("timeout " + tag),
    "tcptimedout": lambda tag: error.TCPTimedOutError("tcp timed out " + tag),
    "noroute": lambda tag: error.NoRouteError("no route " + tag),
    "bind": lambda tag: error.ConnectBindError(98, "in use " + tag),
    "unknownhost": lambda tag: error.UnknownHostError("unknown host " + tag),
    "user": lambda tag: error.UserError("user " + tag),
    "connecterror": lambda tag: error.ConnectError("generic " + tag),
}
OTHER_FAILURES = {
    "cancelled": lambda tag: error.ConnectingCancelledError(
        address.IPv4Address("TCP", "127.0.0.1", 1)),
    "dnslookup": lambda tag: error.DNSLookupError("dns " + tag),
}


def selftest():
    """the reference SocksPort-line reader against the forms of tor(1)"""
    good = {
        "9050": ("tcp", "127.0.0.1", 9050),
        "127.0.0.1:9050 IsolateDestAddr": ("tcp", "127.0.0.1", 9050),
        "[::1]:9050": ("tcp6", "::1", 9050),
        "unix:/run/tor/socks WorldWritable": ("unix", "/run/tor/socks"),
        'unix:"/a b/c" GroupWritable NoIPv6Traffic SessionGroup=4': ("unix", "/a b/c"),
        "auto": ("auto",),
        "0": ("tcp", "127.0.0.1", 0),
        "localhost:9056 IsolateDestAddr": ("tcp", "localhost", 9056),
        "tor.example.net:9057": ("tcp", "tor.example.net", 9057),
        "9050\tIsolateDestAddr": ("tcp", "127.0.0.1", 9050),
        "unix:/run/tor/socks \t WorldWritable": ("unix", "/run/tor/socks"),
    }
    for line, want in good.items():
        assert valid_line(line), line
        assert parse_first(split_line(line)[0]) == want, line
    for bad in ("DEFAULT", "9050 Bogus", "['9050', '9051']", "70000", 'unix:"/a b', "1.2.3:80", "unix:"):
        assert not valid_line(bad), bad
    st = SocksStore(["9050 IsolateDestAddr"])
    assert st.apply([("SOCKSPort", "DEFAULT"), ("SOCKSPort", "1")]) is not None and st.get("SocksPort") == ["9050 IsolateDestAddr"]
    assert st.apply([("SOCKSPort", "9050"), ("socksport", "unix:/x")]) is None and st.get("SocksPort") == ["9050", "unix:/x"]
    st2 = SocksStore(None, ["9050"])
    assert st2.socks_entries() == ["9050"]
    assert st2.apply([("SocksPort", "9051")]) is None and st2.socks_entries() == ["9051"]
    return len(good) + 7 + 4
