"""TorSim: reference model of Tor's circuit and stream life-cycles (control-spec 4.1.1 / 4.1.2).

Written from the control specification and from the order in which the C Tor emits its
events; shares no code with txtorcon.  TorSim has three jobs:

1. it GENERATES legal event histories (``propose`` / ``generate``) and the initial
   ``circuit-status`` / ``stream-status`` snapshot (``populate`` + ``take_snapshot``);
2. it IS the ground truth of "what Tor still has" (``circuits`` / ``streams`` hold exactly
   the live objects, ``circuit_of(stream_id)`` the attachment relation, every object carries
   what Tor has *reported* about it so far);
3. plugged into a ``FakeTor`` (``install``) it serves ``GETINFO circuit-status / stream-status /
   ns/all / entry-guards / address-mappings/all`` and executes ``CLOSECIRCUIT``,
   ``CLOSESTREAM``, ``EXTENDCIRCUIT``, ``ATTACHSTREAM`` and ``SETCONF __LeaveStreamsUnattached``
   by feeding the model, emitting the resulting ``650 CIRC`` / ``650 STREAM`` lines through
   ``FakeTor.emit`` (so only subscribed events reach the client, like Tor).

A history is a list of *actions*: small JSON-able dicts (``{"a": "extend", "id": 5, ...}``).
``legal(action)`` says whether Tor could do that step now, ``apply(action)`` performs it and
returns the list of ``Ev`` it caused (wire text + the keywords sent + the listener
notifications a client API of the txtorcon kind owes for it, see ``Ev``).  Scripts can
therefore be generated off-line (``generate``), stored in a replay file, edited (client
operations spliced in) and re-executed; steps that a client operation made illegal are
simply skipped by the caller.

Model (what Tor can emit; everything else is not generated):

circuits   LAUNCHED -> EXTENDED* -> [GUARD_WAIT] -> BUILT -> CLOSED, or FAILED from any
           non-open state (Tor's rule: CLOSED iff the circuit was open or in GUARD_WAIT when it
           died).  A clean BUILT circuit (no stream was ever attached) can be cannibalized:
           its purpose changes and it is EXTENDED by one hop, then BUILT again; a building
           circuit can be turned into a MEASURE_TIMEOUT circuit (HS keywords disappear).
           Keywords in Tor's order: BUILD_FLAGS (omitted when empty) PURPOSE HS_STATE REND_QUERY
           TIME_CREATED REASON REMOTE_REASON.  LAUNCHED carries no path; every later status
           carries the path; hops are LongNames ``$fp~nick`` / ``$fp=nick`` / ``$fp``; some
           relays are absent from the consensus served by ``ns/all``, and some of those carry the
           nickname of a relay that is in it (nicknames are not unique).
streams    NEW | NEWRESOLVE -> [CONTROLLER_WAIT] -> (REMAP 0 .. SOURCE=CACHE)* ->
           SENTCONNECT | SENTRESOLVE on a BUILT circuit -> (REMAP circ .. SOURCE=EXIT)? ->
           SUCCEEDED (connect streams only) -> CLOSED; FAILED before success; DETACHED
           (retriable, before success) puts the stream back to "unattached", from where it is
           attached again - to the same or another circuit.  When a circuit dies under attached
           streams Tor reports the circuit first and each stream afterwards (DETACHED, FAILED or
           CLOSED naming the dead circuit); until then such a stream is "on a dead circuit"
           (``circ_dead``) and nothing else happens to it.  SOURCE_ADDR and PURPOSE are sent
           with NEW / NEWRESOLVE only, SOURCE with REMAP only, REASON / REMOTE_REASON with
           DETACHED / FAILED / CLOSED only.  The Target of every event is the stream's current
           (possibly re-mapped) address.
re-attach  when a controller re-attaches a stream that is already on a circuit (ATTACHSTREAM in
           CONNECT_WAIT / RESOLVE_WAIT), Tor takes it off that circuit WITHOUT a DETACHED event
           (handle_control_attachstream: circuit_detach_stream + state CONTROLLER_WAIT) and, if the
           address is re-mapped, reports ``REMAP 0 addr SOURCE=CACHE`` before the SENTCONNECT for
           the new circuit.  Action ``unattach_remap``: an attached, not yet succeeded stream is
           reported with circuit 0 on a REMAP line; it is then unattached for every observer and is
           attached again by a later ``attach``.  When the address is not re-mapped there is no line
           in between: ``SENTCONNECT 5`` is followed directly by ``SENTCONNECT 7`` (action ``move``,
           ``Ev.moved``; the stream is then on circuit 7 for Tor).  What a client shows as the
           stream's circuit after such a line is left open by the properties (``moved_unjudged``
           until the next DETACHED / REMAP 0); that it shows ONE circuit consistently, hears the
           later transitions and forgets the stream when it ends is not.
quoted     Tor >= 0.4.3 appends ``SOCKS_USERNAME="..." SOCKS_PASSWORD="..."`` (QuotedStrings, C
           escapes for ``"`` and ``\\``, blanks sent literally) to every event of a stream that
           authenticated over SOCKS5, and to the CIRC events of circuits isolated by such
           credentials.  ``snew`` / ``launch`` carry them as ``su`` / ``sp`` (the wire form,
           quotes included).  ``Ev.quoted_space`` marks lines where such a value contains a blank:
           what a client that splits the line on blanks makes of that VALUE is unspecified.
flow       Tor >= 0.4.7 (congestion control) also sends ``XOFF_SENT / XOFF_RECV / XON_SENT /
           XON_RECV`` STREAM lines for an established stream (control-spec 4.1.2).  They are not
           life-cycle transitions; action ``flow`` emits one for a SUCCEEDED stream, the model's
           status stays what it was and ``state_unjudged`` is set until the next life-cycle line:
           what a client shows as the status after such a line is left open by the properties,
           everything else about the stream is not.
pairs      a connect stream that fails before its SOCKS request was answered is reported twice by
           Tor: ``STREAM n FAILED ..`` (from connection_ap_handshake_socks_reply) and, when the
           connection is finally closed, ``STREAM n CLOSED ..`` with the same reason
           (connection_ap_about_to_close).  Model: the ``sfail`` action with ``pair`` moves the stream
           out of ``streams`` (it is gone for every observer) into ``zombies``; the ``zclose`` action
           emits the trailing CLOSED (``Ev.ghost``).  The id is not re-used before that.  Resolve
           streams never get FAILED (Tor sends that event for non-resolve requests only).
window     streams opened between the answer to ``GETINFO stream-status`` and the SETEVENTS that
           subscribes STREAM (``gen_window`` / SimSession(window=...)): their NEW is lost, the first
           line the controller sees for them is whatever comes next - REMAP, SENTCONNECT,
           SUCCEEDED, DETACHED, FAILED or CLOSED (``Ev.first_sight``).  Such objects exist in
           ``streams`` but are not ``reported`` until then; ``known_streams()`` is what an observer
           can possibly list.  Only new streams (and their follow-up steps on circuits the
           controller knows) are generated inside the window.
snapshot   ``circuit-status`` lists LAUNCHED / EXTENDED / GUARD_WAIT / BUILT circuits with the
           CIRC keywords; ``stream-status`` lists ``id state circ target`` with state in
           NEW, NEWRESOLVE, SENTCONNECT, SENTRESOLVE, SUCCEEDED and no keywords (what
           getinfo_helper_events() prints).  Both in the three shapes Tor uses: empty value,
           one inline entry, data block.
ids        small pools, so identifiers are re-used - only after the object is gone.

API in short
    sim = TorSim(max_circuits=6, max_streams=8)        # fresh model (relays: default_relays())
    sim.populate(rnd, k); sim.take_snapshot() -> [Ev]   # unobserved population, then freeze the snapshot
    sim.install(fake_tor)                               # GETINFO keys + CLOSECIRCUIT/CLOSESTREAM/EXTENDCIRCUIT/
                                                        # ATTACHSTREAM/SETCONF __LeaveStreamsUnattached handlers
    sim.propose(rnd) -> action | None; sim.legal(a); sim.apply(a) -> [Ev]; sim.generate(rnd, n) -> [actions]
    sim.circuits / sim.streams (live: id -> SimCircuit / SimStream), sim.dead_circuits / sim.dead_streams (uid ->),
    sim.circuit_of(sid), sim.streams_on(cid), sim.path_ids(c), object fields reported_target / reported_source /
    reported_remap / last_keywords / ever_built / first_seen / uid
    sim.close_policy = f(kind, id) -> {"order": "together" | "event-first" | "ack-first", "as": "CLOSED" | "FAILED"}
    sim.held_acks + sim.release_ack(); sim.pending + sim.fire_pending()    # harness-owned ack / event order
    sim.leave_unattached, sim.commands, sim.on_events (observers), sim.stats (what the history contained)
    sim.gen_window(rnd) / sim.apply_unobserved(acts)    # steps inside the subscription window (NEW lost)
    sim.known_streams() / sim.known_circuits()          # live objects Tor has reported; sim.zombies (FAILED, CLOSED due)
    Ev flags: first_sight, gone, ghost (CLOSED after FAILED), attach, moved, quoted_space, unspecified, snapshot
    script(rnd, pre, n) -> (population, history), script_w(...) -> (population, window, history) off-line; selftest(); SimSession(sim, boot=...) = real
    TorControlProtocol + TorState bootstrapped against FakeTor + sim (.state .proto .tor .link .step(a) .pump())

Not modelled (never generated): events of snapshot objects or circuit events inside the window,
direct circuit change of a stream without DETACHED, CIRC_MINOR, SOCKS_USERNAME/PASSWORD keywords.
"""
import hashlib

OK = (250, [("end", "OK")])

# ---------------------------------------------------------------------------
# relays


class Relay(object):
    __slots__ = ("fp", "nick", "ip", "orport", "dirport", "flags", "bw", "in_consensus")

    def __init__(self, nick, ip, flags, bw, in_consensus=True, orport=9001, dirport=0):
        self.nick = nick
        self.fp = hashlib.sha1(("relay:" + nick + ip).encode()).hexdigest().upper()
        self.ip = ip
        self.orport = orport
        self.dirport = dirport
        self.flags = flags
        self.bw = bw
        self.in_consensus = in_consensus

    @property
    def id_hex(self):
        return "$" + self.fp

    def longname(self, style):
        if style == "bare":
            return "$" + self.fp
        return "$%s%s%s" % (self.fp, style, self.nick)


def default_relays():
    """8 relays in the consensus (two share a nickname, two are guards) + 6 that are not (three of
    them carry the nickname of a consensus relay)"""
    return [
        Relay("alpha", "10.0.0.1", ["Fast", "Guard", "Running", "Stable", "Valid"], 1200),
        Relay("bravo", "10.0.0.2", ["Exit", "Fast", "Running", "Valid"], 800),
        Relay("charlie", "10.0.0.3", ["Fast", "Guard", "HSDir", "Running", "Stable", "V2Dir", "Valid"], 5000),
        Relay("delta", "10.0.0.4", ["Exit", "Running", "Valid"], 20),
        Relay("Unnamed", "10.0.0.5", ["Running", "Valid"], 3),
        Relay("Unnamed", "10.0.0.6", ["Fast", "Running", "Valid"], 300),
        Relay("echo", "10.0.0.7", ["Authority", "Running", "Stable", "V2Dir", "Valid"], 90),
        Relay("foxtrot", "10.0.0.8", ["Exit", "Fast", "Running", "Stable", "Valid"], 7000),
        Relay("ghost", "10.9.0.1", [], 0, in_consensus=False),
        Relay("bridge7", "10.9.0.2", [], 0, in_consensus=False),
        Relay("rendpoint", "10.9.0.3", [], 0, in_consensus=False),
        # nicknames are not unique in Tor: relays outside the consensus (bridges, relays that dropped out)
        # that carry the nickname of a consensus relay - a unique one, a duplicated one, one differing in case
        Relay("alpha", "10.9.0.4", [], 0, in_consensus=False),
        Relay("Unnamed", "10.9.0.5", [], 0, in_consensus=False),
        Relay("FOXTROT", "10.9.0.6", [], 0, in_consensus=False),
    ]


def _b64(hexstr):
    import base64
    return base64.b64encode(bytes.fromhex(hexstr)).decode("ascii").rstrip("=")


def consensus_lines(relays):
    out = []
    for r in relays:
        if not r.in_consensus:
            continue
        digest = hashlib.sha1(("desc:" + r.fp).encode()).hexdigest()
        out.append("r %s %s %s 2026-10-01 12:00:00 %s %d %d" % (
            r.nick, _b64(r.fp), _b64(digest), r.ip, r.orport, r.dirport))
        out.append("s " + " ".join(r.flags))
        out.append("w Bandwidth=%d" % r.bw)
        out.append("p accept 80,443" if "Exit" in r.flags else "p reject 1-65535")
    return out


# ---------------------------------------------------------------------------
# model objects

CIRC_PURPOSES = ["GENERAL", "GENERAL", "GENERAL", "HS_CLIENT_INTRO", "HS_CLIENT_REND",
                 "HS_SERVICE_INTRO", "HS_SERVICE_REND", "TESTING", "CONTROLLER",
                 "HS_VANGUARDS", "CONFLUX_UNLINKED", "PATH_BIAS_TESTING"]
HS_STATES = {"HS_CLIENT_INTRO": ["HSCI_CONNECTING", "HSCI_INTRO_SENT", "HSCI_DONE"],
             "HS_CLIENT_REND": ["HSCR_CONNECTING", "HSCR_ESTABLISHED_IDLE", "HSCR_JOINED"],
             "HS_SERVICE_INTRO": ["HSSI_CONNECTING", "HSSI_ESTABLISHED"],
             "HS_SERVICE_REND": ["HSSR_CONNECTING", "HSSR_JOINED"]}
BUILD_FLAG_SETS = [[], ["NEED_CAPACITY"], ["IS_INTERNAL", "NEED_CAPACITY"], ["ONEHOP_TUNNEL", "IS_INTERNAL", "NEED_CAPACITY"],
                   ["IS_INTERNAL", "NEED_CAPACITY", "NEED_UPTIME"], ["NEED_UPTIME"]]
CIRC_REASONS = ["FINISHED", "TIMEOUT", "DESTROYED", "REQUESTED", "CHANNEL_CLOSED", "NOPATH",
                "INTERNAL", "IP_NOW_REDUNDANT", "MEASUREMENT_EXPIRED"]
REMOTE_REASONS = ["FINISHED", "TORPROTOCOL", "HIBERNATING", "RESOURCELIMIT", "CHANNEL_CLOSED"]
STREAM_REASONS = ["DONE", "END", "TIMEOUT", "DESTROY", "MISC", "CONNRESET", "EXITPOLICY",
                  "RESOLVEFAILED", "CONNECTREFUSED", "NOROUTE", "PRIVATE_ADDR"]
STREAM_REMOTE = ["DONE", "EXITPOLICY", "CONNECTREFUSED", "MISC", "INTERNAL"]
STREAM_REASON_BY_NUMBER = {1: "MISC", 2: "RESOLVEFAILED", 3: "CONNECTREFUSED", 4: "EXITPOLICY",
                           5: "DESTROY", 6: "DONE", 7: "TIMEOUT", 8: "NOROUTE", 9: "HIBERNATING",
                           10: "INTERNAL", 11: "RESOURCELIMIT", 12: "CONNRESET",
                           13: "TORPROTOCOL", 14: "NOTDIRECTORY"}
TARGET_HOSTS = ["www.example.com", "torproject.org", "93.184.216.34", "a.b.c.example.net",
                "duskgytldkxiuqc6.onion", "2gzyxa5ihm7nsggfxnu52rck2vv4rvmdlkiu3zzui5du4xyclen53wid.onion",
                "[2001:db8::7]", "host-with-dash.example.org", "10.1.2.3",
                "www.example.org.$%s.exit" % hashlib.sha1(b"x").hexdigest().upper()]
SOURCES = ["127.0.0.1", "127.0.0.1", "192.168.7.9", "::1", "fe80::2", "(Tor_internal)"]
STREAM_PURPOSES = ["USER", "USER", "USER", "DIR_FETCH", "DIR_UPLOAD", "DNS_REQUEST", "DIRPORT_TEST"]
# wire forms of SOCKS5 user names / passwords (QuotedString)
QUOTED_VALUES = ['"alice"', '"bob"', '""', '"bob smith"', '"p w d"', '"x\\"y"', '"a\\\\b c"', '"tab\\there"',
                 '"two  blanks"']
REMAP_ADDRS = ["1.2.3.4", "87.248.112.181", "203.0.113.77", "[2001:db8::99]", "198.51.100.1"]

BUILDING = ("LAUNCHED", "EXTENDED")


class SimCircuit(object):
    """one origin circuit as Tor has it"""
    def __init__(self, cid, uid):
        self.id = cid
        self.uid = uid                 # unique per incarnation (ids are re-used)
        self.status = "LAUNCHED"
        self.path = []                 # [(relay_index, style)]
        self.want_len = 3
        self.purpose = "GENERAL"
        self.build_flags = []
        self.hs_state = None
        self.rend_query = None
        self.time_created = None
        self.socks_user = None         # wire form, quotes included
        self.socks_pass = None
        self.ever_built = False        # BUILT has been reported (event or snapshot)
        self.had_streams = False       # a stream was attached at some time (not "clean")
        self.marked = False            # a requested close is pending (no further steps)
        self.guard_waited = False
        self.first_seen = None         # how the controller first learnt of it
        self.last_keywords = {}        # keywords of the last line reported
        self.reported = False
        self.reported_hops = 0         # hops the controller has been told about


class SimStream(object):
    def __init__(self, sid, uid):
        self.id = sid
        self.uid = uid
        self.kind = "connect"          # or "resolve"
        self.status = "NEW"
        self.circ = 0                  # circuit id it is on (0 = none)
        self.circ_uid = None
        self.circ_dead = False         # that circuit died; Tor has not yet reported the stream
        self.host = None
        self.port = 0
        self.cur_host = None           # current (re-mapped) address
        self.source = None             # "addr:port"
        self.purpose = None
        self.socks_user = None
        self.socks_pass = None
        self.succeeded = False
        self.marked = False
        self.modern = False            # newer Tor: CLIENT_PROTOCOL / NYM_EPOCH / ... keywords
        # what Tor has told the controller
        self.first_seen = None
        self.reported = False
        self.reported_target = None    # (host, port) of the first line reported
        self.reported_source = None    # (addr, port) of SOURCE_ADDR
        self.reported_remap = None     # address of the last REMAP reported
        self.last_keywords = {}
        self.client_attached = False   # the controller has been told a circuit (and no DETACHED since)
        self.state_unjudged = False    # the last line was a flow-control line (XOFF/XON)
        self.moved_unjudged = False    # Tor moved it to another circuit without DETACHED; see module docstring
        self.moved_from = None         # (circuit id, uid) it was on before that
        self.moved_ids = set()         # ids of all circuits it has been moved between since

    @property
    def target(self):
        return "%s:%d" % (self.cur_host, self.port)


class Ev(object):
    """One asynchronous event (or snapshot line) and what it means.

    kind      "CIRC" | "STREAM"
    oid, uid  Tor's id and the incarnation number of the object
    status    the status word
    text      the event text after the event name
    keywords  {KEY: value} sent on the line
    expect    notifications owed to a listener registered for the object, in order:
              ("circuit_new",) ("circuit_launched",) ("circuit_extend", "$FP") ("circuit_built",)
              ("circuit_closed", kw) ("circuit_failed", kw) ("stream_new",) ("stream_succeeded",)
              ("stream_attach", circuit_id) ("stream_detach", kw) ("stream_closed", kw)
              ("stream_failed", kw)
    unspecified   True where the interfaces say nothing (NEWRESOLVE)
    first_sight   the controller had not heard of this object before
    gone      the object left Tor's tables with this event
    quoted_space  a keyword value on the line is a QuotedString containing a blank
    ghost     the trailing CLOSED of a FAILED/CLOSED pair: the stream was already gone for every
              observer when this line was sent
    """
    __slots__ = ("kind", "oid", "uid", "status", "text", "keywords", "expect", "unspecified",
                 "first_sight", "gone", "snapshot", "ghost", "attach", "quoted_space", "moved")

    def __init__(self, kind, oid, uid, status, text, keywords):
        self.kind = kind
        self.oid = oid
        self.uid = uid
        self.status = status
        self.text = text
        self.keywords = keywords
        self.expect = []
        self.unspecified = False
        self.first_sight = False
        self.gone = False
        self.snapshot = False
        self.ghost = False
        self.attach = None          # circuit id if this line is the one that reports the attachment
        self.moved = False          # SENTCONNECT on another circuit with no DETACHED / REMAP 0 before it
        self.quoted_space = any(" " in v for v in keywords.values())   # a quoted value with a blank inside

    def __repr__(self):
        return "<Ev %s %s>" % (self.kind, self.text)


class IllegalStep(Exception):
    pass


# ---------------------------------------------------------------------------

class TorSim(object):
    def __init__(self, relays=None, max_circuits=6, max_streams=8,
                 circuit_ids=(1, 2, 3, 4, 5, 6, 7, 23, 1047), stream_ids=(1, 2, 3, 4, 5, 6, 7, 8, 9, 316, 65001)):
        self.relays = relays or default_relays()
        self.max_circuits = max_circuits
        self.max_streams = max_streams
        self.circuit_ids = list(circuit_ids)
        self.stream_ids = list(stream_ids)
        self.circuits = {}             # id -> SimCircuit  (exactly the circuits Tor still has)
        self.streams = {}              # id -> SimStream
        self.zombies = {}              # id -> (SimStream, circ, kw): FAILED was sent, CLOSED still to come
        self.freed_circuit_ids = []    # most recently freed last
        self.freed_stream_ids = []
        self._uid = 0
        self.reporting = False         # False while the pre-snapshot population is built
        self.tor = None
        self.leave_unattached = False
        self.clock = 0
        self.stats = {}
        # command handling (see install)
        self.close_policy = None       # f(kind, id) -> {"order": "event-first"|"ack-first"|"together", "as": ..}
        self.held_acks = []            # replies held back: (line, code, parts)
        self.pending = []              # requested closes not yet carried out: action dicts
        self.commands = []             # (word, rest, code) every life-cycle command handled
        self.on_events = []            # observers f([Ev]) called whenever apply() produced events

    # ---- bookkeeping -----------------------------------------------------
    def _next_uid(self):
        self._uid += 1
        return self._uid

    def _count(self, name, n=1):
        self.stats[name] = self.stats.get(name, 0) + n

    def free_circuit_ids(self):
        return [i for i in self.circuit_ids if i not in self.circuits]

    def free_stream_ids(self):
        return [i for i in self.stream_ids if i not in self.streams and i not in self.zombies]

    def known_circuits(self):
        """live circuits Tor has told the controller about (all of them, in this model)"""
        return {i: c for i, c in self.circuits.items() if c.reported}

    def known_streams(self):
        """live streams Tor has told the controller about (a stream opened in the subscription
        window is unknown until its first line after the window)"""
        return {i: x for i, x in self.streams.items() if x.reported}

    def circuit_of(self, sid):
        """ground truth attachment: None | ("live", cid) | ("dead", cid)"""
        s = self.streams[sid]
        if not s.circ:
            return None
        return ("dead" if s.circ_dead else "live", s.circ)

    def streams_on(self, cid, reported_only=False):
        c = self.circuits.get(cid)
        if c is None:
            return []
        return sorted(s.id for s in self.streams.values()
                      if s.circ == cid and not s.circ_dead and s.circ_uid == c.uid
                      and (s.client_attached or not reported_only))

    def invariants(self):
        """self-check of the model (used by selftest)"""
        for cid, c in self.circuits.items():
            assert c.id == cid
            assert len({i for i, _ in c.path}) == len(c.path)
        for sid, s in self.streams.items():
            assert s.id == sid
            if s.circ and not s.circ_dead:
                assert s.circ in self.circuits and self.circuits[s.circ].uid == s.circ_uid, (sid, s.circ)
            if s.circ_dead:
                assert s.circ and (s.circ not in self.circuits or self.circuits[s.circ].uid != s.circ_uid)
        assert not (set(self.zombies) & set(self.streams))
        assert len({c.uid for c in self.circuits.values()}) == len(self.circuits)
        assert len(self.circuits) <= self.max_circuits + 2 and len(self.streams) <= self.max_streams + 2

    # ---- rendering -------------------------------------------------------
    def path_text(self, c):
        return ",".join(self.relays[i].longname(st) for i, st in c.path)

    def nick_collides(self, idx):
        """relay idx is outside the consensus but a consensus relay has the same nickname (any case)"""
        r = self.relays[idx]
        return (not r.in_consensus) and any(o.in_consensus and o.nick.lower() == r.nick.lower() for o in self.relays)

    def path_ids(self, c):
        return [self.relays[i].id_hex for i, _ in c.path]

    def circ_keywords(self, c, reason=None, remote=None):
        kw = []
        if c.build_flags:
            kw.append(("BUILD_FLAGS", ",".join(c.build_flags)))
        kw.append(("PURPOSE", c.purpose))
        if c.hs_state:
            kw.append(("HS_STATE", c.hs_state))
        if c.rend_query:
            kw.append(("REND_QUERY", c.rend_query))
        if c.time_created:
            kw.append(("TIME_CREATED", c.time_created))
        if reason:
            kw.append(("REASON", reason))
            if remote:
                kw.append(("REMOTE_REASON", remote))
        if c.socks_user is not None:
            kw.append(("SOCKS_USERNAME", c.socks_user))
        if c.socks_pass is not None:
            kw.append(("SOCKS_PASSWORD", c.socks_pass))
        return kw

    def circ_line(self, c, status, reason=None, remote=None):
        kw = self.circ_keywords(c, reason, remote)
        parts = ["%d" % c.id, status]
        if c.path and status != "LAUNCHED":
            parts.append(self.path_text(c))
        parts.extend("%s=%s" % kv for kv in kw)
        return " ".join(parts), dict(kw)

    def stream_line(self, s, status, circ, kw=()):
        kw = list(kw)
        if s.modern and self.reporting:
            if s.socks_user is not None:
                kw.append(("SOCKS_USERNAME", s.socks_user))
            if s.socks_pass is not None:
                kw.append(("SOCKS_PASSWORD", s.socks_pass))
            kw += [("CLIENT_PROTOCOL", "SOCKS5"), ("NYM_EPOCH", "1"), ("SESSION_GROUP", "-4"),
                   ("ISO_FIELDS", "SOCKS_USERNAME,SOCKS_PASSWORD,CLIENTADDR,SESSION_GROUP,NYM_EPOCH")]
        parts = ["%d" % s.id, status, "%d" % circ, s.target] + ["%s=%s" % kv for kv in kw]
        return " ".join(parts), dict(kw)

    # snapshot ------------------------------------------------------------
    def snapshot_stream_state(self, s):
        if s.succeeded:
            return "SUCCEEDED"
        if s.circ:
            return "SENTCONNECT" if s.kind == "connect" else "SENTRESOLVE"
        return "NEW" if s.kind == "connect" else "NEWRESOLVE"

    def take_snapshot(self):
        """Freeze what GETINFO circuit-status / stream-status will answer (Tor answers both
        from the same instant in this model) and start reporting events.  Returns the
        snapshot as [Ev] (circuits first, then streams) with the notifications a listener
        registered *before* the bootstrap is owed."""
        assert not any(s.circ_dead for s in self.streams.values()), "flush dead-circuit streams first"
        assert not self.zombies, "flush FAILED streams awaiting their CLOSED first"
        evs = []
        self._snap_circ = []
        self._snap_stream = []
        for cid in sorted(self.circuits):
            c = self.circuits[cid]
            text, kw = self.circ_line(c, c.status)
            self._snap_circ.append(text)
            ev = Ev("CIRC", cid, c.uid, c.status, text, kw)
            ev.snapshot = ev.first_sight = True
            ev.expect.append(("circuit_new",))
            if c.status == "LAUNCHED":
                ev.expect.append(("circuit_launched",))
            for fp in self.path_ids(c):
                ev.expect.append(("circuit_extend", fp))
            if c.status == "BUILT":
                ev.expect.append(("circuit_built",))
            c.reported = True
            c.reported_hops = len(c.path)
            # "was BUILT" as far as the controller can know: a circuit that was built and then
            # cannibalized before the snapshot is reported as EXTENDED / GUARD_WAIT only
            c.ever_built = c.status == "BUILT"
            c.first_seen = "snapshot-" + c.status
            c.last_keywords = kw
            evs.append(ev)
        for sid in sorted(self.streams):
            s = self.streams[sid]
            st = self.snapshot_stream_state(s)
            s.status = st                    # that is the status Tor reported last
            text = "%d %s %d %s" % (s.id, st, s.circ, s.target)
            self._snap_stream.append(text)
            ev = Ev("STREAM", sid, s.uid, st, text, {})
            ev.snapshot = ev.first_sight = True
            if st == "NEW":
                ev.expect.append(("stream_new",))
            elif st == "NEWRESOLVE":
                ev.unspecified = True
            elif st == "SUCCEEDED":
                ev.expect.append(("stream_succeeded",))
            if s.circ:
                ev.expect.append(("stream_attach", s.circ))
            s.reported = True
            s.client_attached = bool(s.circ)
            s.reported_target = (s.cur_host, s.port)
            s.reported_source = None
            s.reported_remap = None
            s.first_seen = "snapshot-" + st
            s.last_keywords = {}
            evs.append(ev)
        self.reporting = True
        self.snapshot_events = evs
        return evs

    @staticmethod
    def info_value(lines):
        """the three shapes of a GETINFO value: '' | 'single entry' | [data block lines]"""
        if not lines:
            return ""
        if len(lines) == 1:
            return lines[0]
        return list(lines)

    # ---- FakeTor plumbing --------------------------------------------------
    def install(self, tor, guards=(0, 2, 9), addrmap=("mapped.example.invalid 192.0.2.200 NEVER",)):
        """serve the snapshot keys and the life-cycle commands on a FakeTor"""
        self.tor = tor
        tor.sim = self
        if not hasattr(self, "_snap_circ"):
            self._snap_circ, self._snap_stream = [], []
        tor.info["circuit-status"] = lambda k: self.info_value(self._snap_circ)
        tor.info["stream-status"] = lambda k: self.info_value(self._snap_stream)
        tor.info["ns/all"] = lambda k: consensus_lines(self.relays)
        glines = []
        for n, gi in enumerate(guards):
            r = self.relays[gi]
            glines.append("%s %s" % (r.longname("~" if n % 2 == 0 else "="),
                                     "up" if n != 1 else "down 2026-09-30 10:00:00"))
        tor.info["entry-guards"] = lambda k: (list(glines) if glines else "")
        tor.info["address-mappings/all"] = lambda k: self.info_value(list(addrmap))
        tor.conf.options.setdefault("__LeaveStreamsUnattached", "Boolean")
        tor.conf.validators = getattr(tor.conf, "validators", []) + [self._conf_validator]
        tor.handlers["CLOSECIRCUIT"] = self.cmd_closecircuit
        tor.handlers["CLOSESTREAM"] = self.cmd_closestream
        tor.handlers["EXTENDCIRCUIT"] = self.cmd_extendcircuit
        tor.handlers["ATTACHSTREAM"] = self.cmd_attachstream
        return self

    def _conf_validator(self, staged):
        if "__LeaveStreamsUnattached" in staged:
            v = staged["__LeaveStreamsUnattached"]
            if v and v[0] not in ("0", "1"):
                return (513, "Unacceptable option value: Boolean '__LeaveStreamsUnattached %s' expects 0 or 1." % v[0])
            was = self.leave_unattached
            self.leave_unattached = bool(v) and v[0] == "1"
            if self.leave_unattached and not was:
                # the option only affects streams that reach the attachment point from now on; the ones
                # already waiting for a circuit are still attached by Tor itself
                for x in self.streams.values():
                    if not x.circ:
                        x.tor_may_attach = True
        return None

    def emit(self, evs):
        if self.tor is not None:
            for ev in evs:
                self.tor.emit(ev.kind, ev.text)
        for f in self.on_events:
            f(evs)

    def _reply(self, line, code, parts):
        """queue a reply FakeTor did not produce itself (held-back acknowledgements)"""
        self.tor.replies.append((line, code, parts))
        from ..refs import reply as R
        self.tor.outbox += R.encode(code, parts)

    def release_ack(self):
        """hand the oldest held-back acknowledgement to the client; False if none is held"""
        if not self.held_acks:
            return False
        line, code, parts = self.held_acks.pop(0)
        self._reply(line, code, parts)
        return True

    def fire_pending(self, index=0):
        """carry out a requested close whose acknowledgement was sent first"""
        if not self.pending:
            return []
        act = self.pending.pop(index)
        if not self.legal(act):
            return []
        return self.apply(act)

    def _policy(self, kind, oid):
        pol = self.close_policy(kind, oid) if self.close_policy else None
        return pol or {"order": "together"}

    def _requested_close(self, kind, oid, line, act, pol=None):
        """common part of CLOSECIRCUIT / CLOSESTREAM on a live object"""
        if pol is None:
            pol = self._policy(kind, oid)
        order = pol.get("order", "together")
        obj = (self.circuits if kind == "circuit" else self.streams)[oid]
        if order == "ack-first":
            obj.marked = True
            self.pending.append(act)
            if pol.get("ack_hold"):          # acknowledged late, reported gone even later
                self.held_acks.append((line, 250, OK[1]))
                return None
            return OK
        evs = self.apply(act)        # event is queued before the acknowledgement
        del evs
        if order == "event-first":
            self.held_acks.append((line, 250, OK[1]))
            return None
        return OK

    def cmd_closecircuit(self, rest):
        args = rest.split()
        self.commands.append(("CLOSECIRCUIT", rest))
        try:
            cid = int(args[0])
        except (IndexError, ValueError):
            return (512, [("end", "Missing argument to CLOSECIRCUIT")])
        safe = any(a.lower() == "ifunused" for a in args[1:])     # other flags are ignored, like Tor
        c = self.circuits.get(cid)
        if c is None:
            return (552, [("end", 'Unknown circuit "%d"' % cid)])
        if c.marked:
            return OK
        if safe and self.streams_on(cid):
            self._count("closecircuit_ifunused_kept")
            return OK
        return self._requested_close("circuit", cid, "CLOSECIRCUIT " + rest,
                                     {"a": "cclose", "id": cid, "reason": "REQUESTED", "remote": None})

    def cmd_closestream(self, rest):
        args = rest.split()
        self.commands.append(("CLOSESTREAM", rest))
        try:
            sid = int(args[0])
            reason = int(args[1])
        except (IndexError, ValueError):
            return (512, [("end", "Missing argument to CLOSESTREAM")])
        s = self.streams.get(sid)
        if s is None:
            return (552, [("end", 'Unknown stream "%d"' % sid)])
        if not 0 <= reason <= 255:          # Tor parses the reason as one byte
            self._count("closestream_refused_reason")
            return (552, [("end", "Unrecognized reason '%s'" % args[1])])
        if s.marked:
            return OK
        pol = self._policy("stream", sid)
        how = pol.get("as", "CLOSED")
        if s.succeeded:
            how = "CLOSED"
        act = {"a": "sclose" if how == "CLOSED" else "sfail", "id": sid,
               "reason": STREAM_REASON_BY_NUMBER.get(reason, "MISC"), "remote": None}
        return self._requested_close("stream", sid, "CLOSESTREAM " + rest, act, pol)

    def cmd_extendcircuit(self, rest):
        args = rest.split()
        self.commands.append(("EXTENDCIRCUIT", rest))
        if not args:
            return (512, [("end", "Missing argument to EXTENDCIRCUIT")])
        try:
            cid = int(args[0])
        except ValueError:
            return (552, [("end", 'Unknown circuit "%s"' % args[0])])
        hops, purpose = [], "GENERAL"
        for a in args[1:]:
            if a.lower().startswith("purpose="):
                purpose = a.split("=", 1)[1].upper()
                if purpose not in ("GENERAL", "CONTROLLER"):
                    return (552, [("end", 'Unknown purpose "%s"' % a.split("=", 1)[1])])
            else:
                for h in a.split(","):
                    fp = h.lstrip("$").split("~")[0].split("=")[0].upper()
                    idx = [i for i, r in enumerate(self.relays) if r.fp == fp or r.nick == h]
                    if not idx:
                        return (552, [("end", "No such router \"%s\"" % h)])
                    hops.append(idx[0])
        if cid != 0:
            c = self.circuits.get(cid)
            if c is None:
                return (552, [("end", 'Unknown circuit "%d"' % cid)])
            c.plan = list(getattr(c, "plan", [])) + hops
            c.want_len = max(c.want_len, len(c.path) + len(hops))
            if c.status == "BUILT":
                c.status = "EXTENDED"
            return (250, [("end", "EXTENDED %d" % cid)])
        free = self.free_circuit_ids()
        if not free or len(self.circuits) >= self.max_circuits + 2:
            return (551, [("end", "Couldn't start circuit")])
        new_id = free[0]
        act = {"a": "launch", "id": new_id, "purpose": purpose, "flags": ["NEED_CAPACITY"],
               "tc": self._time(), "len": len(hops) or 3, "hs": None, "rq": None}
        self.apply(act)
        if hops:
            self.circuits[new_id].plan = hops
        self.circuits[new_id].by_controller = True
        return (250, [("end", "EXTENDED %d" % new_id)])

    def cmd_attachstream(self, rest):
        args = rest.split()
        self.commands.append(("ATTACHSTREAM", rest))
        try:
            sid, cid = int(args[0]), int(args[1])
        except (IndexError, ValueError):
            return (512, [("end", "Missing argument to ATTACHSTREAM")])
        s = self.streams.get(sid)
        if s is None:
            return (552, [("end", 'Unknown stream "%d"' % sid)])
        if s.circ or s.marked or not self.leave_unattached:
            return (555, [("end", "Connection is not managed by controller.")])
        if cid == 0:
            s.tor_may_attach = True        # Tor chooses: a later "attach" step of the history
            return OK
        c = self.circuits.get(cid)
        if c is None:
            return (552, [("end", 'Unknown circuit "%d"' % cid)])
        if c.status != "BUILT" or c.marked:
            return (551, [("end", "Can't attach stream to non-open origin circuit")])
        self.apply({"a": "attach", "id": sid, "circ": cid}, by_controller=True)
        return OK

    # ---- legality ------------------------------------------------------------
    def legal(self, act):
        try:
            self._check(act)
            return True
        except (IllegalStep, KeyError):
            return False

    def _need(self, cond, why=""):
        if not cond:
            raise IllegalStep(why)

    def _check(self, act, by_controller=False):
        a = act["a"]
        if a == "launch":
            self._need(act["id"] not in self.circuits and len(self.circuits) < self.max_circuits + 2)
            return
        if a in ("extend", "guard_wait", "built", "cclose"):
            c = self.circuits[act["id"]]
            if a == "cclose":
                return
            self._need(not c.marked, "marked")
            if a == "extend":
                idx = act["hop"][0]
                self._need(all(i != idx for i, _ in c.path), "hop already in path")
                if act.get("purpose") and c.status == "BUILT":
                    self._need(not c.had_streams and not self.streams_on(c.id), "not clean")
                else:
                    self._need(c.status in BUILDING and len(c.path) < c.want_len, "not building")
            elif a == "guard_wait":
                self._need(c.status == "EXTENDED" and len(c.path) >= c.want_len and not c.guard_waited)
            elif a == "built":
                self._need(c.status in ("EXTENDED", "GUARD_WAIT") and len(c.path) >= c.want_len and c.path)
            return
        if a == "snew":
            self._need(act["id"] not in self.streams and act["id"] not in self.zombies
                       and len(self.streams) < self.max_streams + 2)
            return
        if a == "zclose":
            self._need(act["id"] in self.zombies)
            return
        s = self.streams[act["id"]]
        if a in ("sclose",):
            return
        if a == "sfail":
            self._need(not s.succeeded)
            return
        if a == "detach":
            self._need(s.circ and not s.succeeded)
            return
        # everything below needs a stream Tor is not about to drop
        self._need(not s.marked and not s.circ_dead, "marked or on dead circuit")
        if a == "cwait":
            self._need(not s.circ and s.status in ("NEW", "NEWRESOLVE", "DETACHED", "REMAP"))
        elif a == "flow":
            self._need(s.succeeded and s.circ and act["status"] in ("XOFF_SENT", "XOFF_RECV", "XON_SENT", "XON_RECV"))
        elif a == "move":
            c = self.circuits[act["circ"]]
            self._need(s.circ and not s.succeeded and s.status in ("SENTCONNECT", "SENTRESOLVE"))
            self._need(c.status == "BUILT" and not c.marked and c.uid != s.circ_uid, "no other open circuit")
        elif a == "unattach_remap":
            self._need(s.circ and not s.succeeded and s.status in ("SENTCONNECT", "SENTRESOLVE", "REMAP"))
        elif a == "remap":
            self._need(not s.succeeded)
            if s.circ:
                self._need(s.status in ("SENTCONNECT", "SENTRESOLVE"))
        elif a == "attach":
            c = self.circuits[act["circ"]]
            self._need(not s.circ and not s.succeeded)
            self._need(c.status == "BUILT" and not c.marked, "circuit not open")
            if self.leave_unattached and not by_controller:
                self._need(getattr(s, "tor_may_attach", False), "waiting for the controller")
        elif a == "succeed":
            self._need(s.kind == "connect" and s.circ and not s.succeeded
                       and s.status in ("SENTCONNECT", "REMAP"))
        else:
            raise IllegalStep("unknown action %r" % a)

    # ---- applying a step -------------------------------------------------------
    def apply(self, act, by_controller=False, emit=True):
        """perform one legal step; returns the [Ev] it caused (already emitted when installed
        and reporting)"""
        self._check(act, by_controller)
        self.clock += 1
        evs = getattr(self, "_do_" + act["a"])(act)
        if not self.reporting:
            return []
        if emit:
            self.emit(evs)
        return evs

    def _circ_event(self, c, status, reason=None, remote=None):
        text, kw = self.circ_line(c, status, reason, remote)
        ev = Ev("CIRC", c.id, c.uid, status, text, kw)
        if self.reporting:
            if not c.reported:
                ev.first_sight = True
                ev.expect.append(("circuit_new",))
                c.first_seen = "event-" + status
                c.reported = True
            c.last_keywords = kw
        return ev

    def _do_launch(self, act):
        c = SimCircuit(act["id"], self._next_uid())
        if act["id"] in self.freed_circuit_ids:
            self._count("circuit_id_reused")
            self.freed_circuit_ids.remove(act["id"])
        c.purpose = act["purpose"]
        c.build_flags = list(act["flags"])
        c.time_created = act["tc"]
        c.want_len = act["len"]
        c.hs_state = act.get("hs")
        c.rend_query = act.get("rq")
        c.socks_user = act.get("su")
        c.socks_pass = act.get("sp")
        if c.socks_user is not None:
            self._count("objects_with_quoted_keywords")
        self.circuits[c.id] = c
        ev = self._circ_event(c, "LAUNCHED")
        ev.expect.append(("circuit_launched",))
        return [ev]

    def _do_extend(self, act):
        c = self.circuits[act["id"]]
        if act.get("purpose"):
            if c.status == "BUILT":
                self._count("cannibalized")
                c.want_len = len(c.path) + 1
            else:
                self._count("purpose_changed_while_building")
            c.purpose = act["purpose"]
            c.hs_state = act.get("hs")
            c.rend_query = act.get("rq")
            if act.get("flags") is not None and c.build_flags:
                c.build_flags = list(act["flags"]) or c.build_flags
        c.path.append((act["hop"][0], act["hop"][1]))
        hop = self.relays[act["hop"][0]]
        if not hop.in_consensus:
            self._count("hop_not_in_consensus")
            if act["hop"][1] != "bare" and self.nick_collides(act["hop"][0]):
                self._count("hop_outside_consensus_named_like_consensus_relay")
        c.status = "EXTENDED"
        ev = self._circ_event(c, "EXTENDED")
        if self.reporting:
            for fp in self.path_ids(c)[c.reported_hops:]:
                ev.expect.append(("circuit_extend", fp))
            c.reported_hops = len(c.path)
        return [ev]

    def _do_guard_wait(self, act):
        c = self.circuits[act["id"]]
        c.status = "GUARD_WAIT"
        c.guard_waited = True
        return [self._circ_event(c, "GUARD_WAIT")]

    def _do_built(self, act):
        c = self.circuits[act["id"]]
        c.status = "BUILT"
        c.ever_built = True
        ev = self._circ_event(c, "BUILT")
        ev.expect.append(("circuit_built",))
        return [ev]

    def _do_cclose(self, act):
        c = self.circuits[act["id"]]
        status = "CLOSED" if c.status in ("BUILT", "GUARD_WAIT") else "FAILED"
        ev = self._circ_event(c, status, act.get("reason") or "FINISHED", act.get("remote"))
        ev.expect.append(("circuit_closed" if status == "CLOSED" else "circuit_failed", dict(ev.keywords)))
        ev.gone = True
        orphans = 0
        for s in self.streams.values():
            if s.circ == c.id and s.circ_uid == c.uid and not s.circ_dead:
                s.circ_dead = True
                orphans += 1
        if orphans:
            self._count("circuit_died_under_streams")
        c.final_status = status
        del self.circuits[c.id]
        self.freed_circuit_ids.append(c.id)
        self.pending = [p for p in self.pending if not (p["a"] == "cclose" and p["id"] == c.id)]
        self.dead_circuits = getattr(self, "dead_circuits", {})
        self.dead_circuits[c.uid] = c
        return [ev]

    # streams -----------------------------------------------------------------
    def _stream_event(self, s, status, circ, kw=()):
        if self.reporting:
            s.state_unjudged = False
        text, kwd = self.stream_line(s, status, circ, kw)
        ev = Ev("STREAM", s.id, s.uid, status, text, kwd)
        if self.reporting:
            if not s.reported:
                ev.first_sight = True
                s.reported = True
                s.first_seen = "event-" + ("flow-control-line" if status.startswith(("XOFF", "XON")) else status)
                s.reported_target = (s.cur_host, s.port)
                if status not in ("NEW", "NEWRESOLVE"):
                    self._count("stream_first_seen_in_mid_life")
            s.last_keywords = kwd
            if status == "DETACHED":
                s.client_attached = False
                s.moved_unjudged = False
            elif status not in ("CLOSED", "FAILED") and not circ:
                s.client_attached = False      # Tor says: on no circuit
                s.moved_unjudged = False
            elif status not in ("CLOSED", "FAILED") and circ and not s.client_attached:
                # first line that tells the controller which circuit the stream is on
                s.client_attached = True
                ev.attach = circ
        s.status = status
        return ev

    def _do_snew(self, act):
        s = SimStream(act["id"], self._next_uid())
        if act["id"] in self.freed_stream_ids:
            self._count("stream_id_reused")
            self.freed_stream_ids.remove(act["id"])
        s.kind = act["kind"]
        host, _, port = act["target"].rpartition(":")
        s.host = s.cur_host = host
        s.port = int(port)
        s.source = act["src"]
        s.purpose = act["purpose"]
        s.modern = bool(act.get("modern"))
        if s.modern:
            s.socks_user = act.get("su")
            s.socks_pass = act.get("sp")
            if s.socks_user is not None:
                self._count("objects_with_quoted_keywords")
        self.streams[s.id] = s
        status = "NEW" if s.kind == "connect" else "NEWRESOLVE"
        kw = []
        if s.source:
            kw.append(("SOURCE_ADDR", s.source))
        if s.purpose:
            kw.append(("PURPOSE", s.purpose))
        ev = self._stream_event(s, status, 0, kw)
        if self.reporting and s.source:
            a, _, p = s.source.rpartition(":")
            s.reported_source = (a, int(p))
        if status == "NEW":
            ev.expect.append(("stream_new",))
        else:
            ev.unspecified = True
        return [ev]

    def _do_cwait(self, act):
        s = self.streams[act["id"]]
        return [self._stream_event(s, "CONTROLLER_WAIT", 0)]

    def _do_remap(self, act):
        s = self.streams[act["id"]]
        s.cur_host = act["addr"]
        ev = self._stream_event(s, "REMAP", s.circ, [("SOURCE", "EXIT" if s.circ else "CACHE")])
        if self.reporting:
            s.reported_remap = act["addr"]
        if ev.attach:
            ev.expect.append(("stream_attach", ev.attach))
        return [ev]

    def _do_flow(self, act):
        s = self.streams[act["id"]]
        before = s.status
        ev = self._stream_event(s, act["status"], s.circ)
        if ev.attach:                      # first line that tells the controller the stream's circuit
            ev.expect.append(("stream_attach", ev.attach))
        s.status = before                  # not a life-cycle status
        if self.reporting:
            s.state_unjudged = True
        self._count("flow_control_lines")
        return [ev]

    def _do_move(self, act):
        """another controller re-attaches the stream and the address is not re-mapped: the next line is
        the SENTCONNECT / SENTRESOLVE on the new circuit"""
        s = self.streams[act["id"]]
        c = self.circuits[act["circ"]]
        s.moved_from = (s.circ, s.circ_uid)
        s.moved_ids = (s.moved_ids if s.moved_unjudged else {s.circ}) | {c.id}    # every circuit since the last judged attachment
        s.circ, s.circ_uid = c.id, c.uid
        c.had_streams = True
        self._count("moved_without_detached")
        ev = self._stream_event(s, "SENTCONNECT" if s.kind == "connect" else "SENTRESOLVE", c.id)
        ev.moved = True
        ev.unspecified = True          # whether a client announces the new circuit is left open
        if self.reporting:
            s.moved_unjudged = True
        return [ev]

    def _do_unattach_remap(self, act):
        """another controller re-attaches the stream: off its circuit, no DETACHED, REMAP 0"""
        s = self.streams[act["id"]]
        s.was_detached = True
        s.detached_from_uid = s.circ_uid
        s.circ = 0
        s.circ_uid = None
        s.tor_may_attach = True
        s.cur_host = act["addr"]
        self._count("unattached_by_remap_0")
        ev = self._stream_event(s, "REMAP", 0, [("SOURCE", "CACHE")])
        if self.reporting:
            s.reported_remap = act["addr"]
        return [ev]

    def _do_attach(self, act):
        s = self.streams[act["id"]]
        c = self.circuits[act["circ"]]
        if s.status == "DETACHED" or getattr(s, "was_detached", False):
            self._count("reattached_after_detach")
            if getattr(s, "detached_from_uid", None) not in (None, c.uid):
                self._count("reattached_to_other_circuit")
        s.circ = c.id
        s.circ_uid = c.uid
        s.circ_dead = False
        c.had_streams = True
        ev = self._stream_event(s, "SENTCONNECT" if s.kind == "connect" else "SENTRESOLVE", c.id)
        if ev.attach:
            ev.expect.append(("stream_attach", ev.attach))
        return [ev]

    def _do_succeed(self, act):
        s = self.streams[act["id"]]
        s.succeeded = True
        ev = self._stream_event(s, "SUCCEEDED", s.circ)
        ev.expect.append(("stream_succeeded",))
        if ev.attach:
            ev.expect.append(("stream_attach", ev.attach))
        return [ev]

    def _reason_kw(self, act):
        kw = [("REASON", act.get("reason") or "MISC")]
        if act.get("remote"):
            kw.append(("REMOTE_REASON", act["remote"]))
        return kw

    def _do_detach(self, act):
        s = self.streams[act["id"]]
        if s.circ_dead:
            self._count("detached_after_circuit_died")
        ev = self._stream_event(s, "DETACHED", s.circ, self._reason_kw(act))
        ev.expect.append(("stream_detach", dict(ev.keywords)))
        s.was_detached = True
        s.detached_from_uid = s.circ_uid
        s.circ = 0
        s.circ_uid = None
        s.circ_dead = False
        s.tor_may_attach = False
        return [ev]

    def _end_stream(self, s, status, act):
        if s.circ_dead:
            self._count("ended_after_circuit_died")
        ev = self._stream_event(s, status, s.circ, self._reason_kw(act))
        ev.expect.append(("stream_closed" if status == "CLOSED" else "stream_failed", dict(ev.keywords)))
        ev.gone = True
        s.final_status = status
        del self.streams[s.id]
        if status == "FAILED" and act.get("pair"):
            self.zombies[s.id] = (s, s.circ, self._reason_kw(act))
            self._count("failed_closed_pairs")
        else:
            self.freed_stream_ids.append(s.id)
        self.pending = [p for p in self.pending if not (p["a"] in ("sclose", "sfail") and p["id"] == s.id)]
        self.dead_streams = getattr(self, "dead_streams", {})
        self.dead_streams[s.uid] = s
        return [ev]

    def _do_sclose(self, act):
        return self._end_stream(self.streams[act["id"]], "CLOSED", act)

    def _do_sfail(self, act):
        return self._end_stream(self.streams[act["id"]], "FAILED", act)

    def _do_zclose(self, act):
        """the CLOSED that follows a FAILED (connection_ap_about_to_close)"""
        s, circ, kw = self.zombies.pop(act["id"])
        self.freed_stream_ids.append(s.id)
        text, kwd = self.stream_line(s, "CLOSED", circ, kw)
        ev = Ev("STREAM", s.id, s.uid, "CLOSED", text, kwd)
        ev.expect.append(("stream_closed", dict(kwd)))
        ev.gone = ev.ghost = True
        if self.reporting and not s.reported:
            ev.first_sight = True          # its FAILED fell into the subscription window
            s.reported = True
            self._count("stream_first_seen_in_mid_life")
        s.status = "CLOSED"
        return [ev]

    # ---- history generation -----------------------------------------------------
    def _time(self):
        n = self._uid * 37 + self.clock
        return "2026-10-%02dT%02d:%02d:%02d.%06d" % (1 + n % 3, n % 24, (n * 7) % 60, (n * 13) % 60, (n * 7919) % 1000000)

    def _pick_id(self, rnd, free, freed):
        """prefer an id that was in use before (re-use after close)"""
        recycled = [i for i in freed if i in free]
        if recycled and rnd.random() < 0.6:
            return recycled[-1] if rnd.random() < 0.7 else rnd.choice(recycled)
        return rnd.choice(free)

    def _hop(self, rnd, c):
        used = {i for i, _ in c.path}
        plan = getattr(c, "plan", None)
        if plan:
            nxt = [i for i in plan if i not in used]
            if nxt:
                return [nxt[0], "~"]
        cands = [i for i in range(len(self.relays)) if i not in used]
        # relays outside the consensus are over-represented on purpose
        w = [3 if not self.relays[i].in_consensus else 2 for i in cands]
        idx = rnd.choices(cands, w)[0]
        if self.relays[idx].in_consensus:
            style = rnd.choice(["~", "~", "~", "="])
        else:
            style = rnd.choice(["~", "=", "bare", "bare"])
        return [idx, style]

    def candidates(self, rnd):
        """[(weight, action)] - every kind of step Tor could take now (one concrete choice each)"""
        out = []
        # requested closes that were acknowledged first come soon
        for p in self.pending:
            if self.legal(p):
                out.append((6.0, dict(p, pending=True)))
        # streams on a dead circuit: Tor reports them next (usually at once)
        for s in self.streams.values():
            if s.circ_dead and not s.marked:     # (a marked one is ended by its pending close)
                r = rnd.random()
                if r < 0.4 and not s.succeeded:
                    act = {"a": "detach", "id": s.id, "reason": rnd.choice(["DESTROY", "TIMEOUT", "END"]), "remote": None}
                elif r < 0.7 or s.succeeded:
                    act = {"a": "sclose", "id": s.id, "reason": "DESTROY", "remote": None}
                else:
                    act = {"a": "sfail", "id": s.id, "reason": "DESTROY", "remote": None, "pair": rnd.random() < 0.6}
                if act["a"] == "sfail" and s.kind == "resolve":
                    act = {"a": "sclose", "id": s.id, "reason": "DESTROY", "remote": None}
                out.append((9.0, act))
        for zid in self.zombies:
            out.append((9.0, {"a": "zclose", "id": zid}))
        free_c = self.free_circuit_ids()
        if free_c and len(self.circuits) < self.max_circuits:
            purpose = rnd.choice(CIRC_PURPOSES)
            flags = rnd.choice(BUILD_FLAG_SETS)
            hs = rnd.choice(HS_STATES[purpose]) if purpose in HS_STATES else None
            su = sp = None
            if rnd.random() < 0.15:
                su, sp = rnd.choice(QUOTED_VALUES), rnd.choice(QUOTED_VALUES)
            out.append((2.5 if len(self.circuits) < 3 else 1.0, {
                "a": "launch", "id": self._pick_id(rnd, free_c, self.freed_circuit_ids),
                "purpose": purpose, "flags": flags, "tc": self._time() if rnd.random() < 0.9 else None,
                "len": 1 if "ONEHOP_TUNNEL" in flags else rnd.choice([1, 2, 3, 3, 3, 4]),
                "hs": hs, "rq": (rnd.choice(TARGET_HOSTS[4:6])[:-6] if hs and rnd.random() < 0.7 else None),
                "su": su, "sp": sp}))
        for c in self.circuits.values():
            if c.marked:
                continue
            if c.status in BUILDING and len(c.path) < c.want_len:
                act = {"a": "extend", "id": c.id, "hop": self._hop(rnd, c)}
                if c.path and rnd.random() < 0.08:
                    act.update(purpose="MEASURE_TIMEOUT", hs=None, rq=None)
                out.append((5.0, act))
            if c.status == "EXTENDED" and len(c.path) >= c.want_len:
                if not c.guard_waited and rnd.random() < 0.25:
                    out.append((4.0, {"a": "guard_wait", "id": c.id}))
                else:
                    out.append((5.0, {"a": "built", "id": c.id}))
            if c.status == "GUARD_WAIT":
                out.append((3.0, {"a": "built", "id": c.id}))
            if c.status == "BUILT" and not c.had_streams and len(c.path) < 5 and len(c.path) < len(self.relays):
                purpose = rnd.choice(["HS_CLIENT_REND", "HS_CLIENT_INTRO", "HS_SERVICE_REND", "GENERAL", "HS_VANGUARDS"])
                hs = rnd.choice(HS_STATES[purpose]) if purpose in HS_STATES else None
                out.append((0.5, {"a": "extend", "id": c.id, "hop": self._hop(rnd, c), "purpose": purpose,
                                  "hs": hs, "rq": ("duskgytldkxiuqc6" if hs and rnd.random() < 0.5 else None),
                                  "flags": rnd.choice(BUILD_FLAG_SETS[1:])}))
            reason = rnd.choice(CIRC_REASONS)
            remote = rnd.choice(REMOTE_REASONS) if reason == "DESTROYED" and rnd.random() < 0.8 else None
            n_on = len(self.streams_on(c.id))
            w = 0.7 + (0.6 if n_on else 0.0) + (0.5 if len(self.circuits) >= self.max_circuits else 0.0)
            out.append((w, {"a": "cclose", "id": c.id, "reason": reason, "remote": remote}))
        free_s = self.free_stream_ids()
        if free_s and len(self.streams) < self.max_streams:
            kind = "connect" if rnd.random() < 0.8 else "resolve"
            host = rnd.choice(TARGET_HOSTS)
            port = 0 if kind == "resolve" else rnd.choice([80, 443, 9001, 6667, 65535, 1])
            src = rnd.choice(SOURCES)
            sport = 0 if src.startswith("(") else rnd.choice([1, 40000, 55877, 65535])
            creds = rnd.random() < 0.4          # (only sent for "modern" streams)
            out.append((3.0 if len(self.streams) < 4 else 1.2, {
                "a": "snew", "id": self._pick_id(rnd, free_s, self.freed_stream_ids), "kind": kind,
                "target": "%s:%d" % (host, port), "src": "%s:%d" % (src, sport),
                "purpose": "DNS_REQUEST" if kind == "resolve" and rnd.random() < 0.5 else rnd.choice(STREAM_PURPOSES),
                "modern": rnd.random() < 0.3,
                "su": rnd.choice(QUOTED_VALUES) if creds else None, "sp": rnd.choice(QUOTED_VALUES) if creds else None}))
        open_circs = [c.id for c in self.circuits.values() if c.status == "BUILT" and not c.marked]
        for s in self.streams.values():
            if s.circ_dead or s.marked:
                continue
            if not s.circ:
                if s.status != "CONTROLLER_WAIT" and rnd.random() < 0.15:
                    out.append((1.0, {"a": "cwait", "id": s.id}))
                if not s.succeeded and rnd.random() < 0.3:
                    out.append((1.5, {"a": "remap", "id": s.id, "addr": rnd.choice(REMAP_ADDRS)}))
                if open_circs and (not self.leave_unattached or getattr(s, "tor_may_attach", False)):
                    prev = getattr(s, "detached_from_uid", None)
                    others = [i for i in open_circs if self.circuits[i].uid != prev]
                    pool = others if (others and rnd.random() < 0.8) else open_circs
                    out.append((5.0, {"a": "attach", "id": s.id, "circ": rnd.choice(pool)}))
            else:
                if not s.succeeded:
                    if s.status in ("SENTCONNECT", "SENTRESOLVE") and rnd.random() < 0.35:
                        out.append((2.0, {"a": "remap", "id": s.id, "addr": rnd.choice(REMAP_ADDRS)}))
                    others = [i for i in open_circs if self.circuits[i].uid != s.circ_uid]
                    if s.status in ("SENTCONNECT", "SENTRESOLVE") and others and rnd.random() < 0.7:
                        out.append((1.6, {"a": "move", "id": s.id, "circ": rnd.choice(others)}))
                    if s.status in ("SENTCONNECT", "SENTRESOLVE", "REMAP") and rnd.random() < 0.5:
                        out.append((0.7, {"a": "unattach_remap", "id": s.id, "addr": rnd.choice(REMAP_ADDRS)}))
                    if s.kind == "connect":
                        out.append((4.0, {"a": "succeed", "id": s.id}))
                    out.append((1.3, {"a": "detach", "id": s.id, "reason": rnd.choice(["TIMEOUT", "END", "EXITPOLICY", "RESOLVEFAILED"]),
                                      "remote": rnd.choice([None, None] + STREAM_REMOTE)}))
            if s.succeeded and s.circ and rnd.random() < 0.3:
                out.append((1.0, {"a": "flow", "id": s.id, "status": rnd.choice(["XOFF_SENT", "XON_SENT", "XOFF_RECV", "XON_RECV"])}))
            reason = rnd.choice(STREAM_REASONS)
            remote = rnd.choice(STREAM_REMOTE) if reason == "END" and rnd.random() < 0.7 else None
            if s.succeeded or s.kind == "resolve" or rnd.random() < 0.5:
                w = 1.5 if s.succeeded else 0.5
                if s.kind == "resolve" and s.circ:
                    w = 3.0
                out.append((w, {"a": "sclose", "id": s.id, "reason": reason, "remote": remote}))
            else:
                out.append((0.6, {"a": "sfail", "id": s.id, "reason": reason, "remote": remote,
                                  "pair": rnd.random() < 0.6}))
        return out

    def propose(self, rnd):
        """one random legal next step of Tor, or None"""
        cands = [(w, a) for (w, a) in self.candidates(rnd) if self.legal(a)]
        if not cands:
            return None
        return rnd.choices([a for _, a in cands], [w for w, _ in cands])[0]

    def flush_dead(self, rnd):
        """make Tor report every stream that sits on a dead circuit (needed before a snapshot)"""
        acts = []
        for s in list(self.streams.values()):
            if s.circ_dead:
                act = {"a": "sclose", "id": s.id, "reason": "DESTROY", "remote": None}
                if not s.succeeded and rnd.random() < 0.5:
                    act = {"a": "detach", "id": s.id, "reason": "DESTROY", "remote": None}
                self.apply(act)
                acts.append(act)
        for zid in list(self.zombies):
            act = {"a": "zclose", "id": zid}
            self.apply(act)
            acts.append(act)
        return acts

    def gen_window(self, rnd, n=None):
        """Steps Tor takes between answering GETINFO stream-status and the SETEVENTS that
        subscribes STREAM: 1-3 new streams and some of their follow-up steps.  Call after
        take_snapshot(); the steps are applied unobserved (nothing is reported) and returned."""
        was, self.reporting = self.reporting, False
        acts, mine = [], set()
        try:
            for _ in range(n if n is not None else rnd.choice([1, 2, 3, 5, 7])):
                cands = []
                for w, a in self.candidates(rnd):
                    if a["a"] == "snew" and len(mine) < 3:
                        cands.append((w, a))
                    elif a["a"] in ("remap", "unattach_remap", "move", "attach", "succeed", "detach", "cwait", "sclose", "sfail", "zclose") \
                            and a["id"] in mine and self.legal(a):
                        cands.append((w * (0.3 if a["a"] in ("sclose", "sfail") else 1.0), a))
                if not cands:
                    break
                a = rnd.choices([a for _, a in cands], [w for w, _ in cands])[0]
                if not self.legal(a):
                    continue
                if a["a"] == "snew":
                    mine.add(a["id"])
                self.apply(a)
                acts.append(a)
        finally:
            self.reporting = was
        return acts

    def apply_unobserved(self, acts):
        """re-play steps of the subscription window (see gen_window)"""
        was, self.reporting = self.reporting, False
        try:
            for a in acts:
                if self.legal(a):
                    self.apply(a)
        finally:
            self.reporting = was

    def populate(self, rnd, steps):
        """run `steps` unobserved steps so that the snapshot finds objects in mid-life"""
        assert not self.reporting
        acts = []
        for _ in range(steps):
            a = self.propose(rnd)
            if a is None:
                break
            self.apply(a)
            acts.append(a)
        acts.extend(self.flush_dead(rnd))
        return acts

    def generate(self, rnd, n):
        """extend the history by up to n random steps, applying them; returns the actions"""
        acts = []
        for _ in range(n):
            a = self.propose(rnd)
            if a is None:
                break
            self.apply(a)
            acts.append(a)
        return acts


def script(rnd, pre_steps, steps, **kw):
    """off-line generation: ([population actions], [history actions]) for a fresh TorSim(**kw)"""
    sim = TorSim(**kw)
    pre = sim.populate(rnd, pre_steps)
    sim.take_snapshot()
    hist = sim.generate(rnd, steps)
    return pre, hist


def script_w(rnd, pre_steps, steps, window=True, **kw):
    """like script(), with steps in the subscription window: (population, window, history)"""
    sim = TorSim(**kw)
    pre = sim.populate(rnd, pre_steps)
    sim.take_snapshot()
    win = sim.gen_window(rnd) if window else []
    hist = sim.generate(rnd, steps)
    return pre, win, hist


def selftest(n=300, seed=1):
    """model invariants on random histories (attachment symmetric, ids unique, events well-formed)"""
    import random
    import re
    circ_re = re.compile(r"^\d+ (LAUNCHED|EXTENDED|BUILT|GUARD_WAIT|CLOSED|FAILED)( \$[0-9A-F]{40}([~=]\w+)?(,\$[0-9A-F]{40}([~=]\w+)?)*)?( .*)?$")
    stream_re = re.compile(r"^\d+ (NEW|NEWRESOLVE|REMAP|SENTCONNECT|SENTRESOLVE|SUCCEEDED|FAILED|CLOSED|DETACHED|CONTROLLER_WAIT|XOFF_SENT|XOFF_RECV|XON_SENT|XON_RECV) \d+ \S+:\d+( .*)?$")
    total = 0
    for k in range(n):
        rnd = random.Random("%s/%s" % (seed, k))
        sim = TorSim()
        sim.populate(rnd, rnd.choice([0, 3, 10, 30]))
        sim.invariants()
        for ev in sim.take_snapshot():
            assert (circ_re if ev.kind == "CIRC" else stream_re).match(ev.text), ev.text
        if k % 3 == 0:
            sim.gen_window(rnd)
        for _ in range(60):
            a = sim.propose(rnd)
            if a is None:
                break
            for ev in sim.apply(a):
                assert (circ_re if ev.kind == "CIRC" else stream_re).match(ev.text), ev.text
                total += 1
            sim.invariants()
    return total


# ---------------------------------------------------------------------------
# session: the REAL TorControlProtocol + TorState against FakeTor + TorSim

class SimSession(object):
    """Bootstraps a real ``TorState`` over a real ``TorControlProtocol`` against a
    ``FakeTor`` that has ``sim`` installed, under a harness-owned schedule.

    boot = "ctor"           ``TorState(proto)`` is created first (``before_bootstrap(state)``
                            may register listeners), then the connection is made and pumped;
    boot = "from_protocol"  ``TorState.from_protocol(proto)``.
    window                  actions (see TorSim.gen_window) applied when the client asks for
                            ``address-mappings/all``, i.e. after the snapshot was answered and before
                            STREAM/CIRC are subscribed: their events are lost.

    After construction: ``.state`` (None if the bootstrap did not complete), ``.proto``,
    ``.tor``, ``.link``, ``.boot_outcome`` (audit.Outcome of post_bootstrap), ``.errors``
    (LogCapture).  ``step(action)`` applies one TorSim step and delivers its events;
    ``pump()`` moves bytes until quiescent.  Call ``close()`` when done.
    """
    def __init__(self, sim, boot="ctor", chunking=(1 << 30,), before_bootstrap=None, tor=None, window=()):
        from .. import audit, wire
        from .core import FakeTor, Link
        import txtorcon
        import txtorcon.circuit
        txtorcon.circuit._get_circuit_attacher.attacher = None
        self.sim = sim
        self.tor = tor or FakeTor()
        sim.install(self.tor)
        if window:
            # Tor goes on living between the snapshot and the SETEVENTS that subscribes STREAM
            todo = [list(window)]

            def in_window(line):
                if todo and line.startswith("GETINFO address-mappings/all"):
                    sim.apply_unobserved(todo.pop())
            self.tor.on_line.append(in_window)
        self.errors = audit.LogCapture()
        self.errors.start()
        self.auditor = audit.Auditor(wire.LClock())
        self.proto = txtorcon.TorControlProtocol()
        self.state = None
        if boot == "ctor":
            st = txtorcon.TorState(self.proto)
            d = st.post_bootstrap
            if before_bootstrap is not None:
                before_bootstrap(st)
        else:
            d = txtorcon.TorState.from_protocol(self.proto)
        got = []
        d.addCallback(lambda s: (got.append(s), s)[1])
        self.boot_outcome = self.auditor.watch(d, "post_bootstrap")
        self.link = Link(self.proto, self.tor, chunking).connect()
        self.link.pump()
        if got:
            self.state = got[0]

    def pump(self):
        self.link.pump()

    def step(self, action, **kw):
        """apply one TorSim step, deliver the events it caused; returns [Ev]"""
        evs = self.sim.apply(action, **kw)
        self.link.pump()
        return evs

    def close(self):
        self.errors.stop()
        import txtorcon.circuit
        txtorcon.circuit._get_circuit_attacher.attacher = None
