"""FakeTor: a reference Tor control server (control-spec), and the Link that
connects it to a real ``TorControlProtocol`` under a harness-owned schedule.

* strictly one reply per complete command line, in order;
* replies are produced only after the command line was read (causality);
* nothing is delivered re-entrantly from inside ``transport.write``: the harness
  calls ``Link.pump()`` which moves bytes client->server->client until quiescent,
  cutting server bytes into chunks according to the chosen chunking.

Sub-models plug in through ``FakeTor.handlers`` (command word -> callable) and
``FakeTor.info`` (GETINFO key -> value | [lines] | callable).
"""
import binascii
import hashlib
import hmac
import os

from ..refs import kvline
from ..refs import reply as R
from .. import wire

OK = (250, [("end", "OK")])

DEFAULT_EVENTS = ("CIRC STREAM ORCONN BW DEBUG INFO NOTICE WARN ERR NEWDESC ADDRMAP "
                  "DESCCHANGED NS STATUS_GENERAL STATUS_CLIENT STATUS_SERVER GUARD STREAM_BW "
                  "CLIENTS_SEEN NEWCONSENSUS BUILDTIMEOUT_SET SIGNAL CONF_CHANGED CIRC_MINOR "
                  "TRANSPORT_LAUNCHED CONN_BW CIRC_BW CELL_STATS HS_DESC HS_DESC_CONTENT "
                  "NETWORK_LIVENESS")
DEFAULT_SIGNALS = ("RELOAD HUP SHUTDOWN DUMP USR1 DEBUG USR2 HALT TERM INT NEWNYM "
                   "CLEARDNSCACHE HEARTBEAT ACTIVE DORMANT")

S2C = b"Tor safe cookie authentication server-to-controller hash"
C2S = b"Tor safe cookie authentication controller-to-server hash"


def quote(s):
    """control-spec QuotedString"""
    return '"' + s.replace("\\", "\\\\").replace('"', '\\"').replace("\n", "\\n") \
        .replace("\r", "\\r").replace("\t", "\\t") + '"'


class ConfigStore(object):
    """Typed option store with SETCONF semantics.

    options: {CanonicalName: type string as listed by GETINFO config/names}
    values : {CanonicalName: [str, ...]}   ([] = unset / default)
    """
    LIST_TYPES = ("LineList", "Dependant", "Dependent", "Virtual")

    def __init__(self, options=None, values=None, defaults=None):
        self.options = dict(options or {})
        self.values = {k: list(v) for k, v in (values or {}).items()}
        self.defaults = {k: list(v) for k, v in (defaults or {}).items()}
        self.history = []           # every accepted SETCONF as [(name, value|None)]

    def canon(self, name):
        for k in self.options:
            if k.lower() == name.lower():
                return k
        return None

    def is_list(self, name):
        return self.options.get(name) in self.LIST_TYPES

    def get(self, name):
        return list(self.values.get(name, []))

    def apply(self, items, reset=False):
        """SETCONF semantics.  items: [(key, value|None)] -> None, or (code, text) if
        rejected (nothing is changed then).  Every option named is replaced: list
        options by all values given for them in order, scalar options by the last
        value; a bare key or an empty value clears the option."""
        staged = {}
        for k, v in items:
            c = self.canon(k)
            if c is None:
                return (552, "Unrecognized option: Unknown option '%s'.  Failing." % k)
            if v is None or v == "":
                staged[c] = []
            elif self.is_list(c):
                staged.setdefault(c, []).append(v)
            else:
                staged[c] = [v]
        for chk in getattr(self, "validators", []):
            err = chk(staged)
            if err:
                return err
        for c, vals in staged.items():
            self.values[c] = vals
        self.history.append(list(items))
        return None


class FakeTor(object):
    def __init__(self, version="0.4.8.12", auth_methods=("NULL",), cookie=None,
                 cookiefile=None, password=None, conf=None, events=DEFAULT_EVENTS,
                 signals=DEFAULT_SIGNALS):
        self.version = version
        self.auth_methods = list(auth_methods)
        self.cookie = cookie
        self.cookiefile = cookiefile
        self.password = password
        self.conf = conf if conf is not None else ConfigStore()
        self.authenticated = False
        self.closed = False               # server hung up
        self.inbox = b""
        self.lines = []                   # every complete command line received (str)
        self.outbox = b""                 # produced, not yet handed to the link
        self.replies = []                 # (line, code, parts)
        self.subscribed = set()
        self.setevents_log = []
        self.event_names = events.split()
        self.info = {
            "version": version,
            "signal/names": signals,
            "events/names": events,
            "process/pid": "4242",
        }
        self.handlers = {}
        self.scripted = []                # [(predicate(line)->bool, (code, parts) | 'close', once)]
        self.server_nonce = None
        self.client_nonce = None
        self.auth_log = []                # (what, detail)
        self.emit_conf_changed = False
        self.on_line = []                 # observers: f(line)
        self.emitted_events = []

    # ---- transport side ------------------------------------------------------
    def receive(self, data):
        self.inbox += data

    def process(self):
        """handle every complete command line in the inbox; True if anything happened"""
        did = False
        while b"\r\n" in self.inbox and not self.closed:
            raw, self.inbox = self.inbox.split(b"\r\n", 1)
            did = True
            try:
                line = raw.decode("ascii")
            except UnicodeDecodeError:
                line = raw.decode("latin1")
            self.lines.append(line)
            for f in self.on_line:
                f(line)
            rep = self._scripted(line)
            if rep is None:
                rep = self.dispatch(line)
            if rep == "close":
                self.closed = True
                break
            if rep is None:
                continue                   # handler answers later itself (deferred reply)
            code, parts = rep
            self.replies.append((line, code, parts))
            self.outbox += R.encode(code, parts)
            for f in getattr(self, "after_reply", []):
                f(line, code)
        return did

    def _scripted(self, line):
        for ent in list(self.scripted):
            pred, rep, once = ent
            if pred(line):
                if once:
                    self.scripted.remove(ent)
                return rep
        return None

    def script(self, prefix, rep, once=True):
        """answer the next command starting with `prefix` with `rep` ((code, parts) or 'close')"""
        self.scripted.append((lambda l, p=prefix: l.upper().startswith(p.upper()), rep, once))

    def emit(self, name, text="", form="single", more=(), force=False):
        """queue an asynchronous event (only if subscribed, like Tor, unless force)"""
        if not force and name not in self.subscribed:
            return False
        self.outbox += R.encode_event(name, form, text, more)
        self.emitted_events.append((name, form, text, tuple(more)))
        return True

    def emit_raw(self, data):
        self.outbox += data

    # ---- commands ------------------------------------------------------------
    def dispatch(self, line):
        word, _, rest = line.partition(" ")
        w = word.upper()
        if not self.authenticated and w not in ("PROTOCOLINFO", "AUTHCHALLENGE", "AUTHENTICATE", "QUIT"):
            self.auth_log.append(("command-before-auth", line))
            return (514, [("end", "Authentication required.")])
        h = self.handlers.get(w) or getattr(self, "cmd_" + w, None)
        if h is None:
            return (510, [("end", 'Unrecognized command "%s"' % word)])
        return h(rest)

    def cmd_PROTOCOLINFO(self, rest):
        auth = "AUTH METHODS=" + ",".join(self.auth_methods)
        if self.cookiefile is not None:
            auth += " COOKIEFILE=" + quote(self.cookiefile)
        return (250, [("mid", "PROTOCOLINFO 1"), ("mid", auth),
                      ("mid", 'VERSION Tor="%s"' % self.version), ("end", "OK")])

    def cmd_AUTHCHALLENGE(self, rest):
        parts = rest.split()
        if len(parts) != 2 or parts[0].upper() != "SAFECOOKIE":
            return (513, [("end", "AUTHCHALLENGE only supports SAFECOOKIE authentication")])
        try:
            self.client_nonce = binascii.unhexlify(parts[1])
        except Exception:
            return (513, [("end", "Invalid base16 client nonce")])
        if self.cookie is None or "SAFECOOKIE" not in self.auth_methods:
            return (513, [("end", "SAFECOOKIE authentication is not enabled")])
        self.server_nonce = os.urandom(32)
        sh = hmac.new(S2C, self.cookie + self.client_nonce + self.server_nonce, hashlib.sha256).digest()
        self.auth_log.append(("authchallenge", parts[1]))
        return (250, [("end", "AUTHCHALLENGE SERVERHASH=%s SERVERNONCE=%s" % (
            binascii.hexlify(sh).decode().upper(), binascii.hexlify(self.server_nonce).decode().upper()))])

    def cmd_AUTHENTICATE(self, rest):
        rest = rest.strip()
        token = None
        if rest.startswith('"'):
            try:
                token = kvline.unescape(rest[1:-1]).encode("latin1")
            except Exception:
                return (551, [("end", "Invalid quoted string.  You need to put the password in double quotes.")])
        elif rest:
            try:
                token = binascii.unhexlify(rest)
            except Exception:
                return (551, [("end", "Invalid hexadecimal encoding.  Maybe you tried a plain text password?  If so, the standard requires that you put it in double quotes.")])
        else:
            token = b""
        ok = False
        how = None
        if self.client_nonce is not None and self.server_nonce is not None and self.cookie is not None:
            want = hmac.new(C2S, self.cookie + self.client_nonce + self.server_nonce, hashlib.sha256).digest()
            if hmac.compare_digest(token, want):
                ok, how = True, "SAFECOOKIE"
            self.client_nonce = self.server_nonce = None
        if not ok and "COOKIE" in self.auth_methods and self.cookie is not None and token == self.cookie:
            ok, how = True, "COOKIE"
        if not ok and "HASHEDPASSWORD" in self.auth_methods and self.password is not None \
                and token == self.password:
            ok, how = True, "HASHEDPASSWORD"
        if not ok and "NULL" in self.auth_methods:
            ok, how = True, "NULL" if token == b"" else "NULL(with-token)"
        self.auth_log.append(("authenticate", how, token))
        if ok:
            self.authenticated = True
            self.auth_method_used = how
            return OK
        # Tor closes the connection after a failed AUTHENTICATE
        self.outbox += R.encode(515, [("end", "Authentication failed: Password did not match HashedControlPassword *or* authentication cookie.")])
        self.replies.append(("AUTHENTICATE ...", 515, []))
        return "close"

    def cmd_QUIT(self, rest):
        self.outbox += R.encode(250, [("end", "closing connection")])
        return "close"

    def cmd_USEFEATURE(self, rest):
        return OK

    def cmd_TAKEOWNERSHIP(self, rest):
        self.ownership = True
        return OK

    def cmd_SIGNAL(self, rest):
        if rest.strip() not in self.info["signal/names"].split():
            return (552, [("end", 'Unrecognized signal code "%s"' % rest.strip())])
        self.signals_received = getattr(self, "signals_received", []) + [rest.strip()]
        return OK

    def cmd_SETEVENTS(self, rest):
        names = rest.split()
        if names and names[0].upper() == "EXTENDED":
            names = names[1:]
        for n in names:
            if n not in self.event_names:
                return (552, [("end", 'Unrecognized event "%s"' % n)])
        self.subscribed = set(names)
        self.setevents_log.append(list(names))
        return OK

    def cmd_GETINFO(self, rest):
        keys = rest.split()
        parts = []
        for k in keys:
            v = self.lookup_info(k)
            if v is None:
                return (552, [("end", 'Unrecognized key "%s"' % k)])
            if isinstance(v, (list, tuple)):
                parts.append(("data", k + "=", list(v)))
            else:
                parts.append(("mid", "%s=%s" % (k, v)))
        parts.append(("end", "OK"))
        return (250, parts)

    def lookup_info(self, k):
        v = self.info.get(k)
        if v is None:
            for pref, fn in getattr(self, "info_prefix", {}).items():
                if k.startswith(pref):
                    return fn(k)
            if k == "config/names":
                return ["%s %s" % (n, t) for n, t in self.conf.options.items()]
            if k == "config/defaults":
                if getattr(self, "no_config_defaults", False):
                    return None
                return ["%s %s" % (n, v) for n, vs in self.conf.defaults.items() for v in vs]
            if k.startswith("ip-to-country/"):
                return "??"
            return None
        if callable(v):
            return v(k)
        return v

    def cmd_GETCONF(self, rest):
        keys = rest.split()
        lines = []
        for k in keys:
            c = self.conf.canon(k)
            if c is None:
                return (552, [("end", 'Unrecognized configuration key "%s"' % k)])
            vals = self.conf.get(c)
            if not vals:
                lines.append(c)
            else:
                lines.extend("%s=%s" % (c, v) for v in vals)
        if not lines:
            return OK
        return (250, [("mid", l) for l in lines[:-1]] + [("end", lines[-1])])

    def _setconf(self, rest, reset):
        try:
            items = kvline.parse(rest)
        except kvline.KvError as e:
            return (551, [("end", "Couldn't parse string: %s" % e)])
        if not items:
            return (512, [("end", "Missing arguments to SETCONF")]) if not getattr(self, "lenient_empty_setconf", True) else OK
        err = self.conf.apply(items, reset)
        if err:
            return (err[0], [("end", err[1])])
        if self.emit_conf_changed and "CONF_CHANGED" in self.subscribed:
            more = []
            for k, v in items:
                c = self.conf.canon(k)
                more.append(c if v in (None, "") else "%s=%s" % (c, v))
            self.outbox_after = R.encode(650, [("mid", "CONF_CHANGED")] + [("mid", m) for m in more] + [("end", "OK")])
        return OK

    def cmd_SETCONF(self, rest):
        return self._setconf(rest, False)

    def cmd_RESETCONF(self, rest):
        return self._setconf(rest, True)


class Link(object):
    """real TorControlProtocol <-> FakeTor, harness-owned delivery"""

    def __init__(self, proto, tor, chunking=(1 << 30,), clock=None):
        self.proto = proto
        self.tor = tor
        self.clock = clock or wire.LClock()
        self.transport = wire.RecTransport(self.clock, sink=tor.receive)
        self.chunking = list(chunking)
        self._ci = 0
        self.exceptions = []
        self.lost = False
        self.delivered = 0

    def connect(self):
        self.proto.makeConnection(self.transport)
        return self

    def pump(self, limit=100000):
        """move bytes until neither side has anything left"""
        n = 0
        while not self.lost:
            n += 1
            if n > limit:
                raise RuntimeError("Link.pump: no quiescence")
            self.tor.process()
            after = getattr(self.tor, "outbox_after", None)
            if after:
                self.tor.outbox += after
                self.tor.outbox_after = None
            if self.tor.outbox:
                size = self.chunking[self._ci % len(self.chunking)]
                self._ci += 1
                data, self.tor.outbox = self.tor.outbox[:size], self.tor.outbox[size:]
                self.delivered += len(data)
                try:
                    self.proto.dataReceived(data)
                except Exception as e:
                    self.exceptions.append(("deliver", repr(e)))
                continue
            if self.tor.closed:
                self.lose()
                break
            if b"\r\n" not in self.tor.inbox:
                break

    def lose(self, reason=None):
        from twisted.internet.error import ConnectionDone
        from twisted.python import failure
        if self.lost:
            return
        self.lost = True
        self.transport.lost = True
        try:
            self.proto.connectionLost(reason or failure.Failure(ConnectionDone()))
        except Exception as e:
            self.exceptions.append(("loss", repr(e)))

    def client_lines(self):
        """every complete line the client wrote, in order"""
        return list(self.tor.lines)


def connected_protocol(tor=None, chunking=(1 << 30,), password_function=None):
    """convenience: a bootstrapped real TorControlProtocol attached to a FakeTor"""
    from txtorcon import TorControlProtocol
    tor = tor or FakeTor()
    proto = TorControlProtocol(password_function)
    link = Link(proto, tor, chunking).connect()
    link.pump()
    return proto, tor, link
