"""AuthTor: FakeTor plus the hostile / faulty server behaviours property C04 needs.

Everything here is written from control-spec (3.21 PROTOCOLINFO, 3.24 AUTHCHALLENGE,
3.5 AUTHENTICATE); it shares no code with txtorcon.

* per-step fault plan  ``tor.fault = (step, kind, ...)``  with
  step in PROTOCOLINFO / AUTHCHALLENGE / AUTHENTICATE / signal/names / version /
  events/names / USEFEATURE and kind in
    ("5xx", code, text, close_after)   a 5xx reply (Tor closes a pre-auth connection after an error)
    ("close",)                         hang up instead of answering
    ("partial", num, den)              the first num/den of the correct reply, then hang up
    ("noauth",)                        PROTOCOLINFO reply without an AUTH line
    ("hash", variant)                  AUTHCHALLENGE: well-formed reply whose SERVERHASH is not the true HMAC
    ("malformed", variant)             AUTHCHALLENGE: reply outside / at the edge of the grammar
* a write-time log: for every complete command line the client wrote, whether the
  server had *already produced* ``250 OK`` for an AUTHENTICATE at that moment
  (``rx_lines``), which is what clause (1) of C04 is judged on;
* a reply log ``served`` = [{line, step, code, complete}] and the full record of each
  AUTHCHALLENGE exchange (``challenges``).
"""
import binascii
import hashlib
import hmac
import os

from ..refs import reply as R
from .core import FakeTor, S2C, C2S

HASH_VARIANTS = ("random", "flip-last", "flip-first", "c2s-key", "zero-cookie", "nonces-swapped",
                 "no-server-nonce", "trunc31", "trunc16", "empty", "extended", "all-zero")
# (name, verifiable): verifiable = the true SERVERHASH and the SERVERNONCE it was computed
# over are both present in decodable form, so a client *may* legitimately proceed
MALFORMED_VARIANTS = (("no-serverhash", False), ("no-servernonce", False), ("bare-ok", False),
                      ("nonhex-hash", False), ("odd-length-hash", False), ("nonhex-nonce", False),
                      ("hash-is-nonce", False),
                      ("lowercase", True), ("swapped-order", True), ("extra-keyword", True))
MALFORMED_VERIFIABLE = dict(MALFORMED_VARIANTS)

STEPS = ("PROTOCOLINFO", "AUTHCHALLENGE", "AUTHENTICATE", "signal/names", "version",
         "events/names", "USEFEATURE")


def step_of(line):
    word, _, rest = line.partition(" ")
    w = word.upper()
    if w == "GETINFO":
        r = rest.strip()
        return r if r in ("signal/names", "version", "events/names") else "GETINFO:" + r
    return w


def esc_for_log(s):
    """how Tor itself quotes COOKIEFILE (control_auth.c uses esc_for_log): C escapes for
    backslash, both quote characters, \\n \\t \\r, three-digit octal for other non-printables"""
    out = ['"']
    for c in s:
        o = ord(c)
        if c in '\\"\'':
            out.append("\\" + c)
        elif c == "\n":
            out.append("\\n")
        elif c == "\t":
            out.append("\\t")
        elif c == "\r":
            out.append("\\r")
        elif 0x20 <= o < 0x7f:
            out.append(c)
        else:
            out.append("\\%03o" % o)
    out.append('"')
    return "".join(out)


def hx(b):
    return binascii.hexlify(b).decode("ascii").upper()


class AuthTor(FakeTor):
    def __init__(self, *a, **kw):
        self.fault = kw.pop("fault", None)
        self.quote_style = kw.pop("quote_style", "spec")     # "spec" (core.quote) | "tor" (esc_for_log)
        FakeTor.__init__(self, *a, **kw)
        self.fault_fired = False
        self.rx_buf = b""
        self.rx_lines = []          # (line bytes, server had sent 250 to AUTHENTICATE when it was written)
        self.rx_raw = b""           # every byte the client wrote
        self.auth_ok_sent = False
        self.served = []            # {"line","step","code","complete"}
        self.challenges = []        # one dict per AUTHCHALLENGE received
        self.auth_tokens = []       # (raw argument text, decoded token | None)

    # -- write-time observation ---------------------------------------------
    def receive(self, data):
        self.rx_raw += data
        self.rx_buf += data
        while b"\r\n" in self.rx_buf:
            ln, self.rx_buf = self.rx_buf.split(b"\r\n", 1)
            self.rx_lines.append((ln, self.auth_ok_sent))
        FakeTor.receive(self, data)

    # -- dispatch with fault plan -----------------------------------------------
    def _served(self, line, code, complete=True):
        self.served.append({"line": line, "step": step_of(line), "code": code, "complete": complete})

    def dispatch(self, line):
        step = step_of(line)
        f = self.fault
        if step == "AUTHENTICATE":
            self._note_token(line)
        if f and not self.fault_fired and f[0] == step and f[1] in ("5xx", "close", "partial"):
            self.fault_fired = True
            kind = f[1]
            if step == "AUTHCHALLENGE" and kind in ("5xx", "close"):
                ch, _ = self._begin_challenge(line.partition(" ")[2])
                ch["behaviour"] = "fault:" + kind
            if kind == "close":
                self._served(line, None, False)
                return "close"
            if kind == "5xx":
                code, text, close_after = f[2], f[3], f[4]
                self._served(line, code, True)
                if close_after:
                    self.outbox += R.encode(code, [("end", text)])
                    self.replies.append((line, code, [("end", text)]))
                    return "close"
                return (code, [("end", text)])
            if kind == "partial":
                was = self.authenticated
                rep = self._normal(line, step)
                self.authenticated = was          # the acceptance never reaches the client
                if rep == "close" or rep is None:
                    self._served(line, None, False)
                    return "close"
                code, parts = rep
                enc = R.encode(code, parts)
                k = max(1, min(len(enc) - 1, (len(enc) * f[2]) // f[3]))
                self.outbox += enc[:k]
                self._served(line, code, False)
                return "close"
        rep = self._normal(line, step)
        if rep == "close":
            # FakeTor's own rejection of a bad AUTHENTICATE: 515 already queued, then hang-up
            self._served(line, 515, True)
        elif rep is not None:
            self._served(line, rep[0], True)
            if step == "AUTHENTICATE" and 200 <= rep[0] < 300:
                self.auth_ok_sent = True
        return rep

    def _normal(self, line, step):
        return FakeTor.dispatch(self, line)

    def _note_token(self, line):
        rest = line.partition(" ")[2].strip()
        tok = None
        if rest == "":
            tok = b""
        elif rest.startswith('"') and rest.endswith('"') and len(rest) >= 2:
            from ..refs import kvline
            try:
                tok = kvline.unescape(rest[1:-1]).encode("latin1")
            except Exception:
                tok = None
        else:
            try:
                tok = binascii.unhexlify(rest)
            except Exception:
                tok = None
        self.auth_tokens.append((rest, tok))

    # -- PROTOCOLINFO -------------------------------------------------------------
    def cmd_PROTOCOLINFO(self, rest):
        f = self.fault
        if f and f[0] == "PROTOCOLINFO" and f[1] == "noauth" and not self.fault_fired:
            self.fault_fired = True
            return (250, [("mid", "PROTOCOLINFO 1"), ("mid", 'VERSION Tor="%s"' % self.version),
                          ("end", "OK")])
        if self.quote_style == "tor" and self.cookiefile is not None:
            auth = "AUTH METHODS=" + ",".join(self.auth_methods) + " COOKIEFILE=" + esc_for_log(self.cookiefile)
            return (250, [("mid", "PROTOCOLINFO 1"), ("mid", auth),
                          ("mid", 'VERSION Tor="%s"' % self.version), ("end", "OK")])
        return FakeTor.cmd_PROTOCOLINFO(self, rest)

    # -- AUTHCHALLENGE ------------------------------------------------------------
    def _begin_challenge(self, rest):
        """parse the AUTHCHALLENGE arguments -> (record, error reply | None)"""
        parts = rest.split(None, 1)
        ch = {"arg": rest, "client_nonce": None, "server_nonce": None, "true_hash": None,
              "behaviour": "correct", "verifiable": False, "canonical": False, "eligible": False}
        self.challenges.append(ch)
        if len(parts) != 2 or parts[0].upper() != "SAFECOOKIE":
            ch["behaviour"] = "rejected-syntax"
            return ch, (513, [("end", "AUTHCHALLENGE only supports SAFECOOKIE authentication")])
        arg = parts[1].strip()
        cn = None
        if arg.startswith('"') and arg.endswith('"') and len(arg) >= 2:
            from ..refs import kvline
            try:
                cn = kvline.unescape(arg[1:-1]).encode("latin1")
            except Exception:
                cn = None
        else:
            try:
                cn = binascii.unhexlify(arg)
            except Exception:
                cn = None
        if cn is None:
            ch["behaviour"] = "rejected-nonce"
            return ch, (513, [("end", "Invalid base16 client nonce")])
        ch["client_nonce"] = cn
        if self.cookie is None or "SAFECOOKIE" not in self.auth_methods:
            ch["behaviour"] = "rejected-disabled"
            return ch, (513, [("end", "SAFECOOKIE authentication is not enabled")])
        ch["eligible"] = True
        return ch, None

    def cmd_AUTHCHALLENGE(self, rest):
        ch, err = self._begin_challenge(rest)
        if err is not None:
            return err
        cn = ch["client_nonce"]
        sn = os.urandom(32)
        true = hmac.new(S2C, self.cookie + cn + sn, hashlib.sha256).digest()
        ch["server_nonce"] = sn
        ch["true_hash"] = true
        self.client_nonce, self.server_nonce = cn, sn
        self.auth_log.append(("authchallenge", ch["arg"]))
        f = self.fault
        if f and f[0] == "AUTHCHALLENGE" and f[1] in ("hash", "malformed") and not self.fault_fired:
            self.fault_fired = True
            ch["behaviour"] = "%s:%s" % (f[1], f[2])
            if f[1] == "hash":
                text = "AUTHCHALLENGE SERVERHASH=%s SERVERNONCE=%s" % (hx(self._bad_hash(f[2], cn, sn, true)), hx(sn))
                return (250, [("end", text)])
            v = f[2]
            ch["verifiable"] = MALFORMED_VERIFIABLE[v]
            if v == "no-serverhash":
                text = "AUTHCHALLENGE SERVERNONCE=%s" % hx(sn)
            elif v == "no-servernonce":
                text = "AUTHCHALLENGE SERVERHASH=%s" % hx(true)
            elif v == "bare-ok":
                text = "OK"
            elif v == "nonhex-hash":
                text = "AUTHCHALLENGE SERVERHASH=%s SERVERNONCE=%s" % ("XY" * 32, hx(sn))
            elif v == "odd-length-hash":
                text = "AUTHCHALLENGE SERVERHASH=%s SERVERNONCE=%s" % (hx(true)[:-1], hx(sn))
            elif v == "nonhex-nonce":
                text = "AUTHCHALLENGE SERVERHASH=%s SERVERNONCE=%s" % (hx(true), "GG" * 32)
            elif v == "hash-is-nonce":
                text = "AUTHCHALLENGE SERVERHASH=%s SERVERNONCE=%s" % (hx(sn), hx(sn))
            elif v == "lowercase":
                text = "AUTHCHALLENGE SERVERHASH=%s SERVERNONCE=%s" % (hx(true).lower(), hx(sn).lower())
            elif v == "swapped-order":
                text = "AUTHCHALLENGE SERVERNONCE=%s SERVERHASH=%s" % (hx(sn), hx(true))
            elif v == "extra-keyword":
                text = "AUTHCHALLENGE SERVERHASH=%s SERVERNONCE=%s FUTURE=1" % (hx(true), hx(sn))
            else:
                raise ValueError(v)
            return (250, [("end", text)])
        ch["verifiable"] = True
        ch["canonical"] = True
        return (250, [("end", "AUTHCHALLENGE SERVERHASH=%s SERVERNONCE=%s" % (hx(true), hx(sn)))])

    def _bad_hash(self, variant, cn, sn, true):
        """what a server that does not know the cookie (or is broken) could send instead"""
        if variant == "random":
            h = os.urandom(32)
            return h if h != true else bytes(32)
        if variant == "flip-last":
            return true[:-1] + bytes([true[-1] ^ 0x01])
        if variant == "flip-first":
            return bytes([true[0] ^ 0x80]) + true[1:]
        if variant == "c2s-key":
            return hmac.new(C2S, self.cookie + cn + sn, hashlib.sha256).digest()
        if variant == "zero-cookie":
            return hmac.new(S2C, bytes(32) + cn + sn, hashlib.sha256).digest()
        if variant == "nonces-swapped":
            return hmac.new(S2C, self.cookie + sn + cn, hashlib.sha256).digest()
        if variant == "no-server-nonce":
            return hmac.new(S2C, self.cookie + cn, hashlib.sha256).digest()
        if variant == "trunc31":
            return true[:31]
        if variant == "trunc16":
            return true[:16]
        if variant == "empty":
            return b""
        if variant == "extended":
            return true + b"\x00"
        if variant == "all-zero":
            return bytes(32)
        raise ValueError(variant)
