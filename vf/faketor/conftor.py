"""ConfTor: FakeTor specialised for the configuration properties (C10, C11).

* option tables over every type name Tor's ``GETINFO config/names`` can list and
  txtorcon declares a parser for (``torconfig.config_types``), plus the ``*PortLines``
  virtual families (``SocksPortLines Virtual`` + ``SocksPort Dependant`` +
  ``__SocksPort Dependant``);
* GETCONF answers the way Tor does per type: string-like and line-list options that
  are unset answer with the bare key (``250 Nickname``), comma-list options always
  answer ``Key=value`` (``Key=`` when empty), numeric/boolean options always have a value;
* ``CONF_CHANGED`` generation, Tor style: ``650-CONF_CHANGED`` / one ``650-Key=value``
  line per value of every changed option (bare ``650-Key`` when the option has become
  unset) / ``650 OK`` -- both for changes made "by another controller"
  (``external_change``) and, when ``echo`` is on, for the controller's own SETCONF
  (queued after the ``250 OK`` like Tor's event queue does);
* an independent reference for "what a client must read" per declared type
  (``ref_read`` / ``read_matches``) -- written from control-spec / tor's config.c
  descriptions of the types, sharing no code with txtorcon.

A table is a JSON-able list of option dicts
    {"name": "Log", "type": "LineList", "init": ["notice stdout"], "default": None}
    {"name": "SocksPort", "type": "PortLines", "init": [...], "default": [...]|None,
     "lines_type": "Virtual", "dep_type": "Dependant"}
``init`` = values Tor holds ([] = unset / empty), ``default`` = what config/defaults lists
for the option (None = not listed); a PortLines option may carry ``hidden`` = values of its
non-persistent twin ``__FooPort``.
"""
from .core import FakeTor, ConfigStore, Link, OK
from ..refs import reply as R

BOOL = "Boolean"
BOOLAUTO = "Boolean+Auto"
INT_TYPES = ("Integer", "SignedInteger", "Port", "TimeInterval", "DataSize")
TEXT_TYPES = ("TimeMsecInterval", "Time")            # txtorcon declares no parser: compared as text
STR_TYPES = ("String", "Filename")
COMMA_TYPES = ("CommaList", "RouterList", "TimeIntervalCommaList")
LINELIST = "LineList"
PORTLINES = "PortLines"                              # pseudo type of a *PortLines family in a table
SCALAR_TYPES = (BOOL, BOOLAUTO) + INT_TYPES + ("Float",) + TEXT_TYPES + STR_TYPES
ALL_TYPES = SCALAR_TYPES + COMMA_TYPES + (LINELIST, PORTLINES)
UNSETTABLE = STR_TYPES + (LINELIST, PORTLINES)       # Tor can answer "250 Key" for these only


def kind_of(typ):
    if typ == LINELIST:
        return "linelist"
    if typ == PORTLINES:
        return "portlist"
    if typ in COMMA_TYPES:
        return "commalist"
    return "scalar"


def is_listy(typ):
    return kind_of(typ) != "scalar"


# ---------------------------------------------------------------------------
# name / value pools (shapes Tor really prints; nothing needing C-escapes: that is C12/C13)

NAMES = {
    BOOL: ["AvoidDiskWrites", "ClientOnly", "SafeLogging", "FetchUselessDescriptors", "DisableNetwork"],
    BOOLAUTO: ["RefuseUnknownExits", "ClientPreferIPv6ORPort", "GeoIPExcludeUnknown", "AssumeReachable"],
    "Integer": ["NumCPUs", "MaxClientCircuitsPending", "NumEntryGuards", "ConstrainedSockSize"],
    "SignedInteger": ["OwningControllerFD", "KISTSockBufSizeFactorInt", "TestingSignedKnob"],
    "Port": ["NATDListenPort", "TunnelDirPort", "ExtPortNumber"],
    "TimeInterval": ["CircuitBuildTimeout", "NewCircuitPeriod", "MaxCircuitDirtiness", "ShutdownWaitLength"],
    "TimeMsecInterval": ["TokenBucketRefillInterval", "KISTSchedRunInterval"],
    "DataSize": ["BandwidthRate", "BandwidthBurst", "MaxMemInQueues", "AccountingMax"],
    "Float": ["PathsNeededToBuildCircuits", "KISTSockBufSizeFactor", "CircuitPriorityHalflife"],
    "Time": ["AccountingStartTime", "TestingConsensusValidAfter"],
    "CommaList": ["LongLivedPorts", "FirewallPorts", "RejectPlaintextPorts", "PublishServerDescriptor"],
    "RouterList": ["ExitNodes", "EntryNodes", "ExcludeNodes", "ExcludeExitNodes"],
    "TimeIntervalCommaList": ["TestingServerDownloadSchedule", "TestingClientDownloadSchedule"],
    "String": ["Nickname", "ContactInfo", "OutboundBindAddress", "User"],
    "Filename": ["DataDirectory", "PidFile", "GeoIPFile", "CookieAuthFile"],
    LINELIST: ["Log", "ExitPolicy", "MapAddress", "NodeFamily", "SocksPolicy", "Bridge", "HTTPTunnelNote"],
    PORTLINES: ["SocksPort", "DNSPort", "TransPort", "NATDPort", "ControlListenPort", "ExtORPort"],
}

WORDS = ["notice", "stdout", "info", "file", "/var/log/tor/notices.log", "accept", "reject", "*:80",
         "*:*", "10.0.0.0/8:*", "a.example", "b.example", "obfs4", "192.0.2.3:443", "x=1", "k=v",
         "relay", "Unnamed", "tor@example.org", "2", "OK.", "cert=abc+/", "iat-mode=0"]
NICKS = ["moria1", "$AAAAAAAAAAAAAAAAAAAAAAAAAAAAAAAAAAAAAAAA", "{us}", "{de}", "tor26", "10.0.0.0/8", "gabelmoo"]
PORTS_CSV = ["21", "22", "80", "443", "706", "1863", "5050", "8080", "9001"]
INTERVALS_CSV = ["0", "60", "300", "3600", "7200"]
PATHS = ["/var/lib/tor", "/run/tor/tor.pid", "/usr/share/tor/geoip", "/tmp/tor data/cookie", "/etc/tor/x.y"]


def gen_line(rnd):
    n = rnd.choice([1, 2, 2, 3, 4])
    return " ".join(rnd.choice(WORDS) for _ in range(n))


def gen_port_entry(rnd, socks=False):
    r = rnd.random()
    p = str(rnd.choice([9050, 9150, 9051, 1080, 5353, 9040, 1, 65535, rnd.randint(1024, 65000)]))
    if r < 0.40:
        return p
    if r < 0.60:
        return "%s:%s" % (rnd.choice(["127.0.0.1", "127.0.0.20", "10.1.2.3", "0.0.0.0"]), p)
    if r < 0.85:
        opts = rnd.sample(["IsolateDestAddr", "IPv6Traffic", "PreferIPv6", "KeepAliveIsolateSOCKSAuth",
                           "NoIPv4Traffic", "SessionGroup=3"], rnd.randint(1, 3))
        host = rnd.choice(["", "", "127.0.0.1:"])
        return "%s%s %s" % (host, p, " ".join(opts))
    return "unix:/run/tor/%s.sock" % rnd.choice(["socks", "s0", "ctl-1"])


# comma-list entries with blanks / a tab INSIDE the entry (Tor's CSV types split on commas only)
BLANK_CSV = {"RouterList": ["My Relay", "node one two", "$BBBBBBBBBBBBBBBBBBBBBBBBBBBBBBBBBBBBBBBB~two words"],
             "TimeIntervalCommaList": ["30 minutes", "2 hours", "1 day", "90\tseconds"],
             "CommaList": ["accept 80", "v3 bridge", "1 2 3", "x\ty"]}


def gen_csv(rnd, typ, n=None):
    pool = NICKS if typ == "RouterList" else (INTERVALS_CSV if typ == "TimeIntervalCommaList" else PORTS_CSV)
    if n is None:
        n = rnd.choice([1, 2, 3, 4])
    out = rnd.sample(pool, min(n, len(pool)))
    if out and rnd.random() < 0.3:
        out[rnd.randrange(len(out))] = rnd.choice([x for x in BLANK_CSV[typ] if x not in out])
    return out


def gen_scalar_raw(rnd, typ):
    """a value the way Tor prints it in GETCONF / CONF_CHANGED"""
    if typ == BOOL:
        return rnd.choice(["0", "1"])
    if typ == BOOLAUTO:
        return rnd.choice(["0", "1", "auto"])
    if typ == "SignedInteger":
        return str(rnd.choice([-1, 0, 1, -7, 12, rnd.randint(-100000, 100000)]))
    if typ == "Port":
        return str(rnd.choice([0, 1, 80, 9001, 65535, rnd.randint(1, 65535)]))
    if typ in INT_TYPES:
        return str(rnd.choice([0, 1, 2, 60, 600, 86400, 1073741824, rnd.randint(0, 10 ** 9)]))
    if typ == "TimeMsecInterval":
        return str(rnd.choice([10, 100, 1000, 2500]))
    if typ == "Float":
        return rnd.choice(["0.6", "0.95", "1", "30", "2.5", "1e-05", "0.0", "1.000000", "12.125"])
    if typ == "Time":
        return "20%02d-%02d-%02d %02d:%02d:%02d" % (rnd.randint(10, 40), rnd.randint(1, 12), rnd.randint(1, 28),
                                                 rnd.randint(0, 23), rnd.randint(0, 59), rnd.randint(0, 59))
    if typ == "Filename":
        return rnd.choice(PATHS)
    if typ == "String":
        return rnd.choice([gen_line(rnd), rnd.choice(WORDS), "Unnamed", "Random Person <nobody AT example dot com>"])
    raise ValueError(typ)


def gen_values(rnd, typ, shape):
    """raw value list held by Tor for an option of `typ`; shape in unset/empty/single/multi"""
    k = kind_of(typ)
    if k == "scalar":
        if shape == "unset" and typ in STR_TYPES:
            return []
        return [gen_scalar_raw(rnd, typ)]
    if k == "commalist":
        if shape in ("unset", "empty"):
            return []                              # Tor answers "Key=" for an empty CSV option
        items = gen_csv(rnd, typ, 1 if shape == "single" else rnd.choice([2, 3, 4]))
        sep = rnd.choice([",", ",", ", ", " , ", ",  "])
        return [sep.join(items)]
    n = 0 if shape in ("unset", "empty") else (1 if shape == "single" else rnd.choice([2, 2, 3, 4, 5]))
    out = []
    while len(out) < n:
        v = gen_port_entry(rnd) if k == "portlist" else gen_line(rnd)
        if v not in out:
            out.append(v)
    return out


def anycase(rnd, name):
    r = rnd.random()
    if r < 0.3:
        return name
    if r < 0.5:
        return name.lower()
    if r < 0.65:
        return name.upper()
    return "".join(c.upper() if rnd.random() < 0.5 else c.lower() for c in name)


def gen_table(rnd, nopts=None, shapes=("unset", "empty", "single", "multi"), with_defaults=True,
              every_type=True, max_families=2):
    """an option table: at least one option of every declared type when every_type"""
    table = []
    used = set()
    types = list(SCALAR_TYPES + COMMA_TYPES + (LINELIST, LINELIST))
    if not every_type:
        types = rnd.sample(types, rnd.randint(3, 8))
        if LINELIST not in types:
            types.append(LINELIST)
    extra = rnd.choice([0, 1, 2, 3]) if nopts is None else max(0, nopts - len(types))
    for _ in range(extra):
        types.append(rnd.choice([LINELIST, "String", "CommaList", "RouterList", BOOL, "Integer"]))
    nfam = rnd.randint(1, max_families)
    fams = rnd.sample(NAMES[PORTLINES][1:], nfam - 1)
    types += [PORTLINES] * nfam
    rnd.shuffle(types)
    fam_names = ["SocksPort"] + fams
    for typ in types:
        if typ == PORTLINES:
            name = fam_names.pop(0)
        else:
            pool = [n for n in NAMES[typ] if n not in used]
            name = rnd.choice(pool) if pool else "%s%dOpt" % (typ.replace("+", ""), len(used))
        used.add(name)
        shape = rnd.choice(shapes)
        opt = {"name": name, "type": typ, "init": gen_values(rnd, typ, shape), "default": None}
        if typ == PORTLINES:
            opt["lines_type"] = rnd.choice(["Virtual", "Virtual", "Dependant"])
            opt["dep_type"] = rnd.choice(["Dependant", "Dependant", "Dependent"])
        if with_defaults and typ in UNSETTABLE and rnd.random() < 0.6:
            if typ in STR_TYPES:
                opt["default"] = [gen_scalar_raw(rnd, typ)]
            else:
                opt["default"] = gen_values(rnd, typ, rnd.choice(["single", "multi", "multi"]))
        if with_defaults and typ in COMMA_TYPES and rnd.random() < 0.5:
            opt["default"] = [",".join(gen_csv(rnd, typ, rnd.choice([2, 3])))]
        if with_defaults and kind_of(typ) == "scalar" and typ not in STR_TYPES and rnd.random() < 0.6:
            # Tor's config/defaults lists every option that has a built-in default ("NumCPUs 0", ...)
            opt["default"] = [gen_scalar_raw(rnd, typ)]
        table.append(opt)
    return table


# ---------------------------------------------------------------------------
# the server

class LenientStore(ConfigStore):
    """ConfigStore that understands a comma-list option given once per element in one SETCONF
    (``ExitNodes=a ExitNodes=b`` is taken as ``a,b``).  Real Tor keeps only the last value there;
    DESIGN C10/C11 leniency L judges comma lists on the wire form only, so the fake Tor must not
    punish the per-element form -- this is the one deliberate deviation from Tor."""
    comma = ()

    def apply(self, items, reset=False):
        seen = {}
        for k, v in items:
            c = self.canon(k)
            if c in self.comma:
                seen.setdefault(c, []).append(v)
        if seen:
            out, done = [], set()
            for k, v in items:
                c = self.canon(k)
                if c in seen:
                    if c not in done:
                        done.add(c)
                        vals = [x for x in seen[c] if x not in (None, "")]
                        out.append((k, ",".join(vals) if vals else ""))
                else:
                    out.append((k, v))
            items = out
        return ConfigStore.apply(self, items, reset)


class ConfTor(FakeTor):
    """FakeTor over an option table"""

    def __init__(self, table, no_defaults=False, echo=False, **kw):
        options, values, defaults = {}, {}, {}
        self.types = {}                       # canonical name -> table type
        for o in table:
            n, t = o["name"], o["type"]
            self.types[n] = t
            if t == PORTLINES:
                options[n + "Lines"] = o.get("lines_type", "Virtual")
                options[n] = o.get("dep_type", "Dependant")
                options["__" + n] = o.get("dep_type", "Dependant")
            else:
                options[n] = t
            values[n] = list(o["init"])
            if t == PORTLINES and o.get("hidden"):
                values["__" + n] = list(o["hidden"])      # e.g. Tor Browser's launcher sets __SocksPort
            if o.get("default"):
                defaults[n] = list(o["default"])
        store = LenientStore(options, values, defaults)
        store.comma = {o["name"] for o in table if o["type"] in COMMA_TYPES}
        FakeTor.__init__(self, conf=store, **kw)
        self.table = table
        self.no_config_defaults = bool(no_defaults)
        self.echo = echo if echo in ("before", "after") else ("after" if echo else False)
        self.emit_conf_changed = False        # the base class' echo is replaced by ours
        self.events_sent = []

    # Tor prints "Key=" for CSV-like options that hold nothing, the bare key otherwise
    def cmd_GETCONF(self, rest):
        keys = rest.split()
        lines = []
        for k in keys:
            c = self.conf.canon(k)
            if c is None:
                return (552, [("end", 'Unrecognized configuration key "%s"' % k)])
            lines.extend(self.render(c))
        if not lines:
            return OK
        return (250, [("mid", l) for l in lines[:-1]] + [("end", lines[-1])])

    def render(self, c):
        """the lines Tor prints for option c in GETCONF and CONF_CHANGED"""
        vals = self.conf.get(c)
        if not vals:
            if self.types.get(c) in COMMA_TYPES:
                return [c + "="]
            return [c]
        return ["%s=%s" % (c, v) for v in vals]

    def conf_changed(self, names, spell=None):
        """emit 650-CONF_CHANGED for the options `names` (canonical), in config/names order"""
        order = [n for n in self.conf.options if n in names]
        lines = []
        for n in order:
            for l in self.render(n):
                if spell and n in spell:
                    l = spell[n] + l[len(n):]
                lines.append(l)
        data = R.encode(650, [("mid", "CONF_CHANGED")] + [("mid", l) for l in lines] + [("end", "OK")])
        self.events_sent.append(lines)
        return data

    def external_change(self, items, spell=None):
        """another controller did SETCONF items: apply + announce (if subscribed)"""
        before = {k: list(v) for k, v in self.conf.values.items()}
        err = self.conf.apply(items)
        assert err is None, err
        self.conf.history.pop()               # history = the client's own SETCONFs only
        changed = {self.conf.canon(k) for k, _ in items}
        changed = {c for c in changed if self.conf.get(c) != before.get(c, [])}
        if changed and "CONF_CHANGED" in self.subscribed:
            self.outbox += self.conf_changed(changed, spell)
            return sorted(changed)
        return []

    def _setconf(self, rest, reset):
        before = {k: list(v) for k, v in self.conf.values.items()}
        rep = FakeTor._setconf(self, rest, reset)
        if rep[0] == 250 and self.echo and "CONF_CHANGED" in self.subscribed:
            changed = {k for k in self.conf.options if self.conf.get(k) != before.get(k, [])}
            if changed:
                if self.echo == "before":
                    # Tor versions that send events synchronously: the event precedes the 250 OK
                    self.outbox += self.conf_changed(changed)
                else:
                    self.outbox_after = self.conf_changed(changed)
        return rep


def boot(table, no_defaults=False, echo=False, chunking=(1 << 30,), on_line=None, after_reply=None,
         route="from_protocol", probe=None):
    """real TorControlProtocol + real TorConfig.from_protocol over a ConfTor.
    -> (cfg | None, failure | None, proto, tor, link)
    on_line(tor, line) / after_reply(tor, line, code) are called for every command line the attach
    sends (before its reply is produced / right after it was queued): what they put into the
    outbox (e.g. ``tor.external_change``) reaches the client between two command round trips.
    route: how the view is built ("from_protocol", "ctor" = TorConfig(proto), "attach_protocol" = TorConfig()
    attached later); probe(cfg, phase) is called with the not-yet-ready object (ctor / attach_protocol only)."""
    from txtorcon import TorControlProtocol, TorConfig
    tor = ConfTor(table, no_defaults=no_defaults, echo=echo)
    proto = TorControlProtocol()
    link = Link(proto, tor, chunking).connect()
    link.pump()
    if on_line is not None:
        tor.on_line.append(lambda line: on_line(tor, line))
    if after_reply is not None:
        tor.after_reply = [lambda line, code: after_reply(tor, line, code)]
    out = []
    if route == "from_protocol":
        d = TorConfig.from_protocol(proto)
    elif route == "ctor":
        # what from_protocol() does, but the object is in the caller's hands while it bootstraps
        cfg = TorConfig(proto)
        d = cfg.post_bootstrap
        if probe is not None:
            tor.on_line.append(lambda line: probe(cfg, "attaching"))
            probe(cfg, "constructed")
    elif route == "attach_protocol":
        # a detached TorConfig that is attached to the running Tor later
        cfg = TorConfig()
        if probe is not None:
            probe(cfg, "detached")
            tor.on_line.append(lambda line: probe(cfg, "attaching"))
        d = cfg.attach_protocol(proto)
    else:
        raise ValueError(route)
    d.addBoth(out.append)
    link.pump()
    if not out:
        return None, "pending", proto, tor, link
    from twisted.python.failure import Failure
    if isinstance(out[0], Failure):
        return None, out[0], proto, tor, link
    return out[0], None, proto, tor, link


# ---------------------------------------------------------------------------
# reference: what a client must read for an option, per declared type

UNSET = "<unset: no value and no default known>"


def ref_read(typ, vals, dflt):
    """Python value a type-correct view reports for Tor's raw values `vals` ([] = unset/empty)
    and config/defaults entry `dflt` (None/[] = not known)"""
    k = kind_of(typ)
    if k in ("linelist", "portlist"):
        return list(vals) if vals else list(dflt or [])
    if k == "commalist":
        raw = vals[-1] if vals else ""
        return [x.strip() for x in raw.split(",")] if raw != "" else []
    raw = vals[-1] if vals else (dflt[-1] if dflt else None)
    if raw is None:
        return UNSET
    if typ == BOOL:
        return int(raw) != 0
    if typ == BOOLAUTO:
        return -1 if raw == "auto" else (1 if int(raw) else 0)
    if typ in INT_TYPES:
        return int(raw)
    if typ == "Float":
        return float(raw)
    return raw


def read_matches(read, typ, vals, dflt, default_marker="DEFAULT"):
    """(ok, why) -- is `read` a type-correct report of (vals, dflt) for an option of `typ`?
    Leniencies (DESIGN C11 L + noted in c11.py): an unset scalar with no default known may read as
    the DEFAULT marker / None / ''; empty-string items of a comma list are ignored (an empty comma
    list may read [] or ['']).  An unset list option with no default known must read []."""
    want = ref_read(typ, vals, dflt)
    k = kind_of(typ)
    if k != "scalar":
        if not isinstance(read, list):
            return False, "not-a-list"
        if any(type(x) is not str for x in read):
            if any(isinstance(x, list) for x in read):
                return False, "nested-list"
            return False, "non-string-element"
        got = list(read)
        if k == "commalist":
            got = [x for x in got if x != ""]      # leniency: an empty comma list may be viewed as ['']
        if got == want:
            return True, ""
        return False, "value"
    if want is UNSET:
        return (read is None or read == "" or read == default_marker), "value"
    if typ == BOOL:
        return (type(read) is bool and read == want), ("type" if read == want else "value")
    if typ == BOOLAUTO:
        return (isinstance(read, int) and read == want), "value"
    if typ in INT_TYPES:
        return (type(read) is int and read == want), ("type" if read == want else "value")
    if typ == "Float":
        return (type(read) is float and read == want), ("type" if read == want else "value")
    if typ in TEXT_TYPES:
        return (str(read) == want), "value"
    return (type(read) is str and read == want), ("type" if read == want else "value")


def ref_socks_target(entry):
    """('unix', path) | ('tcp', host, port) for a SOCKSPort entry (tor manual: [address:]port|unix:path [flags])"""
    if entry.startswith("unix:"):
        return ("unix", entry[5:].split(" ")[0])
    first = entry.split()[0]
    if ":" in first:
        host, _, port = first.rpartition(":")
        return ("tcp", host, int(port))
    return ("tcp", "127.0.0.1", int(first))


def endpoint_target(ep):
    """what a twisted client endpoint points at"""
    n = type(ep).__name__
    if n == "UNIXClientEndpoint":
        return ("unix", ep._path)
    if n in ("TCP4ClientEndpoint", "TCP6ClientEndpoint"):
        return ("tcp", ep._host, ep._port)
    return ("other", n)


def selftest():
    import random
    rnd = random.Random(3)
    n = 0
    for _ in range(200):
        t = gen_table(rnd, every_type=rnd.random() < 0.5)
        names = [o["name"] for o in t]
        assert len(set(x.lower() for x in names)) == len(names)
        tor = ConfTor(t)
        for o in t:
            for l in tor.render(o["name"]):
                assert l.split("=")[0] == o["name"]
            assert read_matches(ref_read(o["type"], o["init"], o["default"]), o["type"], o["init"], o["default"])[0] \
                or ref_read(o["type"], o["init"], o["default"]) is UNSET
            n += 1
    assert ref_socks_target("9050") == ("tcp", "127.0.0.1", 9050)
    assert ref_socks_target("10.1.2.3:1 IsolateDestAddr") == ("tcp", "10.1.2.3", 1)
    assert ref_socks_target("unix:/a/b") == ("unix", "/a/b")
    assert ref_read("Boolean+Auto", ["auto"], None) == -1 and ref_read("RouterList", [], None) == []
    return n
