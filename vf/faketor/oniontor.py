"""OnionTor: FakeTor plus Tor's onion-service surface (control-spec 3.27/3.28, 4.1.25 and
the HiddenService* configuration family).  Written from the specifications; shares no
code with txtorcon.  Used by C14, C15 and C17.

API (everything else is inherited from vf.faketor.core.FakeTor)
---------------------------------------------------------------
tor = OnionTor(non_anonymous_mode=False, best="RSA1024", auto_upload=0, send_key_despite_discard=False)
  opaque_caller_keys=True / unlinked_auth_service_ids=True   server variants, see __init__ (defensive workloads only)
  send_key_despite_discard=True   OUT-OF-SPEC server (a Tor that ignores / predates DiscardPK, a relaying
                        controller): the ADD_ONION reply carries PrivateKey= although DiscardPK was sent.
                        Only for defensive workloads, which must tag their cases as out-of-spec-server input.
  tor.onions            {service_id: OnionRecord}  live ephemeral services (ADD_ONION), insertion order
  tor.add_onion_log     [dict(rest=, parsed=AddOnion|None, code=, text=, service_id=|None)] one per ADD_ONION line
  tor.del_onion_log     [dict(rest=, code=, service_id=|None)]                              one per DEL_ONION line
  tor.script("ADD_ONION", (512, [("end", "...")]))    inherited: reject the next ADD_ONION / SETCONF
  tor.hold_next("ADD_ONION") / tor.hold_next("SETCONF")
                        the next such command is executed at once (the service exists, files are
                        written) but its reply is withheld until tor.release(); events emitted
                        meanwhile therefore reach the client BEFORE the reply
  tor.release()         hand the withheld replies to the link (call link.pump() afterwards) -> count
  tor.hs_desc(action, addr, hsdir, **kw)   emit one HS_DESC event (only if subscribed, like Tor);
                        hsdir = int (-> refs.addonion.hsdir_name(i)) or a LongName string -> bool emitted
  tor.auto_upload = n   after every accepted ADD_ONION / SETCONF that created services, emit
                        UPLOAD x n then UPLOADED x n for each new service (0 = harness scripts events)
  tor.hs_address(record) the address Tor puts into HS_DESC for that service (service id; for
                        stealth clients the per-client ids are in record.clients)
  GETINFO onions/current, onions/detached   as Tor: data block of ids, 551 when there are none
  filesystem services: an accepted SETCONF/RESETCONF containing HiddenServiceDir=... blocks replaces
                        tor.fs_services ([FsService], block order) and "creates" each service the way
                        Tor does: mkdir (0700), `hostname`, and `private_key` (v2, PEM) or
                        `hs_ed25519_secret_key` + `hs_ed25519_public_key` + `authorized_clients/` (v3);
                        with HiddenServiceAuthorizeClient (v2 only) also `client_keys` and one
                        "<id>.onion <cookie> # client: <name>" line per client in `hostname` (stealth: a
                        separate id and a client-key per client).  Existing key files are kept and
                        re-used (same address), like Tor.  tor.fs_written lists every path written;
                        the harness that chose the directory removes it.
  GETCONF HiddenServiceOptions (or any per-service option) -> the configured blocks, in order
keys: KEYS = KeyPool() is process-wide and lazy: KEYS.rsa(i) real RSA-1024 keys (cryptography),
      KEYS.ed(i) fake ed25519-v3 blobs (64 pseudo-random bytes; the "public key" is a hash of the
      blob, NOT curve arithmetic - only the shapes are right: 56-char id with valid checksum).
      A FakeTor instance takes generated keys from index 0 upwards, so every run of a shard sees the
      same keys and pays for key generation once.  rsa_from_blob()/ed_from_blob() decode a
      caller-supplied KeyBlob (what ADD_ONION RSA1024:<blob> carries).
PortReactor: tiny IReactorTCP/IReactorTime double (listenTCP with tracked, numbered ports); with
      reactor.async_stop = True a port's stopListening() completes only when reactor.finish_stops() is called.
memoize_pem_loading(): memoise cryptography's load_pem_private_key (pure; 8 ms per call otherwise).

Fidelity notes (trusted base): the order of argument checks and the exact 5xx texts are
approximations of Tor's; what is modelled exactly is *whether* a request is accepted:
unknown flag / keyword, bad VIRTPORT, no Port, ClientAuth without BasicAuth, duplicate client,
BasicAuth with no clients, BasicAuth on v3, NonAnonymous flag not matching the server mode,
undecodable key blob, address collision are refused; DiscardPK suppresses the PrivateKey line;
a supplied key is never echoed; ClientAuth lines are returned only for clients whose blob Tor made.
"NEW:BEST" yields `best` (default RSA1024, which is what "BEST" meant while v2 existed).
"""
import base64
import hashlib
import os

from twisted.internet import task, address, defer

from ..refs import addonion as AO
from ..refs import kvline
from ..refs import reply as R
from .core import FakeTor, ConfigStore, OK

ED_SECRET_HDR = b"== ed25519v1-secret: type0 ==\x00\x00\x00"
ED_PUBLIC_HDR = b"== ed25519v1-public: type0 ==\x00\x00\x00"

HS_SERVICE_KEYS = ("HiddenServiceDir", "HiddenServicePort", "HiddenServiceVersion",
                   "HiddenServiceAuthorizeClient", "HiddenServiceDirGroupReadable",
                   "HiddenServiceMaxStreams", "HiddenServiceMaxStreamsCloseCircuit",
                   "HiddenServiceAllowUnknownPorts", "HiddenServiceNumIntroductionPoints",
                   "HiddenServiceExportCircuitID")
_HS_CANON = {k.lower(): k for k in HS_SERVICE_KEYS}

HS_OPTIONS = {
    "HiddenServiceOptions": "Virtual",
    "HiddenServiceDir": "Dependent",
    "HiddenServicePort": "Dependent",
    "HiddenServiceVersion": "Dependent",
    "HiddenServiceAuthorizeClient": "Dependent",
    "HiddenServiceDirGroupReadable": "Dependent",
    "HiddenServiceSingleHopMode": "Boolean",
    "HiddenServiceNonAnonymousMode": "Boolean",
}


# ---------------------------------------------------------------------------
# keys

class RsaKey(object):
    """a real RSA-1024 key in the three serialisations Tor uses"""

    def __init__(self, priv):
        from cryptography.hazmat.primitives import serialization as S
        self.priv = priv
        der = priv.private_bytes(S.Encoding.DER, S.PrivateFormat.TraditionalOpenSSL, S.NoEncryption())
        self.blob = base64.b64encode(der).decode("ascii")            # ADD_ONION KeyBlob (PKCS#1 DER, base64)
        self.pem = priv.private_bytes(S.Encoding.PEM, S.PrivateFormat.TraditionalOpenSSL,
                                      S.NoEncryption()).decode("ascii")
        self.der_pub = priv.public_key().public_bytes(S.Encoding.DER, S.PublicFormat.PKCS1)
        self.service_id = AO.v2_service_id(self.der_pub)
        self.key_type = "RSA1024"

    def spec(self):
        return "RSA1024:" + self.blob


class EdKey(object):
    """a FAKE ed25519-v3 key: 64 bytes of 'expanded secret key'; public part = hash of it"""

    def __init__(self, raw64):
        assert len(raw64) == 64
        self.raw = raw64
        self.blob = base64.b64encode(raw64).decode("ascii")
        self.pub = hashlib.sha256(b"vf-fake-ed25519-public" + raw64).digest()
        self.service_id = AO.v3_service_id(self.pub)
        self.key_type = "ED25519-V3"

    def spec(self):
        return "ED25519-V3:" + self.blob

    def secret_file(self):
        return ED_SECRET_HDR + self.raw

    def public_file(self):
        return ED_PUBLIC_HDR + self.pub


def rsa_from_blob(blob):
    """decode an ADD_ONION RSA1024 KeyBlob -> RsaKey (ValueError if Tor would refuse it)"""
    from cryptography.hazmat.primitives import serialization as S
    from cryptography.hazmat.primitives.asymmetric import rsa
    try:
        der = base64.b64decode(blob.encode("ascii"), validate=True)
        priv = S.load_der_private_key(der, password=None)
    except Exception as e:
        raise ValueError("Failed to decode RSA1024 key (%s)" % type(e).__name__)
    if not isinstance(priv, rsa.RSAPrivateKey) or priv.key_size != 1024:
        raise ValueError("Invalid RSA key size")
    return RsaKey(priv)


def rsa_from_pem(pem_text):
    from cryptography.hazmat.primitives import serialization as S
    return RsaKey(S.load_pem_private_key(pem_text.encode("ascii"), password=None))


def ed_from_blob(blob):
    try:
        raw = base64.b64decode(blob.encode("ascii"), validate=True)
    except Exception:
        raise ValueError("Failed to decode ED25519-V3 key")
    if len(raw) != 64:
        raise ValueError("Failed to decode ED25519-V3 key")
    return EdKey(raw)


class OpaqueKey(object):
    """a caller-supplied KeyBlob the reference server does not decode (server variant
    opaque_caller_keys): it is kept verbatim and gets a stable id derived from the blob text"""

    def __init__(self, key_type, blob):
        self.key_type = key_type
        self.blob = blob
        h = hashlib.sha256(("vf-opaque/%s/%s" % (key_type, blob)).encode("ascii")).digest()
        self.service_id = AO.v2_service_id(h) if key_type == "RSA1024" else AO.v3_service_id(h)
        self.opaque = True

    def spec(self):
        return "%s:%s" % (self.key_type, self.blob)


_B64 = set("ABCDEFGHIJKLMNOPQRSTUVWXYZabcdefghijklmnopqrstuvwxyz0123456789+/=")


class KeyPool(object):
    """process-wide lazily generated keys: index -> key (same index, same key)"""

    def __init__(self):
        self._rsa = {}
        self._ed = {}

    def rsa(self, i):
        k = self._rsa.get(i)
        if k is None:
            from cryptography.hazmat.primitives.asymmetric import rsa
            k = self._rsa[i] = RsaKey(rsa.generate_private_key(public_exponent=65537, key_size=1024))
        return k

    def ed(self, i):
        k = self._ed.get(i)
        if k is None:
            k = self._ed[i] = EdKey(hashlib.sha512(b"vf-ed25519-key-%d" % i).digest())
        return k


KEYS = KeyPool()
CALLER_BASE = 1000      # KEYS.rsa(CALLER_BASE + i) / KEYS.ed(CALLER_BASE + i): keys a *caller* supplies in workloads


def client_cookie(seed_text):
    """a v2 descriptor cookie as Tor prints it: base64 of 16 bytes without the '==' padding (22 chars)"""
    return base64.b64encode(hashlib.sha1(seed_text.encode()).digest()[:16]).decode("ascii")[:22]


def valid_cookie(blob):
    if len(blob) != 22:
        return False
    try:
        return len(base64.b64decode(blob + "==", validate=True)) == 16
    except Exception:
        return False


# ---------------------------------------------------------------------------
# records

class OnionRecord(object):
    """one ephemeral service as Tor holds it"""

    def __init__(self, key, generated, parsed, client_auth, service_id=None):
        self.key = key                      # RsaKey | EdKey | OpaqueKey
        self.service_id = service_id or key.service_id
        self.unlinked = self.service_id != key.service_id    # server variant: id not derived from the key
        self.version = 2 if key.key_type == "RSA1024" else 3
        self.generated = generated          # True: Tor made the key (NEW:...)
        self.parsed = parsed                # refs.addonion.AddOnion
        self.ports = list(parsed.ports)
        self.flags = list(parsed.flags)
        self.detached = "Detach" in parsed.flags
        self.discard = "DiscardPK" in parsed.flags
        self.client_auth = dict(client_auth)    # name -> cookie (supplied or generated)
        self.key_sent = False               # did the reply carry PrivateKey=


class FsService(object):
    """one HiddenServiceDir block as configured + what Tor created for it"""

    def __init__(self, directory):
        self.directory = directory
        self.ports = []                     # [(virtport, target-text|None)]
        self.port_lines = []                # the HiddenServicePort values verbatim
        self.version = None                 # as configured (None: Tor's default = 3)
        self.auth = None                    # ("basic"|"stealth", [names])
        self.group_readable = False
        self.other = []                     # further per-service options (k, v)
        self.key = None
        self.service_id = None
        self.hostname = None                # "<id>.onion" (the service's own id)
        self.clients = {}                   # name -> (client service id, cookie)
        self.key_generated = None
        self.new = False                    # created by the most recent SETCONF

    def effective_version(self):
        return self.version if self.version is not None else 3

    def conf_lines(self):
        out = ["HiddenServiceDir=%s" % self.directory]
        if self.group_readable:
            out.append("HiddenServiceDirGroupReadable=1")
        for pl in self.port_lines:
            out.append("HiddenServicePort=%s" % pl)
        if self.version is not None:
            out.append("HiddenServiceVersion=%d" % self.version)
        if self.auth:
            out.append("HiddenServiceAuthorizeClient=%s %s" % (self.auth[0], ",".join(self.auth[1])))
        for k, v in self.other:
            out.append("%s=%s" % (k, v))
        return out


def default_conf(extra_options=None, values=None):
    """a ConfigStore with the HiddenService* family declared (what TorConfig's bootstrap needs)"""
    opts = dict(HS_OPTIONS)
    opts.update(extra_options or {})
    vals = {"HiddenServiceSingleHopMode": ["0"], "HiddenServiceNonAnonymousMode": ["0"]}
    vals.update(values or {})
    return ConfigStore(opts, vals)


# ---------------------------------------------------------------------------

class OnionTor(FakeTor):
    def __init__(self, *a, **kw):
        self.non_anonymous_mode = kw.pop("non_anonymous_mode", False)
        self.best = kw.pop("best", "RSA1024")
        self.auto_upload = kw.pop("auto_upload", 0)
        self.allow_relative_dirs = kw.pop("allow_relative_dirs", False)
        # SERVER VARIANTS for defensive workloads (cases using them must be tagged as such an input class):
        #  opaque_caller_keys: a caller-supplied KeyBlob that does not decode is accepted verbatim (OpaqueKey)
        #  unlinked_auth_service_ids: the ServiceID returned for a BasicAuth service is NOT the hash of its key
        #    (a rotated / differently derived id); HS_DESC events (hs_address) keep naming the key-derived id
        self.opaque_caller_keys = kw.pop("opaque_caller_keys", False)
        self.unlinked_auth_service_ids = kw.pop("unlinked_auth_service_ids", False)
        # OUT OF SPEC (defensive workloads only): answer with PrivateKey= although DiscardPK was given
        self.send_key_despite_discard = kw.pop("send_key_despite_discard", False)
        if kw.get("conf") is None:
            kw["conf"] = default_conf()
        FakeTor.__init__(self, *a, **kw)
        for k, t in HS_OPTIONS.items():
            self.conf.options.setdefault(k, t)
        self.onions = {}
        self.add_onion_log = []
        self.del_onion_log = []
        self.fs_services = []
        self.fs_written = []
        self.fs_history = []               # one entry per accepted HS SETCONF: [conf_lines of every block]
        self._hold = []                    # command words whose next reply is withheld
        self.held = []                     # [(line, (code, parts), announce)]
        self._rsa_next = 0
        self._ed_next = 0
        self._announce = []                # addresses to announce after the reply went out
        self.after_reply = [self._after_reply]

    # ---- reply withholding -------------------------------------------------
    def hold_next(self, word):
        self._hold.append(word.upper())

    def dispatch(self, line):
        word = line.partition(" ")[0].upper()
        rep = FakeTor.dispatch(self, line)
        if word in self._hold and rep is not None and rep != "close":
            self._hold.remove(word)
            ann, self._announce = self._announce, []
            self.held.append((line, rep, ann))
            return None
        return rep

    def release(self):
        n = 0
        while self.held:
            line, (code, parts), ann = self.held.pop(0)
            self.replies.append((line, code, parts))
            self.outbox += R.encode(code, parts)
            self._announce = ann
            self._after_reply(line, code)
            n += 1
        return n

    def _after_reply(self, line, code):
        ann, self._announce = self._announce, []
        if 200 <= code < 300 and self.auto_upload:
            for addr in ann:
                for i in range(self.auto_upload):
                    self.hs_desc("UPLOAD", addr, i)
                for i in range(self.auto_upload):
                    self.hs_desc("UPLOADED", addr, i)

    # ---- HS_DESC ------------------------------------------------------------
    def hs_desc(self, action, addr, hsdir, **kw):
        if isinstance(hsdir, int):
            hsdir = AO.hsdir_name(hsdir)
        return self.emit("HS_DESC", AO.hs_desc(action, addr, hsdir, **kw))

    @staticmethod
    def hs_address(record):
        # server variant unlinked_auth_service_ids: HS_DESC keeps naming the key-derived (permanent) id
        return record.key.service_id if getattr(record, "unlinked", False) else record.service_id

    # ---- ADD_ONION / DEL_ONION ----------------------------------------------
    def _new_key(self, key_type):
        if key_type == "RSA1024":
            k = KEYS.rsa(self._rsa_next)
            self._rsa_next += 1
        else:
            k = KEYS.ed(self._ed_next)
            self._ed_next += 1
        return k

    def cmd_ADD_ONION(self, rest):
        ent = {"rest": rest, "parsed": None, "code": None, "text": None, "service_id": None}
        self.add_onion_log.append(ent)

        def refuse(code, text):
            ent["code"], ent["text"] = code, text
            return (code, [("end", text)])
        try:
            a = AO.parse_add_onion(rest)
        except AO.AddOnionError as e:
            return refuse(e.code, e.text)
        ent["parsed"] = a
        ktype = a.key_type
        want = a.key_blob if ktype == "NEW" else ktype
        if want == "BEST":
            want = self.best
        version = 2 if want == "RSA1024" else 3
        if ("NonAnonymous" in a.flags) != bool(self.non_anonymous_mode):
            return refuse(512, "Tor is in %sanonymous hidden service mode" % (
                "non-" if self.non_anonymous_mode else ""))
        if "BasicAuth" in a.flags:
            if version == 3:
                return refuse(513, "BasicAuth/ClientAuth is not supported for ED25519-V3 services")
            if not a.client_auth:
                return refuse(512, "Invalid client authorization: BasicAuth without clients")
        for name, blob in a.client_auth:
            if blob is not None and not valid_cookie(blob):
                return refuse(512, "Invalid ClientAuth blob for %s" % name)
        if ktype == "NEW":
            key, generated = None, True
        else:
            try:
                key = rsa_from_blob(a.key_blob) if ktype == "RSA1024" else ed_from_blob(a.key_blob)
            except ValueError as e:
                if not (self.opaque_caller_keys and set(a.key_blob) <= _B64):
                    return refuse(512, str(e))
                key = OpaqueKey(ktype, a.key_blob)
            generated = False
            if key.service_id in self.onions:
                return refuse(550, "Onion address collision")
        if generated:
            key = self._new_key(want)
            while key.service_id in self.onions:
                key = self._new_key(want)
        made = []
        auths = {}
        for name, blob in a.client_auth:
            if blob is None:
                blob = client_cookie("%s/%s" % (key.service_id, name))
                made.append((name, blob))
            auths[name] = blob
        sid = None
        if self.unlinked_auth_service_ids and "BasicAuth" in a.flags:
            sid = AO.v2_service_id(b"vf-unlinked-service-id/" + key.service_id.encode("ascii"))
            if sid in self.onions:
                return refuse(550, "Onion address collision")
        rec = OnionRecord(key, generated, a, auths, sid)
        self.onions[rec.service_id] = rec
        send_key = generated and (not rec.discard or self.send_key_despite_discard)
        rec.key_sent = send_key
        ent["code"], ent["text"], ent["service_id"] = 250, "OK", rec.service_id
        self._announce.append(rec.service_id)
        return AO.add_onion_reply(rec.service_id, key.spec() if send_key else None, made)

    def cmd_DEL_ONION(self, rest):
        ent = {"rest": rest, "code": None, "service_id": None}
        self.del_onion_log.append(ent)
        try:
            sid = AO.parse_del_onion(rest)
        except AO.AddOnionError as e:
            ent["code"] = e.code
            return (e.code, [("end", e.text)])
        if sid not in self.onions:
            ent["code"] = 552
            return (552, [("end", "Unknown Onion Service id")])
        del self.onions[sid]
        ent["code"], ent["service_id"] = 250, sid
        return OK

    # ---- GETINFO onions/* ---------------------------------------------------
    def cmd_GETINFO(self, rest):
        keys = rest.split()
        if any(k in ("onions/current", "onions/detached") for k in keys):
            parts = []
            for k in keys:
                if k in ("onions/current", "onions/detached"):
                    det = (k == "onions/detached")
                    ids = [r.service_id for r in self.onions.values() if r.detached == det]
                    if not ids:
                        return (551, [("end", "No onion services of the specified type.")])
                    parts.append(("data", k + "=", ids))
                else:
                    v = self.lookup_info(k)
                    if v is None:
                        return (552, [("end", 'Unrecognized key "%s"' % k)])
                    if isinstance(v, (list, tuple)):
                        parts.append(("data", k + "=", list(v)))
                    else:
                        parts.append(("mid", "%s=%s" % (k, v)))
            parts.append(("end", "OK"))
            return (250, parts)
        return FakeTor.cmd_GETINFO(self, rest)

    # ---- HiddenService* configuration ---------------------------------------
    def cmd_GETCONF(self, rest):
        keys = rest.split()
        if any(k.lower() in _HS_CANON or k.lower() == "hiddenserviceoptions" for k in keys):
            lines = []
            for k in keys:
                if k.lower() in _HS_CANON or k.lower() == "hiddenserviceoptions":
                    block = [l for s in self.fs_services for l in s.conf_lines()]
                    lines.extend(block or ["HiddenServiceOptions"])
                else:
                    c = self.conf.canon(k)
                    if c is None:
                        return (552, [("end", 'Unrecognized configuration key "%s"' % k)])
                    vals = self.conf.get(c)
                    lines.extend(["%s=%s" % (c, v) for v in vals] or [c])
            return (250, [("mid", l) for l in lines[:-1]] + [("end", lines[-1])])
        return FakeTor.cmd_GETCONF(self, rest)

    def _setconf(self, rest, reset):
        try:
            items = kvline.parse(rest)
        except kvline.KvError as e:
            return (551, [("end", "Couldn't parse string: %s" % e)])
        hs = [(k, v) for (k, v) in items if k.lower() in _HS_CANON]
        if not hs:
            return FakeTor._setconf(self, rest, reset)
        others = [(k, v) for (k, v) in items if k.lower() not in _HS_CANON]
        staged = self._stage_hs(hs)
        if isinstance(staged, tuple):
            return (staged[0], [("end", staged[1])])
        if others:
            err = self.conf.apply(others, reset)
            if err:
                return (err[0], [("end", err[1])])
        try:
            self._commit_hs(staged)
        except OSError as e:
            return (553, [("end", "Unable to set option: Failed to configure rendezvous options: %s" % e)])
        return OK

    def _stage_hs(self, hs):
        """validate the HiddenService* items of one SETCONF -> [FsService] or (code, text)"""
        bad = lambda t: (513, "Unacceptable option value: " + t)
        blocks = []
        cur = None
        for k, v in hs:
            c = _HS_CANON[k.lower()]
            if c == "HiddenServiceDir":
                if v is None or v == "":
                    cur = None              # bare key: clears the family
                    continue
                if not os.path.isabs(v) and not self.allow_relative_dirs:
                    return bad("HiddenServiceDir %r is relative (refused by the harness model)" % v)
                if any(b.directory == v for b in blocks):
                    return bad("Another hidden service is already configured for directory %s" % v)
                cur = FsService(v)
                blocks.append(cur)
                continue
            if v is None or v == "":
                continue
            if cur is None:
                return bad("%s with no preceding HiddenServiceDir directive" % c)
            if c == "HiddenServicePort":
                toks = v.split()
                if not (1 <= len(toks) <= 2):
                    return bad("Bad syntax for hidden service port configuration %r" % v)
                try:
                    cur.ports.append(AO.parse_port(",".join(toks)))
                except AO.AddOnionError:
                    return bad("Bad syntax for hidden service port configuration %r" % v)
                cur.port_lines.append(v)
            elif c == "HiddenServiceVersion":
                if v not in ("2", "3"):
                    return bad("HiddenServiceVersion must be between 2 and 3, not %s" % v)
                cur.version = int(v)
            elif c == "HiddenServiceAuthorizeClient":
                if cur.auth is not None:
                    return bad("Got multiple HiddenServiceAuthorizeClient lines for a single service")
                toks = v.split()
                if len(toks) != 2 or toks[0] not in ("basic", "stealth"):
                    return bad("HiddenServiceAuthorizeClient contains unrecognized auth-type or no client names")
                names = toks[1].split(",")
                if any(not AO._CLIENT_NAME.match(n) for n in names) or len(set(names)) != len(names):
                    return bad("HiddenServiceAuthorizeClient contains an illegal or duplicate client name")
                cur.auth = (toks[0], names)
            elif c == "HiddenServiceDirGroupReadable":
                if v not in ("0", "1"):
                    return bad("HiddenServiceDirGroupReadable should be 0 or 1, not %s" % v)
                cur.group_readable = (v == "1")
            else:
                cur.other.append((c, v))
        for b in blocks:
            if not b.ports:
                return bad("Hidden service (%s) with no ports configured" % b.directory)
            if b.auth is not None and b.effective_version() == 3:
                return bad("Hidden service option HiddenServiceAuthorizeClient is incompatible with version 3")
        return blocks

    def _write(self, path, data, mode=0o600):
        with open(path, "wb") as f:
            f.write(data if isinstance(data, bytes) else data.encode("ascii"))
        os.chmod(path, mode)
        self.fs_written.append(path)

    def _commit_hs(self, blocks):
        old = {s.directory: s for s in self.fs_services}
        for b in blocks:
            d = b.directory
            b.new = d not in old
            if not os.path.isdir(d):
                os.makedirs(d)
                self.fs_written.append(d)
            os.chmod(d, 0o750 if b.group_readable else 0o700)
            fmode = 0o640 if b.group_readable else 0o600
            if b.effective_version() == 2:
                kp = os.path.join(d, "private_key")
                if os.path.exists(kp):
                    with open(kp) as f:
                        b.key = rsa_from_pem(f.read())
                    b.key_generated = False
                else:
                    b.key = self._new_key("RSA1024")
                    b.key_generated = True
                    self._write(kp, b.key.pem, fmode)
                b.service_id = b.key.service_id
                b.hostname = b.service_id + ".onion"
                if b.auth is None:
                    self._write(os.path.join(d, "hostname"), b.hostname + "\n", fmode)
                else:
                    kind, names = b.auth
                    prev = old.get(d)
                    host_lines, ck_lines = [], []
                    for n in names:
                        if prev is not None and n in prev.clients and prev.auth and prev.auth[0] == kind:
                            csid, cookie = prev.clients[n]
                            ckey = getattr(prev, "client_keys", {}).get(n)
                        elif kind == "stealth":
                            ckey = self._new_key("RSA1024")
                            csid, cookie = ckey.service_id, client_cookie("%s/%s/stealth" % (b.service_id, n))
                        else:
                            ckey = None
                            csid, cookie = b.service_id, client_cookie("%s/%s" % (b.service_id, n))
                        b.clients[n] = (csid, cookie)
                        if ckey is not None:
                            b.__dict__.setdefault("client_keys", {})[n] = ckey
                        host_lines.append("%s.onion %s # client: %s\n" % (csid, cookie, n))
                        ck_lines.append("client-name %s\ndescriptor-cookie %s==\n" % (n, cookie))
                        if ckey is not None:
                            ck_lines.append("client-key\n" + ckey.pem)
                    self._write(os.path.join(d, "hostname"), "".join(host_lines), fmode)
                    self._write(os.path.join(d, "client_keys"), "".join(ck_lines), fmode)
            else:
                sp = os.path.join(d, "hs_ed25519_secret_key")
                if os.path.exists(sp):
                    with open(sp, "rb") as f:
                        raw = f.read()
                    if raw.startswith(ED_SECRET_HDR) and len(raw) == len(ED_SECRET_HDR) + 64:
                        b.key = EdKey(raw[len(ED_SECRET_HDR):])
                    else:               # foreign content: still a stable address for that content
                        b.key = EdKey(hashlib.sha512(raw).digest())
                    b.key_generated = False
                else:
                    b.key = self._new_key("ED25519-V3")
                    b.key_generated = True
                    self._write(sp, b.key.secret_file(), fmode)
                self._write(os.path.join(d, "hs_ed25519_public_key"), b.key.public_file(), fmode)
                ac = os.path.join(d, "authorized_clients")
                if not os.path.isdir(ac):
                    os.mkdir(ac)
                    self.fs_written.append(ac)
                b.service_id = b.key.service_id
                b.hostname = b.service_id + ".onion"
                self._write(os.path.join(d, "hostname"), b.hostname + "\n", fmode)
            if b.new:
                self._announce.append(b.service_id)
        self.fs_services = blocks
        self.fs_history.append([s.conf_lines() for s in blocks])


# ---------------------------------------------------------------------------
# speed: txtorcon re-parses the service's RSA key (8 ms with cryptography's key validation) on every
# HS_DESC event of an authenticated service.  Parsing is a pure function of the PEM bytes, so the
# harness may memoise it (same object for the same bytes); nothing else changes.

_MEMO = []


def memoize_pem_loading():
    if _MEMO:
        return
    from cryptography.hazmat.primitives import serialization as S
    orig = S.load_pem_private_key
    cache = {}

    def load_pem_private_key(data, password=None, backend=None, **kw):
        key = (bytes(data), password, tuple(sorted(kw.items())))
        k = cache.get(key)
        if k is None:
            if len(cache) > 64:
                cache.clear()
            k = cache[key] = orig(data, password, backend, **kw)
        return k
    load_pem_private_key.__wrapped__ = orig
    S.load_pem_private_key = load_pem_private_key
    _MEMO.append(orig)


# ---------------------------------------------------------------------------
# a minimal reactor double for code that asks for a free local port

class FakePort(object):
    def __init__(self, reactor, number, interface, factory):
        self.reactor = reactor
        self.number = number
        self.interface = interface
        self.factory = factory
        self.open = True

    def getHost(self):
        return address.IPv4Address("TCP", self.interface or "0.0.0.0", self.number)

    def stopListening(self):
        if self.open:
            self.open = False
            self.reactor.closed.append(self)
        if self.reactor.async_stop:
            # like a real reactor: the port is gone only on a LATER turn
            d = defer.Deferred()
            self.reactor.pending_stops.append(d)
            return d
        return None

    def startListening(self):
        pass


class PortReactor(task.Clock):
    """IReactorTime (task.Clock) + listenTCP with tracked ports.  Port 0 allocates
    first_port, first_port+1, ...;  `fail_listen` = exception to raise from listenTCP."""

    def __init__(self, first_port=40001):
        task.Clock.__init__(self)
        self.next_port = first_port
        self.ports = []            # every FakePort ever opened
        self.closed = []
        self.fail_listen = None
        self.triggers = []
        self.async_stop = False      # True: stopListening() returns a Deferred fired by finish_stops()
        self.pending_stops = []

    def finish_stops(self):
        """a later reactor turn: fire the Deferreds of every stopListening() issued so far -> count"""
        ds, self.pending_stops = self.pending_stops, []
        for d in ds:
            d.callback(None)
        return len(ds)

    def listenTCP(self, port, factory, backlog=50, interface=""):
        if self.fail_listen is not None:
            raise self.fail_listen
        if port == 0:
            port = self.next_port
            self.next_port += 1
        p = FakePort(self, port, interface, factory)
        self.ports.append(p)
        return p

    def open_ports(self):
        return [p for p in self.ports if p.open]

    def addSystemEventTrigger(self, phase, event, fn, *a, **kw):
        self.triggers.append((phase, event, fn, a, kw))
        return len(self.triggers) - 1

    def removeSystemEventTrigger(self, tid):
        self.triggers[tid] = None


# ---------------------------------------------------------------------------

def selftest():
    """independent of txtorcon"""
    import shutil
    import tempfile
    n = 0
    k = KEYS.rsa(0)
    assert len(k.service_id) == 16 and rsa_from_blob(k.blob).service_id == k.service_id; n += 1
    assert rsa_from_pem(k.pem).service_id == k.service_id; n += 1
    # known pair (public test vector used all over the Tor ecosystem: key -> n7vc7sxqwqrm3vwo)
    blob = ("MIICXAIBAAKBgQC+bxV7+iEjJCmvQW/2SOYFQBsF06VuAdVKr3xTNMHgqI5mks6OD8cizQ1nr0bL/bqtLPA2whUSvaJmDZjkmpC62v90"
            "YU1p99tGOv+ILZTzoIIjcWWn3muDzA7p+zlN50x55ABuxEwQ3TfRA6nM1JF4HamYuHNae5nzbdwuxXpQ4wIDAQABAoGBAJLjbkf11M+d"
            "WkXjjLAE5OAR5YYmDYmAAnycRaKMpCtc+JIoFQlBJFI0pm1eppY8fVyMuDEUnVqaSYS8Yj2a95zD84hr0SzNFf5wSbffEcLIsmw7I18M"
            "xq/YMrmyoGwizMnhV/IVPKh40xctPl2cIpg9AdBLYgnc/sO8oBr5k+uRAkEA8B4jeVq4IYv/b/kPzWiav/9weFMqKZdDh0O7ashbRe4b"
            "6CaHI2+XxX4uop9bFCTXsq73yCL7gqpUAkzCPGWvmwJBAMsHqQQjKn7KlPezZsYL4FY2IkqKuq2x6vFWhMPfXl6y66Ya6/uOof5kJUlo"
            "lVcbvAEq4kLAk7nWi9RzWux/DFkCQHk1HX8StkPo4YZqWPm9RfCJRwLWKEBaZPIQ1LhwbvJ74YZsfGb828YLjgr1GgqvFlrSS62xSviI"
            "dmO6z4mhYuUCQAK9E7aOkuAq819z+Arr1hbTnBrNTD9Tiwu+UwQhWzCD0VHoQw6dmenIiAg5dOo74YlSfsLPvi5fintPIwbVn+ECQCh6"
            "PEvaTP+fsPTyaRPOftCPqgLZbfzGnmt3ZJh1EB606X5Sz7FXRbQ8G5kmBy7opEoT4vsLMWGI+uq5WCXiuqY=")
    assert rsa_from_blob(blob).service_id == "n7vc7sxqwqrm3vwo"; n += 1
    e = KEYS.ed(0)
    assert len(e.service_id) == 56 and ed_from_blob(e.blob).service_id == e.service_id; n += 1
    t = OnionTor()
    t.authenticated = True
    t.subscribed = {"HS_DESC"}
    code, parts = t.dispatch("ADD_ONION NEW:BEST Port=80,127.0.0.1:8080")
    assert code == 250 and parts[0] == ("mid", "ServiceID=" + k.service_id) and parts[1] == ("mid", "PrivateKey=" + k.spec()); n += 1
    code, parts = t.dispatch("ADD_ONION NEW:ED25519-V3 Flags=DiscardPK,Detach Port=80")
    assert code == 250 and parts == [("mid", "ServiceID=" + e.service_id), ("end", "OK")]; n += 1
    assert t.dispatch("GETINFO onions/current")[1][0] == ("data", "onions/current=", [k.service_id]); n += 1
    assert t.dispatch("GETINFO onions/detached")[1][0] == ("data", "onions/detached=", [e.service_id]); n += 1
    assert t.dispatch("ADD_ONION %s Port=80" % k.spec())[0] == 550; n += 1
    assert t.dispatch("ADD_ONION NEW:ED25519-V3 Flags=BasicAuth Port=80 ClientAuth=bob")[0] == 513; n += 1
    assert t.dispatch("ADD_ONION NEW:BEST Flags=BasicAuth Port=80")[0] == 512; n += 1
    assert t.dispatch("ADD_ONION NEW:BEST Flags=NonAnonymous Port=80")[0] == 512; n += 1
    assert t.dispatch("ADD_ONION RSA1024:AAAA Port=80")[0] == 512; n += 1
    code, parts = t.dispatch("ADD_ONION NEW:RSA1024 Flags=BasicAuth Port=80 ClientAuth=bob ClientAuth=al:%s" % client_cookie("x"))
    assert code == 250 and [p for p in parts if p[1].startswith("ClientAuth=")] == [("mid", "ClientAuth=bob:" + client_cookie(KEYS.rsa(1).service_id + "/bob"))]; n += 1
    assert t.dispatch("DEL_ONION " + k.service_id) == OK and t.dispatch("DEL_ONION " + k.service_id)[0] == 552; n += 1
    assert t.dispatch("DEL_ONION " + k.service_id + ".onion")[0] == 512; n += 1
    t.dispatch("DEL_ONION " + KEYS.rsa(1).service_id)
    assert t.dispatch("GETINFO onions/current")[0] == 551; n += 1
    # held reply
    t.hold_next("ADD_ONION")
    assert t.dispatch("ADD_ONION NEW:BEST Port=80") is None and len(t.onions) == 2 and t.outbox == b""; n += 1
    assert t.hs_desc("UPLOAD", "abcdefghijklmnop", 0) and t.outbox.startswith(b"650 HS_DESC UPLOAD abcdefghijklmnop UNKNOWN $"); n += 1
    assert t.release() == 1 and b"250-ServiceID=" in t.outbox; n += 1
    # filesystem services
    root = tempfile.mkdtemp(prefix="vf-oniontor-")
    try:
        d2, d3, da = os.path.join(root, "v2"), os.path.join(root, "v3"), os.path.join(root, "auth")
        t2 = OnionTor()
        t2.authenticated = True
        rep = t2.dispatch('SETCONF HiddenServiceDir=%s HiddenServicePort="80 127.0.0.1:8080" HiddenServiceVersion=2 '
                          'HiddenServiceDir=%s HiddenServicePort="443 unix:/x/y" HiddenServiceVersion=3 '
                          'HiddenServiceDir=%s HiddenServicePort=22 HiddenServiceVersion=2 '
                          'HiddenServiceAuthorizeClient="stealth bob,alice"' % (d2, d3, da))
        assert rep == OK, rep
        s2, s3, sa = t2.fs_services
        assert open(os.path.join(d2, "hostname")).read() == s2.service_id + ".onion\n" and len(s2.service_id) == 16; n += 1
        assert rsa_from_pem(open(os.path.join(d2, "private_key")).read()).service_id == s2.service_id; n += 1
        assert open(os.path.join(d3, "hostname")).read() == s3.service_id + ".onion\n" and len(s3.service_id) == 56; n += 1
        assert open(os.path.join(d3, "hs_ed25519_secret_key"), "rb").read().startswith(ED_SECRET_HDR); n += 1
        hl = open(os.path.join(da, "hostname")).read().splitlines()
        assert len(hl) == 2 and hl[0].endswith("# client: bob") and hl[0].split()[0] != hl[1].split()[0]; n += 1
        assert "client-key" in open(os.path.join(da, "client_keys")).read(); n += 1
        code, parts = t2.dispatch("GETCONF HiddenServiceOptions")
        assert [p[1] for p in parts][:3] == ["HiddenServiceDir=" + d2, "HiddenServicePort=80 127.0.0.1:8080", "HiddenServiceVersion=2"]; n += 1
        # same directory again: same address; a dropped block leaves the files alone
        assert t2.dispatch('SETCONF HiddenServiceDir=%s HiddenServicePort=81 HiddenServiceVersion=2' % d2) == OK
        assert t2.fs_services[0].service_id == s2.service_id and len(t2.fs_services) == 1 and os.path.exists(os.path.join(d3, "hostname")); n += 1
        assert t2.dispatch('SETCONF HiddenServiceDir=%s' % d2)[0] == 513; n += 1
        assert t2.dispatch('SETCONF HiddenServicePort=81')[0] == 513; n += 1
        assert t2.dispatch('SETCONF HiddenServiceDir=%s HiddenServicePort=80 HiddenServiceAuthorizeClient="basic a"' % d3)[0] == 513; n += 1
        assert len(t2.fs_services) == 1; n += 1
    finally:
        shutil.rmtree(root, ignore_errors=True)
    t3 = OnionTor(opaque_caller_keys=True, unlinked_auth_service_ids=True)
    t3.authenticated = True
    code, parts = t3.dispatch("ADD_ONION RSA1024:SARA1024AAAA Port=80")
    assert code == 250 and len(parts[0][1]) == len("ServiceID=") + 16 and len(parts) == 2; n += 1
    code, parts = t3.dispatch("ADD_ONION NEW:RSA1024 Flags=BasicAuth Port=80 ClientAuth=bob")
    r3 = list(t3.onions.values())[-1]
    assert code == 250 and r3.unlinked and parts[0][1] == "ServiceID=" + r3.service_id != "ServiceID=" + r3.key.service_id; n += 1
    assert t3.hs_address(r3) == r3.key.service_id and t3.dispatch("DEL_ONION " + r3.key.service_id)[0] == 552; n += 1
    assert t3.dispatch("DEL_ONION " + r3.service_id) == OK; n += 1
    r = PortReactor()
    p = r.listenTCP(0, None, interface="127.0.0.1")
    assert p.getHost().port == 40001 and r.open_ports() == [p]
    p.stopListening()
    assert r.open_ports() == []; n += 1
    return n
