"""Session engine for the control-protocol layer (C01, C02, C03, C12, C13).

A *session* drives one real ``txtorcon.TorControlProtocol`` over a recording
transport against a **causal scripted server**: the n-th scripted reply becomes
deliverable only once the n-th command line has been written completely; events
are spliced between replies.  The harness owns the schedule: how the deliverable
bytes are cut into chunks, when each command is submitted (before any byte,
after N delivered bytes, or re-entrantly from another command's callback /
per-line callback / an event listener), and where the connection is cut.

Nothing here judges; it records.  Oracles live in the property modules.
"""
from twisted.internet import defer
from twisted.internet.error import ConnectionDone, ConnectionLost
from twisted.python import failure

from . import audit, wire
from .refs import reply as R

BOOT_EVENTS = ("CIRC STREAM ORCONN BW DEBUG INFO NOTICE WARN ERR NEWDESC ADDRMAP "
               "AUTHDIR_NEWDESCS DESCCHANGED NS STATUS_GENERAL STATUS_CLIENT STATUS_SERVER "
               "GUARD STREAM_BW CLIENTS_SEEN NEWCONSENSUS BUILDTIMEOUT_SET SIGNAL CONF_CHANGED "
               "HS_DESC HS_DESC_CONTENT NETWORK_LIVENESS CIRC_MINOR TRANSPORT_LAUNCHED CONN_BW "
               "CIRC_BW CELL_STATS TB_EMPTY")

BOOT_SCRIPT = [
    ("PROTOCOLINFO", 250, [("mid", "PROTOCOLINFO 1"), ("mid", "AUTH METHODS=NULL"),
                           ("mid", 'VERSION Tor="0.4.8.12"'), ("end", "OK")]),
    ("AUTHENTICATE", 250, [("end", "OK")]),
    ("GETINFO signal/names", 250, [("mid", "signal/names=RELOAD HUP SHUTDOWN DUMP USR1 DEBUG USR2 HALT TERM INT NEWNYM CLEARDNSCACHE HEARTBEAT ACTIVE DORMANT"), ("end", "OK")]),
    ("GETINFO version", 250, [("mid", "version=0.4.8.12"), ("end", "OK")]),
    ("GETINFO events/names", 250, [("mid", "events/names=" + BOOT_EVENTS), ("end", "OK")]),
    ("USEFEATURE", 250, [("end", "OK")]),
]


class CmdRec(object):
    """what was observed for one submitted command"""
    def __init__(self, idx, spec):
        self.idx = idx
        self.spec = spec
        self.submitted_t = None
        self.submit_exc = None
        self.outcome = None          # audit.Outcome
        self.lines = []              # per-line callback arguments
        self.deferred = None         # the Deferred the API returned
        self.cancelled = False       # the harness called .cancel() on it (caller-side timeout)
        self.fired_chunk = None      # index of the delivery chunk during which it fired
        self.fired_stage = None      # 'submit' | 'deliver' | 'loss' | ...
        self.occ = 0                 # number of earlier submissions with the same command text
        self.line_chunks = []
        self.refused = False         # the API refused the text synchronously (spec "may_refuse")


class Session(object):
    """
    commands: list of dicts
        {"cmd": str, "perline": bool, "reply": (code, parts) | None,
         "when": ("start",) | ("bytes", n) | ("fire", i) | ("line", i, k) | ("event", j) | ("postloss", ...)}
    events: list of dicts
        {"after": k (deliverable after reply k; -1 = at once), "bytes": b"...", "name":..., ...}
    """

    def __init__(self, commands, events=(), chunking=(1 << 30,), boot=True,
                 password_function=None, proto=None, cuts=None, boot_in_run=False):
        from txtorcon import TorControlProtocol
        self.clock = wire.LClock()
        self.aud = audit.Auditor(self.clock)
        self.transport = wire.RecTransport(self.clock, sink=self._server_rx)
        self.proto = proto if proto is not None else TorControlProtocol(password_function)
        self.commands = [CmdRec(i, c) for i, c in enumerate(commands)]
        self.events = list(events)
        self.chunking = list(chunking) or [1 << 30]
        self.cuts = sorted(set(cuts)) if cuts is not None else None   # absolute post-boot offsets
        self.chunks = []                # (start, end) absolute offsets of every delivered chunk
        self.boot = boot
        self.boot_in_run = boot_in_run  # deliver the bootstrap bytes under the schedule too (C03)
        # server state
        self._rx = b""
        self.server_lines = []          # complete command lines received (bytes, no CRLF)
        self.script = []                # boot replies, by position
        self.replies = {}               # command line (bytes) -> [(code, parts), ...] in submission order
        self.served = {}                # command line (bytes) -> how many of them were answered
        self.reply_for_line = []        # what the server answered, in order
        self.items = []                 # stream items in order: (kind, index, n_lines)
        self.reply_ends = []            # absolute stream offset at which reply n ends
        self.out = b""                  # whole server stream produced so far
        self.delivered = 0              # bytes of self.out delivered
        self.chunk_no = -1
        self.stage = "init"
        self.exceptions = []            # (stage, chunk_no, repr)
        self.submit_order = []          # indices in submission order
        self.submitted_texts = []       # command texts (bytes) in submission order
        self.write_checks = []          # (k, replies_completed_at_write)
        self.boot_writes = 0
        self.lost = False
        self.pending_when = list(self.commands)
        self.event_hooks = {}           # event index -> callable run inside listener
        self.post_boot_offset = 0
        self.log = audit.LogCapture()
        self.trace = []                 # (kind, ...) coarse interleaving signature
        self._n_boot = 0
        self.unscripted = 0
        self.boot_failed = False

    # ------------------------------------------------------------------ server
    def _server_rx(self, data):
        self._rx += data
        while b"\r\n" in self._rx:
            line, self._rx = self._rx.split(b"\r\n", 1)
            n = len(self.server_lines)
            self.server_lines.append(line)
            # oracle input: how many replies had been completely delivered when
            # command n hit the wire
            done = sum(1 for e in self.reply_ends if e <= self.delivered)
            self.write_checks.append((n, done, len(self.reply_ends)))
            self._produce_reply(n, line)

    def _produce_reply(self, n, line):
        rep = None
        q = self.replies.get(line)
        if q is not None:
            k = self.served.get(line, 0)
            if k < len(q):
                # the protocol issues FIFO: the k-th arrival of a text belongs to its k-th submission
                rep = q[k]
                self.served[line] = k + 1
        if rep is None and n < self._n_boot:
            rep = self.script[n]
        if rep is None:
            # a line the script has no reply for (e.g. SETEVENTS issued by the
            # protocol itself): answer 250 OK like Tor would
            self.unscripted += 1
            rep = (250, [("end", "OK")])
            if line.startswith(b"SETEVENTS") and n >= self._n_boot:
                k = self.setevents_seen = getattr(self, "setevents_seen", 0) + 1
                if k in getattr(self, "refuse_setevents", ()):
                    # Tor (or a control-port filter) refuses this subscription change
                    rep = (552, [("end", "Unrecognized event \"X\"")])
                    self.setevents_refused = getattr(self, "setevents_refused", 0) + 1
        code, parts = rep
        enc = R.encode(code, parts)
        self.out += enc
        self.items.append(("reply", n, enc.count(b"\r\n")))
        self.reply_ends.append(len(self.out))
        self.reply_for_line.append((line, code, parts))
        k = n - self._n_boot
        for j, ev in enumerate(self.events):
            if ev.get("after") == k and not ev.get("_queued"):
                self._queue_event(j, ev)

    def _queue_event(self, j, ev):
        ev["_queued"] = True
        ev["_start"] = len(self.out)
        self.out += ev["bytes"]
        ev["_end"] = len(self.out)
        self.items.append(("event", j, ev["bytes"].count(b"\r\n")))

    # ------------------------------------------------------------------ driving
    def start(self):
        """connect + bootstrap against the canned NULL-auth script"""
        self.log.start()
        if self.boot:
            self.script = [(c, p) for (_, c, p) in BOOT_SCRIPT]
            self._n_boot = len(self.script)
        self.stage = "boot"
        try:
            self.proto.makeConnection(self.transport)
        except Exception as e:
            self.exceptions.append(("boot", -1, repr(e)))
            self.boot_failed = True
        if self.boot and self.boot_in_run:
            pass
        elif self.boot:
            self._pump_all()
            self.boot_writes = len(self.transport.writes)
            if not self.proto.post_bootstrap.called:
                # the protocol's own bootstrap commands got well-formed replies and
                # still did not complete: reported by the property modules
                self.boot_failed = True
        self.post_boot_offset = 0 if self.boot_in_run else len(self.out)
        self.post_boot_rx = len(self.server_lines)
        for j, ev in enumerate(self.events):
            if ev.get("after") == -1:
                self._queue_event(j, ev)
        self.stage = "run"

    def _pump_all(self):
        while self.delivered < len(self.out):
            data = self.out[self.delivered:]
            self.delivered = len(self.out)
            try:
                self.proto.dataReceived(data)
            except Exception as e:
                self.exceptions.append(("boot", -1, repr(e)))
                self.boot_failed = True
                return

    def submit(self, rec, stage=None):
        """submit one command through the public API"""
        spec = rec.spec
        self.submit_order.append(rec.idx)
        c = spec["cmd"]
        cb = c if isinstance(c, bytes) else c.encode("utf-8")      # == ascii for every ASCII text
        rec.occ = self.submitted_texts.count(cb)
        self.submitted_texts.append(cb)
        if spec.get("reply") is not None:
            self.set_reply(cb, tuple(spec["reply"]), append=True)
        rec.submitted_t = self.clock.tick()
        self.trace.append(("S", rec.idx, stage or self.stage))
        try:
            if spec.get("api") == "incremental":
                # public per-line API: GETINFO <key> with a line callback
                assert spec["cmd"].startswith("GETINFO ")
                d = self.proto.get_info_incremental(spec["cmd"][8:], lambda l, rec=rec: self._line(rec, l))
            elif spec.get("api") == "quit":
                assert spec["cmd"] == "QUIT"
                d = self.proto.quit()
            elif spec.get("api") == "signal":
                assert spec["cmd"].startswith("SIGNAL ")
                d = self.proto.signal(spec["cmd"][7:])
            elif spec.get("perline"):
                d = self.proto.queue_command(spec["cmd"], lambda l, rec=rec: self._line(rec, l))
            else:
                d = self.proto.queue_command(spec["cmd"])
        except Exception as e:
            rec.submit_exc = e
            if spec.get("may_refuse") and isinstance(e, UnicodeError):
                # a text the API may legitimately refuse synchronously (e.g. non-ASCII): the
                # property module judges that nothing was left behind
                rec.refused = True
                return
            self.exceptions.append(("submit", self.chunk_no, repr(e)))
            return
        rec.deferred = d
        if spec.get("late_watch"):
            # the caller keeps the Deferred and only looks at it later: nothing is attached now
            return
        rec.outcome = self.aud.watch(d, "cmd%d" % rec.idx)
        d.addBoth(lambda _, rec=rec: self._fired(rec))

    def set_reply(self, line, reply, append=False):
        """script the reply to a command text (append: one more submission of the same text)"""
        if append:
            self.replies.setdefault(line, []).append(reply)
        else:
            self.replies[line] = [reply]
            self.served.pop(line, None)

    def _line(self, rec, line):
        rec.lines.append(line)
        rec.line_chunks.append(self.chunk_no)
        k = len(rec.lines) - 1
        for other in list(self.pending_when):
            w = other.spec.get("when", ("start",))
            if w[0] == "line" and w[1] == rec.idx and w[2] == k:
                self.pending_when.remove(other)
                self.submit(other, "linecb")
        return rec.spec.get("cb_ret")       # what the application's line callback returns (None unless asked)

    def _fired(self, rec):
        if rec.fired_chunk is None:
            rec.fired_chunk = self.chunk_no
            rec.fired_stage = self.stage
        self.trace.append(("F", rec.idx, self.stage))
        chained = None
        for other in list(self.pending_when):
            w = other.spec.get("when", ("start",))
            if w[0] == "fire" and w[1] == rec.idx:
                self.pending_when.remove(other)
                self.submit(other, "callback")
                if other.spec.get("chain") and chained is None and other.deferred is not None \
                        and not other.spec.get("late_watch"):
                    chained = other.deferred
        # d.addCallback(lambda _: proto.queue_command(...)): the callback hands the new command's
        # Deferred back, so this command's own callback chain pauses until that one is answered
        return chained

    def submit_due(self):
        for other in list(self.pending_when):
            w = tuple(other.spec.get("when", ("start",)))
            if w[0] == "start" or (w[0] == "bytes" and (self.delivered - self.post_boot_offset) >= w[1]):
                self.pending_when.remove(other)
                self.submit(other)

    def run(self, cut_at=None, reason=None, max_chunks=100000):
        """deliver everything deliverable, chunk by chunk, submitting commands when
        due; optionally cut the connection once `cut_at` post-boot bytes were delivered."""
        self.submit_due()
        ci = 0
        guard = 0
        while True:
            guard += 1
            if self.lost:
                break       # the connection went away re-entrantly (from inside a callback)
            if guard > max_chunks:
                self.exceptions.append(("harness", self.chunk_no, "chunk limit"))
                break
            avail = len(self.out) - self.delivered
            if cut_at is not None:
                left = cut_at - (self.delivered - self.post_boot_offset)
                if left <= 0:
                    self.lose(reason)
                    break
                avail = min(avail, left)
            if avail <= 0:
                # nothing deliverable: a byte-triggered submission whose threshold
                # cannot be reached any more is submitted now (smallest first)
                stalled = [o for o in self.pending_when
                           if tuple(o.spec.get("when", ("start",)))[0] == "bytes"]
                if not stalled:
                    if cut_at is not None and not self.lost:
                        self.lose(reason)
                    break
                nxt = min(stalled, key=lambda o: o.spec["when"][1])
                self.pending_when.remove(nxt)
                self.submit(nxt, "stall")
                continue
            if self.cuts is not None:
                pos = self.delivered - self.post_boot_offset
                nxt = [c for c in self.cuts if c > pos]
                size = (nxt[0] - pos) if nxt else (1 << 30)
            else:
                size = self.chunking[ci % len(self.chunking)]
                ci += 1
            n = max(1, min(size, avail))
            data = self.out[self.delivered:self.delivered + n]
            self.chunks.append((self.delivered, self.delivered + n))
            self.delivered += n
            self.chunk_no += 1
            self.trace.append(("D", n))
            try:
                self.proto.dataReceived(data)
            except Exception as e:
                self.exceptions.append(("deliver", self.chunk_no, repr(e)))
            self.submit_due()

    def lose(self, reason=None):
        if reason is None:
            reason = failure.Failure(ConnectionDone())
        elif reason == "lost":
            reason = failure.Failure(ConnectionLost())
        elif isinstance(reason, str):
            reason = failure.Failure(RuntimeError(reason))
        self.stage = "loss"
        self.transport.lost = True
        self.lost = True
        self.chunk_no += 1
        self.trace.append(("X",))
        try:
            self.proto.connectionLost(reason)
        except Exception as e:
            self.exceptions.append(("loss", self.chunk_no, repr(e)))
        self.stage = "postloss"

    def watch_late(self):
        """attach the auditor to the Deferreds nobody has looked at so far"""
        for r in self.commands:
            if r.outcome is None and r.deferred is not None:
                r.outcome = self.aud.watch(r.deferred, "cmd%d(late)" % r.idx)

    def finish(self):
        self.log.stop()

    # ------------------------------------------------------------------ views
    def post_boot_writes(self):
        return self.transport.writes[self.boot_writes:]

    def line_index(self, cmd, occ=0):
        """position (in arrival order at the server) of the occ-th arrival of command line `cmd`, or None"""
        b = cmd if isinstance(cmd, bytes) else cmd.encode("utf-8")
        for i, l in enumerate(self.server_lines):
            if l == b:
                if occ == 0:
                    return i
                occ -= 1
        return None

    def reply_end_chunk(self, line_idx):
        """index of the delivered chunk that contained the last byte of the reply to
        the line_idx-th received command line (None if not delivered completely)"""
        if line_idx is None or line_idx >= len(self.reply_ends):
            return None
        e = self.reply_ends[line_idx]
        for i, (a, b) in enumerate(self.chunks):
            if a < e <= b:
                return i
        return None
