"""Deferred auditor, log capture and exception attribution."""
from twisted.internet import defer
from twisted.python import failure, log


class Outcome(object):
    __slots__ = ("label", "fired", "ok", "value", "t", "extra")

    def __init__(self, label):
        self.label = label
        self.fired = 0
        self.ok = None
        self.value = None
        self.t = None
        self.extra = None

    def describe(self):
        if not self.fired:
            return "pending"
        if self.ok:
            return ("ok", self.value)
        return ("err", type(self.value).__name__, str(self.value))


class Auditor(object):
    """every Deferred the API returns is registered here"""
    def __init__(self, clock):
        self.clock = clock
        self.outcomes = []

    def watch(self, d, label):
        o = Outcome(label)
        self.outcomes.append(o)
        if not isinstance(d, defer.Deferred):
            o.fired = 1
            o.ok = True
            o.value = d
            o.t = self.clock.tick()
            o.extra = "not-a-deferred"
            return o

        def _both(res, o=o):
            o.fired += 1
            o.t = self.clock.tick()
            if isinstance(res, failure.Failure):
                o.ok = False
                o.value = res.value
            else:
                o.ok = True
                o.value = res
            return None      # consume: no "Unhandled error in Deferred" noise
        d.addBoth(_both)
        return o

    def pending(self):
        return [o for o in self.outcomes if not o.fired]


class LogCapture(object):
    """captures twisted log errors (log.err) so they can be attributed to a step"""
    def __init__(self):
        self.errors = []
        self._on = False

    def _obs(self, ev):
        if ev.get("isError"):
            f = ev.get("failure")
            if f is not None:
                self.errors.append((type(f.value).__name__, str(f.value)))
            else:
                self.errors.append(("log.err", " ".join(str(m) for m in ev.get("message", ()))))

    def start(self):
        if not self._on:
            log.addObserver(self._obs)
            self._on = True

    def stop(self):
        if self._on:
            log.removeObserver(self._obs)
            self._on = False

    def take(self):
        e, self.errors = self.errors, []
        return e


def guarded(fn, *a, **kw):
    """call fn; return (result, None) or (None, exception)"""
    try:
        return fn(*a, **kw), None
    except Exception as e:    # noqa
        return None, e
