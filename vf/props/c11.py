"""C11 - the config view equals Tor's configuration, with stable types, across CONF_CHANGED.

Monitor: the real ``TorConfig.from_protocol`` over the real ``TorControlProtocol`` attached to
``vf.faketor.conftor.ConfTor``.  After bootstrap, after every ``650-CONF_CHANGED`` event (changes
made by "another controller" on the fake Tor's config store, announced the way Tor does) and
after every local read-edit-save cycle, every option of the table is read through attribute
access (any-case names) and compared with the reference parse (``conftor.read_matches``) of what
the store holds; list-valued options named by an event are probed for tracking (append =>
``needs_save()`` => the next save delivers the old elements plus the new one to the store);
``socks_endpoint()`` is compared with the first SOCKSPort entry.  See DESIGN.md section 2 / C11.
"""
from .. import audit, gen
from ..refs import kvline
from ..faketor import conftor as CT

PROPERTY = "C11"
READY = True
LEVEL = "exploration"
TECHNIQUE = ("runtime monitoring: attribute-read / transport recorders on the real TorConfig + reference per-type "
             "parse of the simulated Tor config store, generated option tables and CONF_CHANGED / read-edit-save histories")
LEVEL_TEXT = ("Held on the executions observed: thousands (quick) to tens of thousands (thorough) of generated option tables "
              "(every declared type x unset/empty/single/multi values x defaults none/single/multi x config/defaults "
              "supported or not) each followed by a history of CONF_CHANGED events (0/1/many values per option) and "
              "read-edit-save cycles; every option was read and compared with the reference after bootstrap and after every "
              "event and save, and list options named by events were probed for mutation tracking. Sampling; not a proof.")
LEVEL_NOTE = ("Trusted: ConfTor (GETCONF / config/names / config/defaults / CONF_CHANGED rendering per type as Tor does), "
              "conftor.read_matches (reference parse per declared type), vf.refs.kvline for the probe saves.")
RULE = ("a case = one option table x config/defaults supported or not x echo of own SETCONF on or off x a history of <= 10 "
        "steps (CONF_CHANGED event over 1-4 options with reset/single/multi values; read-append-save cycle on a list option; "
        "assign-save on a scalar). Distinct = hash of the case. Non-trivial = bootstrap completed and every option was "
        "compared with the reference at least once.")
ASSUMPTIONS = [
    "'unset' (bare '250 Key') is generated only for string-like, line-list and *Port options; comma lists answer 'Key=' "
    "when empty; booleans/integers/floats always have a value (DESIGN C11 L)",
    "an unset scalar with no default known may read as the DEFAULT marker, None or ''; empty-string items of a comma "
    "list are ignored (an empty comma list may read [] or ['']); an unset list option with no default known reads []",
    "TimeMsecInterval and Time (no parser declared in txtorcon) are compared as text",
    "a *PortLines family (FooPortLines / FooPort / __FooPort) is judged as the one option FooPort; __FooPort is set only "
    "in the tagged tables where FooPort is unset and has no default known: FooPort may then read [] or __FooPort's entries "
    "(the statement does not say), but must read the same whether or not the application read it while attaching; "
    "'auto' and '0' are not generated as port entries; no IPv6 / bracketed addresses",
    "values never need C-escapes or quoting in replies/events (C12/C13's subject)",
    "comma lists after a local save are judged on the wire form only: the fake Tor takes 'K=a K=b' as 'a,b'",
    "CONF_CHANGED names each changed option once, in config/names order, one line per value; the tagged class "
    "'case-variant' spells the option name in another case than config/names (Tor itself does not)",
    "socks_endpoint() is judged only when Tor holds at least one SOCKSPort entry",
    "tagged class 'reset of an always-valued type': CONF_CHANGED may name a Boolean/Integer/Float/... option by its bare "
    "keyword (Tor itself always prints a value for those); the read must then be the parsed config/defaults entry, or the "
    "DEFAULT marker when none is known",
    "class 'save x event': a local edit + save() that Tor accepts or rejects (513/552), with a CONF_CHANGED from another "
    "controller for the same option after the answer or while the SETCONF is in flight (in flight + accepted only with the "
    "echo on, as Tor does); reads must equal what Tor holds once both have been delivered; reads after a rejection that no "
    "event followed are not judged; the rejected change is then replaced by an accepted one",
    "class 'read-before-attach-finished': the object is built with TorConfig(proto) (what from_protocol() does) or as a "
    "detached TorConfig() that is attach_protocol()'d, and options are read under any spelling before / while it attaches "
    "(any outcome accepted then); after the attach every spelling must resolve",
    "step 'alias': one list option is assigned the object read from another list option of the same kind and saved; both "
    "must then behave as independent tracked lists (probes on either, also after a CONF_CHANGED for the source)",
    "step 'held_edit': the application keeps the list object it read, edits it (pending), a CONF_CHANGED names the option "
    "(reporting the pending value itself, or another one), and the application edits the same object again: that object "
    "is the pending value, so the next save must carry all its elements; editing a list object that is NOT pending after "
    "an event replaced the view is left open by the statement and not generated",
    "class 'during-attach': CONF_CHANGED events are delivered between the GETCONF round trips of the attach (before or "
    "after the reply of the k-th GETCONF), for options already fetched and not yet fetched; the finished view is compared "
    "with what Tor holds then",
]
TRUSTED_BASE = ["vf.faketor.conftor.ConfTor", "vf.faketor.conftor.read_matches / ref_read", "vf.refs.kvline", "vf.refs.reply"]
ANCHORS = [
    "txtorcon.torconfig:TorConfig.bootstrap",
    "txtorcon.torconfig:TorConfig._do_setup",
    "txtorcon.torconfig:TorConfig._get_defaults",
    "txtorcon.torconfig:TorConfig._conf_changed",
    "txtorcon.torconfig:TorConfig._find_real_name",
    "txtorcon.torconfig:TorConfig.__getattr__",
    "txtorcon.torconfig:TorConfig.socks_endpoint",
    "txtorcon.torconfig:Boolean.parse",
    "txtorcon.torconfig:Boolean_Auto.parse",
    "txtorcon.torconfig:Integer.parse",
    "txtorcon.torconfig:Float.parse",
    "txtorcon.torconfig:CommaList.parse",
    "txtorcon.torconfig:LineList.parse",
    "txtorcon.torcontrolprotocol:parse_keywords",
]
FLOORS = {
    "quick": {"evaluations": 300, "bootstrap_reads_compared": 5000, "events_delivered": 300, "event_reads_compared": 4000,
              "tracking_probes": 250, "name_lookups_compared": 10000, "socks_endpoint_checks": 600,
              "attach_events_delivered": 100, "early_probe_reads": 300, "reads_compared_with_unprobed_attach": 1000, "events_after_rejected_save": 60, "events_after_accepted_save": 30,
              "assigned_from_other_option": 30, "held_object_edits": 40,
              "reach:txtorcon.torconfig:TorConfig._conf_changed": 400,
              "reach:txtorcon.torconfig:TorConfig._do_setup": 300,
              "reach:txtorcon.torconfig:TorConfig._get_defaults": 300},
    "thorough": {"evaluations": 5000, "bootstrap_reads_compared": 80000, "events_delivered": 4000,
                 "event_reads_compared": 60000, "tracking_probes": 3500, "name_lookups_compared": 150000,
                 "socks_endpoint_checks": 8000, "attach_events_delivered": 1500, "events_after_rejected_save": 1000, "reach:txtorcon.torconfig:TorConfig._conf_changed": 5000},
}


def klass(o):
    k = CT.kind_of(o["type"])
    return k if k != "scalar" else "scalar:" + o["type"]


def count_class(o, vals):
    if CT.kind_of(o["type"]) == "commalist":
        if not vals or vals[-1] == "":
            return "empty"
        inner = any(len(x.split()) > 1 for x in vals[-1].split(","))
        return ("multi-item" if "," in vals[-1] else "single-item") + ("+entry-with-inner-blank" if inner else "")
    return "reset" if not vals else ("single" if len(vals) == 1 else "multi")


def boot_class(o, no_defaults):
    parts = [klass(o)]
    c = count_class(o, o["init"])
    parts.append("unset" if c == "reset" else c)
    if c == "reset":
        d = None if no_defaults else o["default"]
        parts.append("no-default" if not d else ("single-default" if len(d) == 1 else "multi-default"))
    return "+".join(parts)


def socks_class(entry):
    if entry.startswith("unix:"):
        return "unix"
    first = entry.split()[0]
    return ("host-port" if ":" in first else "port") + ("+flags" if " " in entry else "")


# ---------------------------------------------------------------------------
# generation

def clean_table(rnd, **kw):
    """shapes the unchanged tree bootstraps correctly (so that histories get explored)"""
    table = CT.gen_table(rnd, **kw)
    for o in table:
        if o["type"] == CT.PORTLINES and len(o["init"]) != 1:
            o["init"] = (o["init"] or CT.gen_values(rnd, CT.PORTLINES, "single"))[:1]
        if o["type"] in (CT.PORTLINES, CT.LINELIST) and o["default"] is not None and len(o["default"]) < 2:
            o["default"] = None
    return table


def gen_event(rnd, table, valued_reset=True):
    n = rnd.choice([1, 1, 2, 2, 3, 4])
    opts = rnd.sample(table, min(n, len(table)))
    items = []
    spell = {}
    for o in opts:
        typ = o["type"]
        shape = rnd.choice(["unset", "single", "multi", "multi"])
        vals = CT.gen_values(rnd, typ, shape)
        if valued_reset and shape == "unset" and CT.kind_of(typ) == "scalar" and typ not in CT.STR_TYPES \
                and rnd.random() < 0.6:
            # tagged class "reset of an always-valued type": the option is announced with its bare keyword
            # (DESIGN C11 L keeps this out of GETCONF; the statement's "zero values" covers it for events)
            vals = []
        if not vals:
            items.append([o["name"], None])
        else:
            for v in vals:
                items.append([o["name"], v])
        if rnd.random() < 0.15:
            # tagged class: Tor itself always uses the config/names spelling (list options included: the
            # tracked list created for the event must still work under the option's real name)
            spell[o["name"]] = rnd.choice([o["name"].lower(), o["name"].upper()])
    return {"op": "event", "items": items, "spell": spell}


def gen_probe_value(rnd, o, i):
    k = CT.kind_of(o["type"])
    if k == "portlist":
        return str(20000 + i)
    if k == "commalist":
        return rnd.choice(CT.NICKS if o["type"] == "RouterList" else CT.PORTS_CSV + CT.INTERVALS_CSV)
    return "%s #%d" % (CT.gen_line(rnd), i)


def natural(typ, raw):
    """the Python value a user would assign to get Tor's `raw`"""
    if typ == CT.BOOL:
        return raw != "0"
    if typ == CT.BOOLAUTO:
        return -1 if raw == "auto" else int(raw)
    if typ in CT.INT_TYPES:
        return int(raw)
    if typ == "Float":
        return float(raw)
    return raw


def list_value(rnd, o, shape):
    """a whole-list value a user would assign to a list option"""
    vals = CT.gen_values(rnd, o["type"], shape)
    if CT.kind_of(o["type"]) == "commalist":
        return [x.strip() for x in vals[0].split(",")] if vals else ["80"]
    return vals or [gen_probe_value(rnd, o, 7)]


def gen_save_event(rnd, table, echo, i):
    """a local edit + save() that Tor accepts or rejects, and a CONF_CHANGED from another controller for
    the same option after the answer or while the SETCONF is in flight; after a rejection the local
    change is replaced by an accepted one"""
    o = rnd.choice(table)
    typ = o["type"]
    st = {"op": "save_event", "opt": o["name"], "name": CT.anycase(rnd, o["name"])}
    if not CT.is_listy(typ):
        st["edit"], st["value"] = "assign", natural(typ, CT.gen_scalar_raw(rnd, typ))
    elif rnd.random() < 0.6:
        st["edit"], st["value"] = "append", gen_probe_value(rnd, o, i)
    else:
        st["edit"], st["value"] = "assign", list_value(rnd, o, rnd.choice(["single", "multi"]))
    st["reply"] = rnd.choice(["ok", "ok", 513, 513, 552])
    if st["reply"] != "ok":
        st["when"] = rnd.choice(["after", "after", "inflight"])
    else:
        st["when"] = rnd.choice(["after", "after", "after", "inflight" if echo else "after", None])
    vals = CT.gen_values(rnd, typ, rnd.choice(["unset", "single", "multi", "multi"]))
    st["items"] = [[o["name"], v] for v in vals] or [[o["name"], None]]
    if rnd.random() < 0.3:
        st["items"] += [it for it in gen_event(rnd, table, valued_reset=False)["items"] if it[0] != o["name"]]
    if st["reply"] != "ok":
        st["resolve"] = natural(typ, CT.gen_scalar_raw(rnd, typ)) if not CT.is_listy(typ) \
            else list_value(rnd, o, rnd.choice(["single", "multi"]))
    return st


def gen_alias(rnd, table, i):
    """X = cfg.Y for two list options of the same kind: afterwards both must stay independent, tracked lists"""
    rnd = gen.rnd_for("alias", i, repr(sorted(o["name"] for o in table)), rnd.random() if False else 0)
    by = {}
    for o in table:
        if CT.is_listy(o["type"]):
            by.setdefault(CT.kind_of(o["type"]), []).append(o)
    kinds = [k for k, v in by.items() if len(v) >= 2]
    if not kinds:
        return None
    x, y = rnd.sample(by[rnd.choice(sorted(kinds))], 2)
    return {"op": "alias", "dst": x["name"], "dst_name": CT.anycase(rnd, x["name"]),
            "src": y["name"], "src_name": CT.anycase(rnd, y["name"]),
            "order": rnd.choice([["dst"], ["dst", "src"], ["src", "dst"], ["dst", "event-src", "dst"]]),
            "values": [gen_probe_value(rnd, x, 500 + i), gen_probe_value(rnd, y, 501 + i), gen_probe_value(rnd, x, 502 + i)],
            "items": [[y["name"], v] for v in CT.gen_values(rnd, y["type"], rnd.choice(["single", "multi"]))]}


def gen_case(rnd, mode):
    if mode in ("boot", "attach"):
        table = CT.gen_table(rnd, every_type=rnd.random() < 0.7)
        nsteps = rnd.choice([0, 1, 2, 3])
    else:
        table = clean_table(rnd, every_type=rnd.random() < 0.5)
        nsteps = rnd.choice([2, 3, 4, 6, 8, 10])
    case = {"mode": mode, "table": table, "no_defaults": rnd.random() < 0.25, "echo": rnd.random() < 0.5,
            "spell": {o["name"]: CT.anycase(rnd, o["name"]) for o in table}, "steps": []}
    if mode == "attach" or rnd.random() < 0.15:
        # another controller changes options while the attach is fetching them (one GETCONF round trip each)
        nget = len(table)
        case["attach_events"] = []
        for at in sorted(rnd.sample(range(nget), min(nget, rnd.choice([1, 1, 2, 3])))):
            ev = gen_event(rnd, table, valued_reset=False)     # GETCONF must stay answerable per type afterwards
            case["attach_events"].append({"at": at, "when": rnd.choice(["before-reply", "after-reply"]),
                                          "items": ev["items"]})
        ports = [i for i, o in enumerate(table) if o["type"] == CT.PORTLINES]
        if rnd.random() < 0.35:
            # aimed at the option whose GETCONF was just answered (a *Port fetch may need a second round trip)
            i = rnd.choice(ports)
            vals = CT.gen_values(rnd, CT.PORTLINES, rnd.choice(["single", "multi"]))
            case["attach_events"] = [e for e in case["attach_events"] if e["at"] != i] + \
                [{"at": i, "when": "after-reply", "items": [[table[i]["name"], v] for v in vals]}]
            case["attach_events"].sort(key=lambda e: e["at"])
    for o in table:
        if o["type"] == CT.PORTLINES and not o["init"] and (case["no_defaults"] or not o["default"]) \
                and mode != "events" and rnd.random() < 0.3:
            o["hidden"] = CT.gen_values(rnd, CT.PORTLINES, "single")      # __FooPort is set, FooPort is not
    if mode == "attach" or rnd.random() < 0.2:
        # the application reads options (any spelling) from the object before / while it attaches
        opts = rnd.sample(table, min(len(table), rnd.choice([1, 2, 3, 5, len(table)])))
        opts += [o for o in table if o["type"] == CT.PORTLINES and o not in opts and rnd.random() < 0.7]
        case["probe"] = {"route": rnd.choice(["ctor", "ctor", "attach_protocol"]),
                         "spellings": {o["name"]: rnd.sample([o["name"], o["name"].lower(), o["name"].upper(),
                                                              case["spell"][o["name"]]], rnd.choice([1, 2, 3]))
                                       for o in opts},
                         "phases": rnd.choice([["constructed"], ["attaching"], ["constructed", "attaching"]])}
    listy = [o for o in table if CT.is_listy(o["type"])]
    scalars = [o for o in table if not CT.is_listy(o["type"])]
    for i in range(nsteps):
        r = rnd.random()
        if r < 0.45:
            case["steps"].append(gen_event(rnd, table))
        elif r < 0.58:
            case["steps"].append(gen_save_event(rnd, table, case["echo"], 200 + i))
        elif r < 0.66 and gen_alias(rnd, table, 300 + i):
            case["steps"].append(gen_alias(rnd, table, 300 + i))
        elif r < 0.75 and listy:
            # the application keeps the list it read, edits it, a CONF_CHANGED names the option, it edits the
            # same object again and saves
            o = rnd.choice(listy)
            st = {"op": "held_edit", "opt": o["name"], "name": CT.anycase(rnd, o["name"]),
                  "first": gen_probe_value(rnd, o, 400 + 2 * i), "second": gen_probe_value(rnd, o, 401 + 2 * i),
                  "event": rnd.choice(["same", "same", "other"])}
            vals = CT.gen_values(rnd, o["type"], rnd.choice(["single", "multi"]))
            st["items"] = [[o["name"], v] for v in vals]
            case["steps"].append(st)
        elif r < 0.9 and listy:
            o = rnd.choice(listy)
            case["steps"].append({"op": "cycle", "opt": o["name"], "name": CT.anycase(rnd, o["name"]),
                                  "value": gen_probe_value(rnd, o, 100 + i)})
        elif scalars:
            o = rnd.choice(scalars)
            raw = CT.gen_scalar_raw(rnd, o["type"])
            case["steps"].append({"op": "assign_save", "opt": o["name"], "name": CT.anycase(rnd, o["name"]),
                                  "value": natural(o["type"], raw)})
    return case


# ---------------------------------------------------------------------------
# execution + oracle

class Stop(Exception):
    pass


class DummyReactor(object):
    pass


class Run(object):
    def __init__(self, case, rec):
        self.case = case
        self.rec = rec
        self.table = {o["name"]: o for o in case["table"]}
        self.order = [o["name"] for o in case["table"]]
        self.found = []
        self.compared_all = False
        self.probe_no = 0
        self.touch = {}             # option -> structural class of the last thing that defined its value
        self.echoed = {}

    def V(self, clause, cls, detail):
        key = (clause, cls)
        if key not in [f[:2] for f in self.found]:
            self.found.append((clause, cls, detail))

    def flush(self):
        if self.found:
            for clause, cls, detail in self.found:
                self.rec.violation(clause, cls, detail, self.case)
            raise Stop()

    def dflt(self, n):
        return None if self.case["no_defaults"] else self.table[n]["default"]

    def read(self, name):
        return getattr(self.cfg, name)

    def hidden_state(self, n):
        o = self.table[n]
        return bool(o.get("hidden")) and not self.tor.conf.get(n) and not self.dflt(n)

    def snapshot(self, cfg):
        """what every option reads as, under Tor's own spelling"""
        out = {}
        for n in self.order:
            try:
                v = getattr(cfg, n)
                out[n] = ("list", [repr(x) for x in v]) if isinstance(v, list) else ("scalar", repr(v))
            except Exception as e:
                out[n] = ("raised", type(e).__name__)
        return out

    def baseline_reads(self, route):
        """the same attach (same table, same changes announced at the same points) with nobody reading from
        the object while it attaches"""
        case = self.case
        evs = {(ev["at"], ev["when"]): ev for ev in case.get("attach_events") or []}
        seen = {"k": -1}

        def go(tor, key):
            ev = evs.pop(key, None)
            if ev is not None:
                tor.external_change([(k, v) for k, v in ev["items"]])

        def on_line(tor, line):
            if line.upper().startswith("GETCONF ") and not line.split()[1].startswith("__"):
                seen["k"] += 1
                go(tor, (seen["k"], "before-reply"))

        def after_reply(tor, line, code):
            if line.upper().startswith("GETCONF ") and not line.split()[1].startswith("__"):
                go(tor, (seen["k"], "after-reply"))
        hooks = dict(on_line=on_line, after_reply=after_reply) if evs else {}
        cfg = CT.boot(case["table"], no_defaults=case["no_defaults"], echo=case["echo"], route=route, **hooks)[0]
        return None if cfg is None else self.snapshot(cfg)

    # -- all options vs the store --------------------------------------------
    def check_reads(self, stage, counter):
        for n in self.order:
            o = self.table[n]
            vals = self.tor.conf.get(n)
            try:
                got = self.read(self.case["spell"][n])
            except Exception as e:
                sp = self.case["spell"][n]
                try:
                    self.read(n)
                    canonical_ok = sp != n
                except Exception:
                    canonical_ok = False
                if canonical_ok:
                    # the option is there under Tor's spelling: this is a name-matching failure
                    how = "mixed"
                    if sp in ((self.case.get("probe") or {}).get("spellings") or {}).get(n, []):
                        how += "+read-before-attach-finished:" + self.case["probe"]["route"]
                    self.V("name-lookup-raised-" + type(e).__name__, how, {"option": n, "as": sp, "stage": stage})
                else:
                    self.V(stage + "-read-raised-" + type(e).__name__, self.touch[n], {"option": n, "exc": repr(e)})
                continue
            self.rec.count(counter)
            ok, why = CT.read_matches(got, o["type"], vals, self.dflt(n))
            if not ok and self.hidden_state(n) and isinstance(got, list) and list(got) == list(o["hidden"]):
                ok = True       # FooPort unset, no default known, __FooPort set: [] and the twin's entries both accepted
            if not ok:
                self.V("%s-read-%s" % (stage, why), self.touch[n],
                       {"option": n, "type": o["type"], "tor_holds": vals, "default": self.dflt(n), "read": repr(got)[:200]})
            self.rec.seen("read_classes", stage + ":" + self.touch[n])
        self.compared_all = True

    def check_lookup(self):
        for n in self.order:
            try:
                base = self.read(n)
            except Exception:
                continue
            probed = ((self.case.get("probe") or {}).get("spellings") or {}).get(n, [])
            for how, sp in (("lower", n.lower()), ("upper", n.upper()), ("mixed", self.case["spell"][n])):
                if sp in probed:
                    how += "+read-before-attach-finished:" + self.case["probe"]["route"]
                self.rec.count("name_lookups_compared")
                try:
                    got = self.read(sp)
                except Exception as e:
                    self.V("name-lookup-raised-" + type(e).__name__, how, {"option": n, "as": sp})
                    continue
                if got is not base and got != base:
                    self.V("name-lookup-differs", how, {"option": n, "as": sp, "got": repr(got)[:100]})

    def check_socks(self, stage):
        if "SocksPort" not in self.table:
            return
        view = CT.ref_read(CT.PORTLINES, self.tor.conf.get("SocksPort"), self.dflt("SocksPort"))
        if not view:
            self.rec.count("socks_endpoint_no_entry_not_judged")
            return
        self.rec.count("socks_endpoint_checks")
        want = CT.ref_socks_target(view[0])
        cls = socks_class(view[0]) + ("+first-of-many" if len(view) > 1 else "")
        try:
            got = CT.endpoint_target(self.cfg.socks_endpoint(DummyReactor()))
        except Exception as e:
            self.V("socks-endpoint-raised-" + type(e).__name__, cls, {"entries": view, "exc": repr(e)})
            return
        if got != want:
            self.V("socks-endpoint-target", cls, {"entries": view, "want": want, "got": got})

    def logged(self, stage, cls):
        errs = self.logcap.take()
        if errs:
            self.V(stage + "-logged-error", errs[0][0], {"errors": errs[:3], "classes": cls})
        if self.link.exceptions:
            self.V(stage + "-exception-escaped", "general", {"exceptions": self.link.exceptions[:3], "classes": cls})

    # -- read-append-save on a list option -----------------------------------------
    def probe(self, n, spelled, value, after):
        """append => needs_save() => the next save delivers old elements + the new one"""
        o = self.table[n]
        kind = CT.kind_of(o["type"])
        cls = self.touch[n]
        self.rec.count("tracking_probes")
        before = CT.ref_read(o["type"], self.tor.conf.get(n), self.dflt(n))
        try:
            lst = self.read(spelled)
            if self.hidden_state(n) and list(lst) == list(o["hidden"]):
                before = list(o["hidden"])
            lst.append(value)
        except Exception as e:
            self.V("list-edit-raised-" + type(e).__name__, cls, {"option": n, "exc": repr(e)})
            return
        if not self.cfg.needs_save():
            src = "bootstrap" if self.touch[n] == self.boot_touch[n] else ("own-save" if "+own-save" in cls else "event")
            self.V("list-untracked-after-" + src, kind + ("+case-variant" if "+case-variant" in cls else ""), {"option": n, "defined_by": cls, "read": repr(lst)[:200],
                                           "what": "append() on the list read from the view did not make needs_save() true"})
            return
        n0 = len(self.link.transport.writes)
        out = []
        try:
            self.cfg.save().addBoth(out.append)
        except Exception as e:
            self.V("save-raised-" + type(e).__name__, cls, {"option": n, "exc": repr(e)})
            return
        data = b"".join(d for _, d in self.link.transport.writes[n0:])
        self.link.pump()
        self.logged("save", cls)
        want = before + [value]
        line = data.decode("latin1")
        ok = data.endswith(b"\r\n") and data.count(b"\r\n") == 1 and line.upper().startswith("SETCONF ")
        items = None
        if ok:
            try:
                items = kvline.parse(line[8:-2])
            except kvline.KvError:
                ok = False
        if not ok:
            self.V("edit-save-not-one-setconf", cls, {"option": n, "written": data})
            return
        got = [v for k, v in items if self.tor.conf.canon(k) == n]
        others = sorted({self.tor.conf.canon(k) or k for k, v in items} - {n})
        if kind == "commalist":
            got = [v for v in got if v not in (None, "")]
            good = got == want or got == [",".join(want)]
        else:
            good = got == want and self.tor.conf.get(n) == want
        self.rec.count("probe_saves_compared")
        if not good:
            self.V("edit-not-delivered", cls, {"option": n, "line": line, "want": want, "tor_holds": self.tor.conf.get(n)})
        if others:
            self.V("edit-save-names-other-options", cls, {"option": n, "line": line, "others": others})
        if self.cfg.needs_save():
            self.V("needs-save-after-ack", cls, {"option": n})
        vals = self.tor.conf.get(n)
        if self.case["echo"]:
            # Tor announced the change: the value now in the view was defined by that CONF_CHANGED event
            self.touch[n] = "%s+%s" % (klass(o), count_class(o, vals))
        else:
            self.touch[n] = "%s+%s+own-save" % (klass(o), count_class(o, vals))
        self.boot_touch[n] = None
        self.echoed[n] = self.case["echo"]

    # -- X = cfg.Y, then in-place edits of either ------------------------------------------
    def alias(self, st):
        cfg, tor, link, rec = self.cfg, self.tor, self.link, self.rec
        x, y = st["dst"], st["src"]
        if self.hidden_state(x) or self.hidden_state(y):
            return
        kind = CT.kind_of(self.table[x]["type"])
        cls = kind + "+assigned-from-another-option"
        try:
            if not list(self.read(st["src_name"])):
                rec.count("alias_steps_skipped_empty_source")     # assigning [] is C10's emptied-list known finding
                return
            setattr(cfg, st["dst_name"], self.read(st["src_name"]))      # the very object the view returned
            cfg.save()
        except Exception as e:
            self.V("edit-save-raised-" + type(e).__name__, cls, {"step": st, "exc": repr(e)})
            self.flush()
        link.pump()
        rec.count("assigned_from_other_option")
        self.event_touch([x], x, "+assigned-from-another-option")
        self.logged("save", cls)
        if cfg.needs_save():
            self.V("needs-save-after-ack", cls, {"option": x})
        self.check_reads("event" if self.case["echo"] else "save", "save_reads_compared")
        self.flush()
        vi = 0
        for what in st["order"]:
            if what == "event-src":
                changed = tor.external_change([(k, v) for k, v in st["items"]])
                link.pump()
                if changed:
                    rec.count("events_delivered")
                    self.event_touch(changed)
                self.logged("event", cls)
                self.check_reads("event", "event_reads_compared")
                self.flush()
                continue
            n, sp = (x, st["dst_name"]) if what == "dst" else (y, st["src_name"])
            self.touch[n] = self.touch[n].split("+aliased")[0] + "+aliased-" + what
            self.probe(n, sp, st["values"][vi], "alias")
            vi += 1
            self.flush()
            self.check_reads("event" if self.case["echo"] else "save", "save_reads_compared")
            self.flush()

    # -- the application keeps the list object it read across a CONF_CHANGED ---------------
    def held_edit(self, st):
        cfg, tor, link, rec = self.cfg, self.tor, self.link, self.rec
        n, o = st["opt"], self.table[st["opt"]]
        if self.hidden_state(n):
            return
        kind = CT.kind_of(o["type"])
        cls = "%s+event-%s" % (kind, "equal-to-pending" if st["event"] == "same" else "other-value")
        before = CT.ref_read(o["type"], tor.conf.get(n), self.dflt(n))
        try:
            held = self.read(st["name"])
            held.append(st["first"])
        except Exception as e:
            self.V("list-edit-raised-" + type(e).__name__, cls, {"option": n, "exc": repr(e)})
            self.flush()
        if not cfg.needs_save():
            self.V("list-untracked-after-" + ("bootstrap" if self.touch[n] == self.boot_touch[n] else "event"), kind,
                   {"option": n, "defined_by": self.touch[n]})
            self.flush()
        pend = before + [st["first"]]
        if st["event"] == "same":
            items = [(n, ",".join(pend))] if kind == "commalist" else [(n, v) for v in pend]
        else:
            items = [(k, v) for k, v in st["items"]]
        changed = tor.external_change(items)
        link.pump()
        if changed:
            rec.count("events_delivered")
        self.logged("event", cls)
        # the held object is the pending value: a further edit of it belongs to what the next save carries
        try:
            held.append(st["second"])
        except Exception as e:
            self.V("list-edit-raised-" + type(e).__name__, cls, {"option": n, "exc": repr(e)})
            self.flush()
        rec.count("held_object_edits")
        want = pend + [st["second"]]
        if not cfg.needs_save():
            self.V("held-list-edit-lost", cls, {"option": n, "want": want, "what": "needs_save() is false"})
            self.flush()
        n0 = len(link.transport.writes)
        try:
            cfg.save()
        except Exception as e:
            self.V("save-raised-" + type(e).__name__, cls, {"option": n, "exc": repr(e)})
            self.flush()
        data = b"".join(d for _, d in link.transport.writes[n0:])
        link.pump()
        self.logged("save", cls)
        line = data.decode("latin1")
        items = None
        if data.endswith(b"\r\n") and data.count(b"\r\n") == 1 and line.upper().startswith("SETCONF "):
            try:
                items = kvline.parse(line[8:-2])
            except kvline.KvError:
                items = None
        if items is None:
            self.V("edit-save-not-one-setconf", cls, {"option": n, "written": data})
            self.flush()
        got = [v for k, v in items if tor.conf.canon(k) == n]
        others = sorted({tor.conf.canon(k) or k for k, v in items} - {n})
        if kind == "commalist":
            got = [v for v in got if v not in (None, "")]
            good = got == want or got == [",".join(want)]
        else:
            good = got == want and tor.conf.get(n) == want
        if not good:
            self.V("held-list-edit-lost", cls, {"option": n, "line": line, "want": want, "tor_holds": tor.conf.get(n)})
        if others:
            self.V("edit-save-names-other-options", cls, {"option": n, "line": line, "others": others})
        if cfg.needs_save():
            self.V("needs-save-after-ack", cls, {"option": n})
        self.event_touch([n], n, "" if self.case["echo"] else "+own-save")
        self.flush()
        self.check_reads("event" if self.case["echo"] else "save", "save_reads_compared")
        self.flush()

    # -- local save (accepted / rejected) x CONF_CHANGED for the same option -------------
    def event_touch(self, changed, suffix_for=None, suffix=""):
        for n in changed:
            if n in self.table:
                o = self.table[n]
                self.touch[n] = "%s+%s%s" % (klass(o), count_class(o, self.tor.conf.get(n)),
                                             suffix if n == suffix_for else "")
                self.boot_touch[n] = None

    def save_event(self, st):
        from twisted.python.failure import Failure
        cfg, tor, link, rec = self.cfg, self.tor, self.link, self.rec
        n, o = st["opt"], self.table[st["opt"]]
        reply, when = st["reply"], st["when"]
        items = [(k, v) for k, v in st["items"]]
        tag = "+%s-%s-save" % ({"after": "after", "inflight": "during", None: "no-event"}[when],
                               "accepted" if reply == "ok" else "rejected")
        cls = klass(o) + tag
        rec.seen("save_event_classes", cls)
        del tor.scripted[:]
        if reply != "ok":
            tor.script("SETCONF", (reply, [("end", "Unacceptable option value: rejected by the fake Tor")]))
        out = []
        try:
            if st["edit"] == "append":
                self.read(st["name"]).append(st["value"])
            else:
                v = st["value"]
                setattr(cfg, st["name"], list(v) if isinstance(v, list) else v)
            cfg.save().addBoth(out.append)
        except Exception as e:
            self.V("edit-save-raised-" + type(e).__name__, cls, {"step": st, "exc": repr(e)})
            self.flush()
        changed = []
        if when == "inflight":
            changed = tor.external_change(items)      # announced before Tor answers our SETCONF
        link.pump()
        del tor.scripted[:]
        rec.count("save_event_steps")
        if len(out) != 1 or isinstance(out[0], Failure) != (reply != "ok"):
            self.V("save-outcome", cls, {"fired": len(out), "failed": [isinstance(x, Failure) for x in out]})
        if when == "after":
            changed = tor.external_change(items)
            link.pump()
        if changed:
            rec.count("events_delivered")
        judged = True
        if reply == "ok":
            self.event_touch(set(changed) | {n}, n, tag)
            rec.count("events_after_accepted_save" if n in changed else "accepted_saves_without_event")
        elif n in changed:
            self.event_touch(changed, n, tag)
            rec.count("events_after_rejected_save")
        else:
            judged = False          # nothing announced for the option: reads after a rejection are not specified
            self.event_touch(changed)
            rec.count("rejected_saves_without_event_not_judged")
        self.logged("event", cls)
        if judged:
            self.check_reads("event", "event_reads_compared")
            self.flush()
        if reply != "ok":
            # replace the rejected local change by one Tor accepts, so that nothing stale stays pending
            try:
                v = st["resolve"]
                setattr(cfg, st["name"], list(v) if isinstance(v, list) else v)
                cfg.save()
            except Exception as e:
                self.V("edit-save-raised-" + type(e).__name__, cls, {"step": st, "exc": repr(e)})
                self.flush()
            link.pump()
            self.event_touch([n], n, "" if self.case["echo"] else "+own-save")
            if cfg.needs_save():
                self.V("needs-save-after-ack", cls, {"option": n})
            self.logged("save", cls)
            self.check_reads("event" if self.case["echo"] else "save", "save_reads_compared")
            self.flush()

    # -- the case ------------------------------------------------------------------
    def run(self):
        case, rec = self.case, self.rec
        self.logcap = audit.LogCapture()
        self.logcap.start()
        try:
            self._run()
        except Stop:
            pass
        finally:
            self.logcap.stop()

    def _run(self):
        case, rec = self.case, self.rec
        for o in case["table"]:
            self.touch[o["name"]] = boot_class(o, case["no_defaults"])
        pending_ev = {}
        for ev in case.get("attach_events") or []:
            pending_ev[(ev["at"], ev["when"])] = ev
        seen = {"getconf": -1, "fetched": []}

        def fire(tor, key):
            ev = pending_ev.pop(key, None)
            if ev is None:
                return
            was_unset = {n for n in self.table if not tor.conf.get(n)}
            changed = tor.external_change([(k, v) for k, v in ev["items"]])
            if not changed:
                rec.count("attach_events_without_change")
                return
            rec.count("attach_events_delivered")
            fetched = {x.lower() for x in seen["fetched"]}
            current = seen["fetched"][-1].lower() if seen["fetched"] else None
            if key[1] == "before-reply":
                fetched.discard(current)      # its GETCONF is answered after the change
            for n in changed:
                if n in self.table:
                    o = self.table[n]
                    where = "already-fetched" if n.lower() in fetched else "not-yet-fetched"
                    if where == "already-fetched" and n.lower() == current and o["type"] == CT.PORTLINES \
                            and n in was_unset and not self.dflt(n):
                        # the attach still has a second round trip (GETCONF __FooPort) to make for this option
                        where = "mid-fetch"
                    self.touch[n] = "%s+%s+during-attach+%s" % (klass(o), count_class(o, tor.conf.get(n)), where)
                    rec.seen("attach_classes", self.touch[n])

        def on_line(tor, line):
            if line.upper().startswith("GETCONF ") and not line.split()[1].startswith("__"):
                seen["getconf"] += 1
                seen["fetched"].append(line.split()[1])
                fire(tor, (seen["getconf"], "before-reply"))

        def after_reply(tor, line, code):
            if line.upper().startswith("GETCONF ") and not line.split()[1].startswith("__"):
                fire(tor, (seen["getconf"], "after-reply"))

        hooks = dict(on_line=on_line, after_reply=after_reply) if pending_ev else {}
        pr = case.get("probe")
        if pr:
            early = {"n": 0, "raised": 0}

            def probe(cfg, phase):
                if phase not in pr["phases"] and not (phase == "detached" and "constructed" in pr["phases"]):
                    return
                for n, sps in pr["spellings"].items():
                    for sp in sps:
                        early["n"] += 1
                        try:
                            getattr(cfg, sp)        # any outcome is fine now: the option may not be known yet
                        except Exception:
                            early["raised"] += 1
            hooks.update(route=pr["route"], probe=probe)
            rec.seen("attach_routes", pr["route"])
        cfg, fail, proto, tor, link = CT.boot(case["table"], no_defaults=case["no_defaults"], echo=case["echo"], **hooks)
        self.cfg, self.tor, self.link = cfg, tor, link
        self.boot_touch = dict(self.touch)
        if cfg is None:
            exc = getattr(fail, "value", fail)
            rec.violation("bootstrap-failed-" + type(exc).__name__, "no-defaults-support" if case["no_defaults"] else "general",
                          {"failure": str(exc)[:300], "errors": self.logcap.take()[:3]}, case)
            return
        rec.count("bootstraps")
        if pr:
            rec.count("early_probe_reads", early["n"])
            rec.count("early_probe_reads_that_raised", early["raised"])
        self.logged("bootstrap", "general")
        self.check_reads("bootstrap", "bootstrap_reads_compared")
        self.flush()
        if pr:
            # a read never changes what later reads return: compare with the same attach that nobody read from
            base = self.baseline_reads(pr["route"])
            mine = self.snapshot(cfg)
            if base is not None:
                for n in self.order:
                    rec.count("reads_compared_with_unprobed_attach")
                    if base[n] != mine[n]:
                        self.V("early-read-changes-later-reads", self.touch[n] + "+route:" + pr["route"],
                               {"option": n, "probed_as": pr["spellings"].get(n), "phases": pr["phases"],
                                "reads_after_probed_attach": mine[n], "reads_after_quiet_attach": base[n]})
            self.flush()
        self.check_lookup()
        self.check_socks("bootstrap")
        self.flush()
        for si, st in enumerate(case["steps"]):
            if st["op"] == "event":
                items = [(k, v) for k, v in st["items"]]
                changed = tor.external_change(items, st.get("spell") or None)
                if not changed:
                    rec.count("events_without_change")
                    continue
                lines = tor.events_sent[-1]
                link.pump()
                rec.count("events_delivered")
                rec.count("event_lines_delivered", len(lines))
                for n in changed:
                    if n not in self.table:
                        continue
                    o = self.table[n]
                    cc = count_class(o, tor.conf.get(n))
                    c = "%s+%s" % (klass(o), cc)
                    idx = [i for i, l in enumerate(lines) if l.split("=")[0].lower() == n.lower()]
                    if cc == "multi" and idx[-1] + 1 < len(lines) and "=" not in lines[idx[-1] + 1]:
                        c += "+then-bare-key"          # the option's lines are followed by a valueless line
                    if n in (st.get("spell") or {}):
                        c += "+case-variant"
                    self.touch[n] = c
                    self.boot_touch[n] = None
                    rec.seen("event_classes", c)
                untouched = {n: self.touch[n] for n in self.order if n not in changed}
                for n in untouched:
                    self.touch[n] = klass(self.table[n]) + "+not-in-event"
                self.logged("event", "+".join(sorted({self.touch[n] for n in changed if n in self.table}))[:120])
                self.check_reads("event", "event_reads_compared")
                for n, c in untouched.items():
                    self.touch[n] = c
                self.flush()
                self.check_socks("event")
                self.flush()
                for n in changed:
                    if n in self.table and CT.is_listy(self.table[n]["type"]):
                        self.probe_no += 1
                        self.probe(n, case["spell"][n], gen_probe_value(gen.rnd_for("probe", si, n), self.table[n], self.probe_no),
                                   "event")
                        self.flush()
                self.check_reads("event" if case["echo"] else "save", "save_reads_compared")
                self.flush()
            elif st["op"] == "save_event":
                self.save_event(st)
            elif st["op"] == "alias":
                self.alias(st)
            elif st["op"] == "held_edit":
                self.held_edit(st)
            elif st["op"] == "cycle":
                self.probe(st["opt"], st["name"], st["value"], "cycle")
                self.flush()
                self.check_reads("event" if case["echo"] else "save", "save_reads_compared")
                self.flush()
                self.check_socks("save")
                self.flush()
            else:
                n = st["opt"]
                o = self.table[n]
                cls = klass(o) + "+assign-save"
                try:
                    setattr(cfg, st["name"], st["value"])
                    cfg.save()
                except Exception as e:
                    self.V("assign-save-raised-" + type(e).__name__, cls, {"step": st, "exc": repr(e)})
                    self.flush()
                link.pump()
                rec.count("assign_saves")
                self.touch[n] = (klass(o) + "+single") if case["echo"] else cls
                self.boot_touch[n] = None
                self.logged("save", cls)
                self.check_reads("event" if case["echo"] else "save", "save_reads_compared")
                self.flush()


def run_case(case, rec):
    r = Run(case, rec)
    r.run()
    rec.case(case, nontrivial=r.compared_all)
    return r


def run_shard(spec, rec):
    for i in range(spec["n"]):
        rnd = gen.rnd_for(spec["seed"], PROPERTY, spec["shard"], i)
        case = gen_case(rnd, spec["mode"])
        run_case(case, rec)
        if i < 2:
            rec.sample({"mode": case["mode"], "no_defaults": case["no_defaults"], "echo": case["echo"],
                        "table": ["%s %s init=%r default=%r" % (o["name"], o["type"], o["init"], o["default"])
                                  for o in case["table"]][:8],
                        "steps": case["steps"][:4]})


def replay(case, rec):
    run_case(case, rec)


def plan(tier, seed):
    if tier == "quick":
        return [{"mode": "boot", "n": 230} for _ in range(4)] + [{"mode": "attach", "n": 230} for _ in range(2)] + \
            [{"mode": "events", "n": 190} for _ in range(10)]
    return [{"mode": "boot", "n": 2000, "timeout_s": 3000} for _ in range(9)] + \
           [{"mode": "attach", "n": 2000, "timeout_s": 3000} for _ in range(5)] + \
           [{"mode": "events", "n": 1700, "timeout_s": 3000} for _ in range(20)]
