"""C16 - the relay view equals the latest consensus document, nothing carried over.

Monitor: a real ``TorState`` bootstrapped against FakeTor over the real TorControlProtocol;
the first document arrives as the ``GETINFO ns/all`` data block during bootstrap, every
further one as a ``650+NEWCONSENSUS`` data-block event.  After each document the whole
relay view (indexes, every Router attribute named by the statement, lookups, guard /
authority collections, object identity) is compared with ``vf.refs.consensus.view`` of that
document.  See DESIGN.md section 2 / C16.
"""
from .. import gen
from ..refs import consensus as CS

PROPERTY = "C16"
READY = True
LEVEL = "exploration"
TECHNIQUE = ("runtime monitoring: full relay-view snapshot of a real TorState after every consensus document "
             "(ns/all at bootstrap, then NEWCONSENSUS events through the real protocol) compared with an independent "
             "dir-spec generator's reference view; identity codec round trips")
LEVEL_TEXT = ("Held on the executions observed: ~3.3k (quick) to ~190k (thorough) generated sequences of 1-5 consensus "
              "documents (~9k / ~540k documents) over pools of 3-40 relays, plus 20k / 500k identity-codec round trips; after every document every index, every attribute the statement names, "
              "every identity/nickname lookup form and the guard/authority collections were compared with the reference "
              "view. Sampling, not a proof for unexplored documents.")
LEVEL_NOTE = ("Trusted: vf.refs.consensus (generator + view, self-tested against an independent reader and the standard "
              "library's base64), FakeTor/Link, the reply encoder. Entries follow dir-spec item order r, a*, s, w?, p?; "
              "~97 % of the entries carry at least one flag, the rest an 's' line without any flag (dir-spec: 's' SP Flags, "
              "Flags a possibly empty series); v/pr/m items are not generated (Tor's control port does not write them).")
RULE = ("a case = a pool of 3-40 relays and a sequence of 1-5 documents drawn from it (relays joining/leaving, nicknames "
        "from a small pool so duplicates occur, flags / a-lines / w-line / p-line appearing, changing and disappearing - "
        "in about half of the cases including relays whose 's' line loses every flag / gets flags again), "
        "delivered as ns/all then NEWCONSENSUS under a chosen segmentation; ~5 % of the documents list no relay at all "
        "(empty ns/all in block and inline form, empty replacement document); after ~45 % of the documents identities the "
        "document does not list (relays that left, bridges, boundary ids; $hex, $hex~nick, $hex=nick) are looked up through "
        "router_from_id() or a CIRC event path and every index is compared with the document again. "
        "Distinct = hash of the documents. "
        "Non-trivial = at least one document was delivered and its relay view compared.")
ASSUMPTIONS = [
    "documents are well-formed per dir-spec 3.4.1: item order r, a*, s, w?, p?; identities unique within a document",
    "nicknames differ by more than letter case",
    "an 's' line without any flag is written in dir-spec's literal form 's' SP (empty series); a current Tor consensus "
    "gives every entry Running and Valid, so this is the limit case of 'flags disappearing' and carries its own class "
    "+no-flags-now",
    "entry-guards, circuit-status and stream-status are empty; relay objects outside the documents arise only from the "
    "harness's own lookups of unlisted identities (router_from_id / CIRC LAUNCHED|EXTENDED paths)",
    "what router_from_id() returns for an identity no document lists is not judged, and TorState.routers (the lookup "
    "table) may remember such placeholders - blank ones only: not the Router object of an earlier document and nothing "
    "that claims consensus data (from_consensus, flags, bandwidth, IPv6) - ; routers_by_hash, routers_by_name, "
    "all_routers, guards and authorities may not hold them at all",
    "a replacement document that lists no relay must empty the view (the statement's 'equals the latest document'); "
    "Tor itself suppresses a NEWCONSENSUS event without entries, so this limit case carries its own class +empty-document",
    "flag order, the form (str/int) of port values and 0 vs None for an absent bandwidth are not judged",
    "publication time, descriptor digest and exit policy are not named by the statement and not judged",
]
TRUSTED_BASE = ["vf.refs.consensus (generator, reference view, self-tested)", "vf.faketor.core FakeTor/Link",
                "vf.refs.reply encoder"]
ANCHORS = [
    "txtorcon._microdesc_parser:MicrodescriptorParser.feed_line",
    "txtorcon._microdesc_parser:MicrodescriptorParser._router_begin",
    "txtorcon._microdesc_parser:MicrodescriptorParser._router_address",
    "txtorcon._microdesc_parser:MicrodescriptorParser._router_bandwidth",
    "txtorcon.torstate:TorState._create_router",
    "txtorcon.torstate:TorState._update_network_status",
    "txtorcon.torstate:TorState._bootstrap",
    "txtorcon.torstate:TorState.router_from_id",
    "txtorcon.router:Router.update",
    "txtorcon.router:hexIdFromHash",
    "txtorcon.router:hashFromHexId",
]
FLOORS = {
    "quick": {"evaluations": 500, "documents_compared": 800, "relays_compared": 9000,
              "lookups_compared": 30000, "reused_relays_seen": 4000, "object_identity_checks": 4000,
              "collections_compared": 1600, "codec_roundtrips": 2000, "empty_documents": 60,
              "unlisted_identity_lookups": 600, "views_recompared_after_lookups": 350, "circ_events_with_paths": 150,
              "unlisted_entries_inspected": 500, "reused_relays_with_only_dirport_changed": 150,
              "reused_relays_with_only_orport_changed": 100, "reused_relays_with_only_ipv4_changed": 100,
              "flagless_entries": 300, "reused_relays_that_lost_every_flag": 120,
              "reused_guards_or_authorities_that_lost_every_flag": 50, "reused_flagless_relays_that_got_flags": 100,
              "reach:txtorcon.torstate:TorState._create_router": 9000,
              "reach:txtorcon.torstate:TorState._update_network_status": 400,
              "reach:txtorcon.torstate:TorState.router_from_id": 30000},
    "thorough": {"evaluations": 50000, "documents_compared": 40000, "relays_compared": 500000,
                 "lookups_compared": 1500000, "reused_relays_seen": 250000, "object_identity_checks": 250000,
                 "collections_compared": 80000, "codec_roundtrips": 100000, "empty_documents": 3000,
                 "unlisted_identity_lookups": 30000, "views_recompared_after_lookups": 18000, "circ_events_with_paths": 7000,
                 "unlisted_entries_inspected": 25000, "reused_relays_with_only_dirport_changed": 8000,
                 "reused_relays_with_only_orport_changed": 5000, "reused_relays_with_only_ipv4_changed": 5000,
                 "flagless_entries": 15000, "reused_relays_that_lost_every_flag": 6000,
                 "reused_guards_or_authorities_that_lost_every_flag": 2500, "reused_flagless_relays_that_got_flags": 5000,
                 "reach:txtorcon.torstate:TorState._create_router": 500000,
                 "reach:txtorcon.torstate:TorState._update_network_status": 25000},
}

NICKS = ["Unnamed", "Unnamed", "default", "relay", "Foo", "bar", "tor4", "x", "OK", "ns", "r2d2",
         "A234567890123456789", "PPrivCom012", "moria1", "gabelmoo", "dizum", "s", "w", "p"]
TOGGLE = ["Guard", "Authority", "Exit", "Fast", "Stable", "HSDir", "V2Dir", "BadExit", "MiddleOnly"]
POLICIES = ["reject 1-65535", "accept 80,443", "accept 20-23,43,53,79-81,443", "reject 25,119,135-139,445"]
BOUNDARY_IDS = ["00" * 20, "FF" * 20, "00" * 19 + "01", "80" + "00" * 19, "FBEFBE" * 6 + "FBEF",
                "0123456789ABCDEF0123456789ABCDEF01234567", "F" * 39 + "0", "0" * 39 + "F",
                "3E3F" * 10, "FFEF" * 10]


# ---------------------------------------------------------------------------
# generation

def gen_ipv6(rnd):
    host = rnd.choice(["2001:db8::%x" % rnd.randint(1, 0xffff), "2a00:1450:4001:81b::200e", "::1",
                       "2001:db8:%x:%x::%x" % (rnd.randint(0, 0xffff), rnd.randint(0, 0xffff), rnd.randint(0, 9))])
    return "[%s]:%d" % (host, rnd.choice([443, 9001, rnd.randint(1, 65535)]))


def gen_flags(rnd, knobs, allow_none=True):
    if allow_none and rnd.random() < knobs.get("flagless", 0.0):
        return []           # "s" line without any flag (dir-spec: Flags is a possibly empty series)
    fl = {"Running", "Valid"} if rnd.random() < 0.95 else {rnd.choice(["Running", "Valid"])}
    for f in ("Exit", "Fast", "HSDir", "Stable", "V2Dir"):
        if rnd.random() < 0.45:
            fl.add(f)
    if rnd.random() < knobs["guard"]:
        fl.add("Guard")
    if rnd.random() < knobs["auth"]:
        fl.add("Authority")
    if rnd.random() < 0.05:
        fl.add(rnd.choice(["BadExit", "MiddleOnly", "StaleDesc", "NoEdConsensus", "FutureProof", "Named"]))
    return sorted(fl)


def gen_relay(rnd, knobs, ident):
    r = {"nick": rnd.choice(knobs["nicks"]), "id": ident, "digest": "%040X" % rnd.getrandbits(160),
         "published": "20%02d-%02d-%02d %02d:%02d:%02d" % (rnd.randint(11, 38), rnd.randint(1, 12), rnd.randint(1, 28),
                                                          rnd.randint(0, 23), rnd.randint(0, 59), rnd.randint(0, 59)),
         "ip": "%d.%d.%d.%d" % (rnd.randint(1, 223), rnd.randint(0, 255), rnd.randint(0, 255), rnd.randint(1, 254)),
         "orport": rnd.choice([9001, 443, 9002, rnd.randint(1, 65535)]),
         "dirport": rnd.choice([0, 0, 80, 9030, rnd.randint(1, 65535)]),
         "a": [], "flags": gen_flags(rnd, knobs), "bw": None, "wx": [], "p": None}
    mutate_optional(rnd, knobs, r, fresh=True)
    return r


def mutate_optional(rnd, knobs, r, fresh=False):
    """(re)draw the optional a / w / p items of an entry"""
    if fresh or rnd.random() < knobs["churn"]:
        r["a"] = [gen_ipv6(rnd) for _ in range(rnd.choice([0, 0, 0, 1, 1, 2] if knobs["ipv6"] else [0]))]
    if fresh or rnd.random() < knobs["churn"]:
        r["bw"] = None if rnd.random() < knobs["no_w"] else rnd.choice([0, 1, 20, 166, 51500, rnd.randint(0, 10 ** 7)])
        r["wx"] = ["Unmeasured=1"] if r["bw"] is not None and rnd.random() < 0.1 else []
    if fresh or rnd.random() < knobs["churn"]:
        r["p"] = rnd.choice(POLICIES) if rnd.random() < 0.6 else None
    if r["bw"] is None and r["p"] is not None and not (knobs["p_without_w"] and rnd.random() < 0.25):
        r["p"] = None


def copy_relay(r):
    return dict(r, a=list(r["a"]), flags=list(r["flags"]), wx=list(r["wx"]))


def gen_case(rnd):
    npool = rnd.choice([3, 4, 5, 6, 8, 10, 12, 16, 20, 30, 40, rnd.randint(3, 40)])
    knobs = {
        "nicks": rnd.sample(NICKS, rnd.randint(2, min(len(NICKS), max(2, npool)))),
        "guard": rnd.choice([0.1, 0.3, 0.6]), "auth": rnd.choice([0.0, 0.05, 0.15, 0.3]),
        "ipv6": rnd.random() < 0.7, "no_w": rnd.choice([0.0, 0.0, 0.15, 0.5]),
        "p_without_w": rnd.random() < 0.15, "churn": rnd.choice([0.1, 0.3, 0.6]),
        "present": rnd.choice([0.5, 0.75, 0.9, 1.0]), "rename": rnd.choice([0.0, 0.05, 0.2]),
        "flagless": rnd.choice([0.0, 0.0, 0.03, 0.1]),
    }
    ids = set()
    while len(ids) < npool:
        ids.add(rnd.choice(BOUNDARY_IDS) if rnd.random() < 0.04 else "%040X" % rnd.getrandbits(160))
    pool = {i: gen_relay(rnd, knobs, i) for i in sorted(ids)}
    ndocs = rnd.choice([1, 2, 2, 3, 3, 4, 5])
    docs = []
    for k in range(ndocs):
        if k:
            for r in pool.values():
                if rnd.random() < knobs["churn"]:
                    fl = set(r["flags"])
                    for f in rnd.sample(TOGGLE, rnd.randint(1, 2)):
                        fl.symmetric_difference_update({f})
                    r["flags"] = sorted(fl) or ([] if knobs["flagless"] else ["Running"])
                # every flag disappears at once (the relay stays listed) / a flagless relay gets flags again
                if r["flags"]:
                    if rnd.random() < knobs["flagless"]:
                        r["flags"] = []
                elif rnd.random() < 0.5:
                    r["flags"] = gen_flags(rnd, knobs, allow_none=False)
                if rnd.random() < knobs["rename"]:
                    r["nick"] = rnd.choice(knobs["nicks"])
                if rnd.random() < 0.05:
                    r["ip"] = "%d.%d.%d.%d" % (rnd.randint(1, 223), rnd.randint(0, 255), rnd.randint(0, 255), rnd.randint(1, 254))
                # the r-line fields change independently: only the DirPort (9030 -> 0 is what a relay
                # closing its directory port looks like), only the ORPort, both, (above) only the address
                x = rnd.random()
                if x < 0.06:
                    r["dirport"] = rnd.choice([p for p in (0, 80, 9030, rnd.randint(1, 65535)) if p != r["dirport"]])
                elif x < 0.10:
                    r["orport"] = rnd.choice([p for p in (443, 9001, 9002, rnd.randint(1, 65535)) if p != r["orport"]])
                elif x < 0.13:
                    r["orport"], r["dirport"] = rnd.randint(1, 65535), rnd.choice([0, rnd.randint(1, 65535)])
                mutate_optional(rnd, knobs, r)
        doc = [copy_relay(r) for r in pool.values() if rnd.random() < knobs["present"]]
        if not doc:
            doc = [copy_relay(rnd.choice(list(pool.values())))]
        if rnd.random() < (0.06 if k == 0 else 0.05):
            doc = []        # limit case: Tor has no consensus yet (ns/all) / every relay left
        docs.append(doc)
    probes = []
    for k in range(ndocs):
        if rnd.random() < 0.45:
            listed = [r["id"] for r in docs[k]]
            left = sorted(set(pool) - set(listed))
            departed = sorted({r["id"] for r in docs[k - 1]} - set(listed)) if k else []
            unl = []
            for _ in range(rnd.choice([1, 1, 2, 3])):
                r = rnd.random()
                if departed and r < 0.4:
                    unl.append(rnd.choice(departed))               # listed in the previous document, gone in this one
                elif left and r < 0.55:
                    unl.append(rnd.choice(left))                   # relay of the pool not in this document
                elif r < 0.6:
                    unl.append(rnd.choice(BOUNDARY_IDS))
                else:
                    unl.append("%040X" % rnd.getrandbits(160))     # bridge / relay Tor knows from elsewhere
            unl = [u for u in dict.fromkeys(unl) if u not in listed]
            forms = []
            for u in unl:
                f = rnd.choice(["hex", "hex~nick", "hex=nick"])
                nick = pool[u]["nick"] if u in pool and rnd.random() < 0.7 else rnd.choice(NICKS)
                forms.append("$" + u + {"hex": "", "hex~nick": "~" + nick, "hex=nick": "=" + nick}[f])
            pr = {"lookup": [], "circ": None}
            if rnd.random() < 0.6:
                pr["lookup"] = forms
            else:
                path = list(forms)
                for r in rnd.sample(docs[k], min(len(docs[k]), rnd.randint(0, 2))):
                    path.insert(rnd.randint(0, len(path)), "$%s~%s" % (r["id"], r["nick"]))
                pr["circ"] = {"id": rnd.randint(1, 9999), "status": rnd.choice(["EXTENDED", "LAUNCHED", "BUILT", "BUILT"]),
                              "path": path}
            probes.append(pr)
        else:
            probes.append(None)
    return {"docs": docs, "probes": probes, "ns_form": rnd.choice(["block", "inline"]),
            "chunking": rnd.choice([[1 << 30], [1 << 30], [4096], [997], [rnd.randint(40, 400)],
                                                  [rnd.randint(1, 64), rnd.randint(200, 2000)]])}


# ---------------------------------------------------------------------------
# structural classes

def has_p_without_w(docs, k):
    return any(r.get("p") is not None and r.get("bw") is None for d in docs[:k + 1] for r in d)


def run_before(docs, k, ident):
    """the entries of `ident` in the maximal run of consecutive documents ending at k-1"""
    out = []
    j = k - 1
    while j >= 0:
        e = [r for r in docs[j] if r["id"] == ident]
        if not e:
            break
        out.append(e[0])
        j -= 1
    return out


def relay_class(docs, k, ident, what):
    before = run_before(docs, k, ident)
    now = [r for r in docs[k] if r["id"] == ident][0]
    cls = "reused-relay" if before else "new-relay"
    if what == "ipv6":
        if any(r.get("a") for r in before):
            cls += "+a-lines-earlier"
        cls += "+a-lines-now" if now.get("a") else "+no-a-line-now"
    elif what == "bandwidth":
        if any(r.get("bw") is not None for r in before):
            cls += "+w-line-earlier"
        cls += "+w-line-now" if now.get("bw") is not None else "+no-w-line-now"
    elif what == "flags" and not now.get("flags"):
        # only the limit case gets its own class; entries with flags keep the plain one
        if any(r.get("flags") for r in before):
            cls += "+flags-earlier"
        cls += "+no-flags-now"
    return cls


# ---------------------------------------------------------------------------
# one execution + oracle

class _NullCapture(object):
    def take(self):
        return []


CAPTURE = _NullCapture()


def _start_capture():
    global CAPTURE
    from ..audit import LogCapture
    try:
        from twisted.logger import globalLogBeginner
        globalLogBeginner.beginLoggingTo([lambda ev: None], redirectStandardIO=False, discardBuffer=True)
    except Exception:
        pass
    CAPTURE = LogCapture()
    CAPTURE.start()


def run_case(case, rec):
    from txtorcon import TorControlProtocol, TorState
    from ..faketor.core import FakeTor, Link
    docs = case["docs"]
    reported = set()
    flags = {"hard": False, "compared": False}

    def V(clause, cls, detail, hard=False):
        if (clause, cls) not in reported:
            reported.add((clause, cls))
            rec.violation(clause, cls, detail, case)
        if hard:
            flags["hard"] = True

    tor = FakeTor()
    first = CS.document_lines(docs[0])
    if not first and case.get("ns_form") == "inline":
        first = ""                  # Tor answers "250-ns/all=" when it knows no relay at all
    tor.info.update({"ns/all": first, "circuit-status": "", "stream-status": "",
                     "address-mappings/all": "", "entry-guards": ""})
    proto = TorControlProtocol()
    link = Link(proto, tor, case.get("chunking") or (1 << 30,)).connect()
    st = TorState(proto)
    done = []
    st.post_bootstrap.addBoth(done.append)
    CAPTURE.take()
    link.pump()
    errs = CAPTURE.take()
    prev = {}
    try:
        if not done or done[0] is not st or link.exceptions or errs:
            V("bootstrap-failed", "entry-with-p-without-w" if has_p_without_w(docs, 0) else "general",
              {"post_bootstrap": repr(done)[:160], "exceptions": link.exceptions[:2], "logged": errs[:2],
               "commands_seen": tor.lines[6:]}, hard=True)
            return reported
        probes = case.get("probes") or []
        asked = set()
        prev = judge(st, docs, 0, prev, rec, V, flags)
        for k in range(1, len(docs) + 1):
            if flags["hard"]:
                break
            # between documents: identity lookups for relays the document does not list
            pr = probes[k - 1] if k - 1 < len(probes) else None
            if pr:
                between(st, tor, link, docs, k - 1, pr, asked, rec, V)
                if not flags["hard"]:
                    prev = judge(st, docs, k - 1, prev, rec, V, flags, asked=asked, phase="after-unlisted-identity-lookups")
            if k == len(docs) or flags["hard"]:
                break
            if not tor.emit("NEWCONSENSUS", "", "data", CS.document_lines(docs[k])):
                V("not-subscribed", "NEWCONSENSUS", {"subscribed": sorted(tor.subscribed)}, hard=True)
                break
            link.pump()
            errs = CAPTURE.take()
            if errs or link.exceptions:
                V("update-raised", "entry-with-p-without-w" if has_p_without_w(docs, k) else "general",
                  {"document": k, "logged": errs[:2], "exceptions": link.exceptions[:2]}, hard=True)
                break
            prev = judge(st, docs, k, prev, rec, V, flags, asked=asked)
    finally:
        CAPTURE.take()
        rec.case(case, nontrivial=flags["compared"])
    return reported


def between(st, tor, link, docs, k, pr, asked, rec, V):
    """identity lookups between two documents: router_from_id() directly, or a CIRC event
    whose path names the relays (control-spec 4.1.1: LongName = $hex [~/= nick])"""
    listed = {CS.fingerprint(r["id"]): r for r in docs[k]}
    for key in pr.get("lookup") or []:
        rec.count("unlisted_identity_lookups")
        asked.add(key[:41])
        try:
            st.router_from_id(key)
        except KeyError:
            pass
        except Exception as e:
            V("lookup-by-identity", "unlisted:raised", {"document": k, "key": key, "exc": repr(e)})
    c = pr.get("circ")
    if c:
        for el in c["path"]:
            if el[:41] not in listed:
                asked.add(el[:41])
                rec.count("unlisted_identity_lookups")
        text = "%d %s %s PURPOSE=GENERAL" % (c["id"], c["status"], ",".join(c["path"]))
        if not tor.emit("CIRC", text):
            V("not-subscribed", "CIRC", {"subscribed": sorted(tor.subscribed)}, hard=True)
            return
        link.pump()
        rec.count("circ_events_with_paths")
        errs = CAPTURE.take()
        if errs or link.exceptions:
            V("circ-event-raised", "path-with-unlisted-relay", {"document": k, "event": text, "logged": errs[:2],
                                                                "exceptions": link.exceptions[:2]}, hard=True)
            return
        circ = st.circuits.get(c["id"])
        path = list(getattr(circ, "path", [])) if circ is not None else None
        if path is not None and len(path) == len(c["path"]):
            for el, r in zip(c["path"], path):
                if el[:41] in listed:
                    rec.count("lookups_compared")
                    if r is not st.routers_by_hash.get(el[:41]):
                        V("lookup-by-identity", "circuit-path", {"document": k, "element": el,
                                                                 "got": getattr(r, "id_hex", None)})


def ids_of(routers):
    return sorted(getattr(r, "id_hex", None) or "?" for r in routers)


def judge(st, docs, k, prev, rec, V, flags, asked=(), phase=None):
    want = CS.view(docs[k])
    wids = set(want["relays"])
    rec.count("documents_compared" if phase is None else "views_recompared_after_lookups")
    if not docs[k]:
        rec.count("empty_documents")
    rec.seen("document_shapes", "doc%d relays=%s dupnicks=%s guards=%s auth=%s" % (
        k, min(len(wids) // 10 * 10, 40), min(len(want["duplicate"]), 3), min(len(want["guards"]), 3),
        min(len(want["authorities"]), 3)))
    flags["compared"] = True
    for r in docs[k]:
        if phase is None and not r["flags"]:
            rec.count("flagless_entries")
        rec.seen("entry_shapes", "r" + " a" * len(r.get("a", ())) + (" s" if r["flags"] else " s(no-flag)")
                 + (" w" + "+kw" * len(r.get("wx", ())) if r.get("bw") is not None else "")
                 + (" p" if r.get("p") is not None else ""))
    if k:
        before = {r["id"]: r for r in docs[k - 1]}
        for r in docs[k]:
            o = before.get(r["id"])
            if o is None:
                rec.seen("relay_changes", "joined")
                continue
            for what, a, b in (("nick", o["nick"], r["nick"]), ("ipv4", o["ip"], r["ip"]),
                               ("a-lines", o["a"], r["a"]), ("w-line", o["bw"], r["bw"]),
                               ("orport", o["orport"], r["orport"]), ("dirport", o["dirport"], r["dirport"])):
                if a != b:
                    if what in ("ipv4", "orport", "dirport"):
                        only = [w for w in ("ipv4", "orport", "dirport")
                                if {"ipv4": o["ip"], "orport": o["orport"], "dirport": o["dirport"]}[w]
                                != {"ipv4": r["ip"], "orport": r["orport"], "dirport": r["dirport"]}[w]]
                        if only == [what]:
                            rec.count("reused_relays_with_only_%s_changed" % what)
                    rec.seen("relay_changes", what + (":dropped" if not b and b != 0 else (":added" if not a and a != 0 else ":changed")))
            if phase is None and o["flags"] and not r["flags"]:
                rec.count("reused_relays_that_lost_every_flag")
                if {"Guard", "Authority"} & set(o["flags"]):
                    rec.count("reused_guards_or_authorities_that_lost_every_flag")
                rec.seen("relay_changes", "flags:all-dropped")
            elif phase is None and r["flags"] and not o["flags"]:
                rec.count("reused_flagless_relays_that_got_flags")
                rec.seen("relay_changes", "flags:first-added")
            for f in set(o["flags"]) ^ set(r["flags"]):
                if f in ("Guard", "Authority"):
                    rec.seen("relay_changes", f + (":gained" if f in r["flags"] else ":lost"))
        if set(before) - {r["id"] for r in docs[k]}:
            rec.seen("relay_changes", "left")
    # -- the relay set, through every index ----------------------------------
    indexes = {
        "all_routers": [getattr(r, "id_hex", None) for r in st.all_routers],
        "routers_by_hash": list(st.routers_by_hash.keys()),
        # the lookup table may remember the placeholders router_from_id() handed out for
        # identities no document lists (leniency: the statement is silent on caching them)
        "routers": [key for key in st.routers.keys() if key.startswith("$") and (key in wids or key not in asked)],
        "routers_by_name": [getattr(r, "id_hex", None) for lst in st.routers_by_name.values() for r in lst],
    }
    # ... but what it remembers for an identity the document does not list must be a blank
    # placeholder: not the Router object of an earlier document, nothing claiming consensus data
    ever = flags.setdefault("ever", {})
    for key in [x for x in st.routers.keys() if x.startswith("$") and x not in wids]:
        r = st.routers[key]
        rec.count("unlisted_entries_inspected")
        sfx = "+" + phase if phase else ""
        if r is None:
            continue
        if any(r is o for o in ever.get(key, ())):
            V("departed-relay-kept-in-lookup-table", "router-object-of-earlier-document" + sfx,
              {"document": k, "id": key, "from_consensus": getattr(r, "from_consensus", None),
               "flags": list(getattr(r, "flags", [])), "bandwidth": getattr(r, "bandwidth", None)})
        elif (getattr(r, "from_consensus", False) or list(getattr(r, "flags", [])) or list(getattr(r, "ip_v6", []))
              or getattr(r, "bandwidth", 0) not in (0, None)):
            V("departed-relay-kept-in-lookup-table", "entry-claims-consensus-data" + sfx,
              {"document": k, "id": key, "from_consensus": getattr(r, "from_consensus", None),
               "flags": list(getattr(r, "flags", [])), "bandwidth": getattr(r, "bandwidth", None),
               "ip_v6": list(getattr(r, "ip_v6", []))})
    bad_set = False
    for name, got in indexes.items():
        stale = sorted(set(got) - wids)
        missing = sorted(wids - set(got))
        twice = sorted({x for x in got if got.count(x) > 1}) if len(got) != len(set(got)) else []
        for kind, lst in (("stale", stale), ("missing", missing), ("listed-twice", twice)):
            if lst:
                bad_set = True
                V("relay-set-mismatch", "%s:%s%s%s" % (name, kind, "+empty-document" if not docs[k] else "",
                                                         "+" + phase if phase else ""),
                  {"document": k, "index": name, kind: lst[:4], "n": len(lst), "document_relays": len(wids)}, hard=True)
    if bad_set:
        return prev
    objs = {}
    for fp in sorted(wids):
        r = st.routers_by_hash[fp]
        objs[fp] = r
        if not any(r is o for o in ever.setdefault(fp, [])):
            ever[fp].append(r)          # the objects themselves: a bare id() is reused after collection
        if st.routers.get(fp) is not r or r not in st.all_routers:
            V("index-object-mismatch", "routers-vs-routers_by_hash", {"document": k, "id": fp})
    # -- every attribute the statement names ----------------------------------
    for fp, w in want["relays"].items():
        r = objs[fp]
        ident = fp[1:]
        rec.count("relays_compared")
        if prev.get(fp) is not None:
            rec.count("reused_relays_seen")
        base = relay_class(docs, k, ident, None)

        def cmp(clause, got, exp, cls=base, ok=None):
            if not (ok(got) if ok else got == exp):
                V(clause, cls, {"document": k, "id": fp, "got": got, "want": exp})
        try:
            cmp("nickname-mismatch", r.name, w["nick"])
            cmp("identity-mismatch", (r.id_hex, r.id_hash), (fp, w["b64"]))
            cmp("ipv4-mismatch", str(r.ip), w["ip"])
            cmp("ipv6-mismatch", list(r.ip_v6), w["ipv6"], cls=relay_class(docs, k, ident, "ipv6"))
            cmp("orport-mismatch", str(r.or_port), str(w["orport"]))
            cmp("dirport-mismatch", str(r.dir_port), str(w["dirport"]))
            cmp("flags-mismatch", sorted(r.flags), w["flags"], cls=relay_class(docs, k, ident, "flags"))
            if w["bandwidth"] is None:
                cmp("bandwidth-mismatch", r.bandwidth, 0, cls=relay_class(docs, k, ident, "bandwidth"),
                    ok=lambda g: g is None or g == 0)
            else:
                cmp("bandwidth-mismatch", r.bandwidth, w["bandwidth"], cls=relay_class(docs, k, ident, "bandwidth"))
        except Exception as e:
            V("view-unreadable", base, {"document": k, "id": fp, "exc": repr(e)})
    # -- lookups --------------------------------------------------------------
    def lookup(key):
        try:
            return st.router_from_id(key)
        except KeyError:
            return None
    for fp, w in want["relays"].items():
        for form, key in (("hex", fp), ("hex~nick", fp + "~" + w["nick"]), ("hex=nick", fp + "=" + w["nick"])):
            rec.count("lookups_compared")
            try:
                got = lookup(key)
            except Exception as e:
                V("lookup-by-identity", form + ":raised", {"document": k, "key": key, "exc": repr(e)})
                continue
            if got is not objs[fp]:
                V("lookup-by-identity", form, {"document": k, "key": key,
                                                "got": getattr(got, "id_hex", None) if got is not None else None}, hard=True)
    earlier_nicks = {r["nick"] for d in docs[:k] for r in d} - set(want["by_name"])
    for nick, cls, exp in ([(n, "unique-nickname", objs[fp]) for n, fp in want["unique"].items()]
                           + [(n, "duplicate-nickname", None) for n in want["duplicate"]]
                           + [(n, "nickname-only-in-earlier-document", None) for n in sorted(earlier_nicks)]):
        rec.count("lookups_compared")
        try:
            got = lookup(nick)
            direct = st.routers.get(nick)
        except Exception as e:
            V("lookup-by-nickname", cls + ":raised", {"document": k, "nick": nick, "exc": repr(e)})
            continue
        for how, g in (("router_from_id", got), ("routers[]", direct)):
            if g is not exp:
                V("lookup-by-nickname", cls, {"document": k, "nick": nick, "via": how,
                                               "got": getattr(g, "id_hex", None) if g is not None else None,
                                               "want": getattr(exp, "id_hex", None) if exp is not None else None,
                                               "relays_with_nick": want["by_name"].get(nick, [])})
                break
    got_names = {n: ids_of(lst) for n, lst in st.routers_by_name.items()}
    want_names = {n: sorted(fps) for n, fps in want["by_name"].items()}
    if got_names != want_names:
        diff = sorted(n for n in set(got_names) | set(want_names) if got_names.get(n) != want_names.get(n))
        V("index-mismatch", "routers_by_name", {"document": k, "nicknames": diff[:4],
                                                 "got": [got_names.get(n) for n in diff[:2]],
                                                 "want": [want_names.get(n) for n in diff[:2]]})
    # -- guard / authority collections ------------------------------------------
    for coll, flag in (("guards", "guard"), ("authorities", "authority")):
        held = list(getattr(st, coll).values())
        rec.count("collections_compared")
        got_ids = set(ids_of(held))
        for r in held:
            fp = getattr(r, "id_hex", None)
            if fp in want[coll] and objs[fp] is not r:
                V(coll + "-mismatch", "extra:stale-object-of-flagged-relay", {"document": k, "id": fp})
        for fp in sorted(got_ids - want[coll]):
            cls = "extra:relay-left-consensus" if fp not in wids else "extra:relay-lost-flag"
            V(coll + "-mismatch", cls, {"document": k, "id": fp, "held": sorted(got_ids)[:6],
                                        "document_has": sorted(want[coll])[:6]})
        for fp in sorted(want[coll] - got_ids):
            nick = want["relays"][fp]["nick"]
            shared = [o for o in want[coll] if o != fp and want["relays"][o]["nick"] == nick]
            cls = "missing:duplicate-nickname-among-flagged" if shared else "missing:general"
            V(coll + "-mismatch", cls, {"document": k, "id": fp, "nick": nick, "same_nick_flagged": shared[:3],
                                        "held": sorted(got_ids)[:6]})
    # -- object identity across consecutive documents ------------------------------
    for fp, obj in prev.items():
        if fp in objs:
            rec.count("object_identity_checks")
            if objs[fp] is not obj:
                V("object-identity-lost", "general", {"document": k, "id": fp})
    return objs


def codec_cases(rnd, n):
    for i in BOUNDARY_IDS:
        yield i, "boundary-identity"
    for _ in range(n):
        yield "%040X" % rnd.getrandbits(160), "random-identity"
    for _ in range(n // 4):
        # identities with long runs of identical / zero bytes
        b = bytearray(rnd.getrandbits(8) for _ in range(20))
        i, j = sorted((rnd.randint(0, 20), rnd.randint(0, 20)))
        b[i:j] = bytes([rnd.choice([0, 0xFF, 0x80])]) * (j - i)
        yield bytes(b).hex().upper(), "patterned-identity"


def run_codec(spec, rec):
    from txtorcon.router import hexIdFromHash, hashFromHexId
    rnd = gen.rnd_for(spec["seed"], PROPERTY, spec["shard"], "codec")
    for ident, cls in codec_cases(rnd, spec["n"]):
        fp, b64 = CS.fingerprint(ident), CS.identity_b64(ident)
        case = {"codec": ident}
        try:
            got = {"hex(b64)": hexIdFromHash(b64), "b64($hex)": hashFromHexId(fp), "b64(hex)": hashFromHexId(ident),
                   "hex(b64($hex))": hexIdFromHash(hashFromHexId(fp)), "b64(hex(b64))": hashFromHexId(hexIdFromHash(b64))}
        except Exception as e:
            rec.violation("identity-codec-raised", cls, {"id": ident, "exc": repr(e)}, case)
            rec.case(case)
            continue
        exp = {"hex(b64)": fp, "b64($hex)": b64, "b64(hex)": b64, "hex(b64($hex))": fp, "b64(hex(b64))": b64}
        rec.count("codec_roundtrips", len(exp))
        for key in exp:
            if got[key] != exp[key]:
                rec.violation("identity-codec", cls, {"id": ident, "direction": key, "got": got[key], "want": exp[key]}, case)
                break
        rec.case(case)


def run_shard(spec, rec):
    _start_capture()
    CS.selftest()
    if spec["mode"] == "codec":
        run_codec(spec, rec)
        return
    for i in range(spec["n"]):
        rnd = gen.rnd_for(spec["seed"], PROPERTY, spec["shard"], i)
        case = gen_case(rnd)
        run_case(case, rec)
        if i < 1:
            rec.sample({"docs": [[CS.entry_lines(r) for r in d[:3]] for d in case["docs"]], "note": "first 3 entries per document"})


def replay(case, rec):
    _start_capture()
    if "codec" in case:
        from txtorcon.router import hexIdFromHash, hashFromHexId
        ident = case["codec"]
        fp, b64 = CS.fingerprint(ident), CS.identity_b64(ident)
        try:
            ok = hexIdFromHash(b64) == fp and hashFromHexId(fp) == b64 and hashFromHexId(ident) == b64
        except Exception as e:
            rec.violation("identity-codec-raised", "replay", {"id": ident, "exc": repr(e)}, case)
        else:
            if not ok:
                rec.violation("identity-codec", "replay", {"id": ident}, case)
        rec.case(case)
        return
    run_case(case, rec)


def plan(tier, seed):
    specs = []
    if tier == "quick":
        for _ in range(15):
            specs.append({"mode": "docs", "n": 220})
        specs.append({"mode": "codec", "n": 20000})
    else:
        for _ in range(47):
            specs.append({"mode": "docs", "n": 4000, "timeout_s": 3000})
        specs.append({"mode": "codec", "n": 400000, "timeout_s": 3000})
    return specs
