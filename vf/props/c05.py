"""C05 - SOCKS5: no data before success; after it every byte is relayed, none withheld.

Monitor: the real ``_SocksMachine`` driven directly, and the real ``_TorSocksProtocol`` /
``TorSocksEndpoint.connect`` / ``socks.resolve`` / ``socks.resolve_ptr`` driven end-to-end over
``vf.wire.RecTransport`` with a recording application protocol that also writes.  A causal
scripted SOCKS server (``vf.refs.socks5`` encoder) emits method reply, request reply and
application bytes; the harness owns the segmentation and injects disconnects at chunk
boundaries.  The oracle (reference = the encoder's *input*) is evaluated after every chunk.
See DESIGN.md section 2 / C05.
"""
import itertools

from twisted.internet import defer, error
from twisted.internet.interfaces import IStreamClientEndpoint
from twisted.internet.protocol import Factory, Protocol
from twisted.python.failure import Failure
from zope.interface import implementer

from .. import gen
from ..refs import socks5 as S
from ..wire import RecTransport

PROPERTY = "C05"
READY = True
LEVEL = "exploration"
TECHNIQUE = ("runtime monitoring: application-protocol / Deferred / wire recorders on the real _SocksMachine and "
             "_TorSocksProtocol + reference SOCKS5 reply encoder as oracle, evaluated after every delivered chunk; all 256 reply "
             "codes x 4 address types, exhaustive 1-/2-cut segmentations, disconnect at every chunk boundary; icontract "
             "postcondition relaying => empty buffer")
LEVEL_TEXT = ("Held on the executions observed: ~56k (quick) to ~1.45M (thorough) scripted server streams, the "
              "oracle evaluated after every chunk. Reply codes 0..255 x address types and domain lengths 1..255 are enumerated "
              "completely, as are all 1- and 2-cut segmentations (and every boundary disconnect) of the short streams "
              "(thorough: for every one of the 256 codes x 4 address types); "
              "application bytes and longer segmentations are seeded samples - not a proof for unexplored streams.")
LEVEL_NOTE = ("Trusted: vf.refs.socks5 encoder (self-tested against an independent decoder), the causal server script and "
              "transport double in this module, Twisted's behaviour of dropping a connection whose dataReceived raised and of "
              "not reading after loseConnection (both emulated).")
RULE = ("a case = request type (CONNECT / RESOLVE / RESOLVE_PTR) x entry point (_SocksMachine, _TorSocksProtocol, "
        "TorSocksEndpoint.connect, socks.resolve / resolve_ptr) x method reply (ok / wrong version / method 1, 2, 0xFF) x "
        "request reply (version, code 0..255, address type IPv4 / IPv6 / domain of length 1..255 / unknown, bound address) x "
        "0..64 application bytes x one segmentation of the stream x optional disconnect after the k-th chunk. Distinct = hash "
        "of that tuple. Non-trivial = at least one completion outcome (connect()/when_done()) was compared with the reference.")
ASSUMPTIONS = [
    "server model is causal: the method reply is delivered only after the greeting was written, the request reply only after request bytes were written; application bytes may share a chunk with the end of the success reply",
    "a chunk that carries method-reply and request-reply bytes together violates causality: counted (acausal_cases), only at-most-once / nothing-before-success / prefix safety is judged on it",
    "replies are well-formed per RFC 1928 section 6 (RSV 0) except for the deliberately wrong version / unknown address type; unknown-address-type replies carry 4..6 raw bytes + port (>= 8 bytes in all); zero-length domain replies are not generated",
    "expected errors: the class named after the RFC 1928 reply code for codes 1..8, SocksError with .code == code for other non-zero codes; any SocksError for wrong version / refused method / unknown address type (a non-zero reply code is judged by its code even when the address type is unknown); any failure for a disconnect",
    "failure must have been reported by quiescence (whole script delivered or connection lost); success must have been reported by the end of the chunk carrying the last byte of the success reply",
    "a disconnect between the code byte and the end of a failure reply may be reported as either",
    "an exception escaping dataReceived / feed_data drops the connection (Twisted reactor behaviour, emulated); after the client calls loseConnection nothing more is delivered",
    "the application protocol's connectionLost notification and the decoded bound address/port handed to it are not judged",
    "TLS wrapping (tls=True) is not driven; RESOLVE/RESOLVE_PTR replies are followed by no further bytes",
    "domain-type replies may carry octets >= 0x80 in the name (the field is length-prefixed bytes): a CONNECT must still succeed and relay; a resolve must complete exactly once with the name as bytes or as text that encodes back to it (ascii / utf-8 / latin-1 / surrogateescape); a text with replacement characters for the non-ASCII octets is accepted and counted",
    "the relaying layer is the application protocol's transport: like a Twisted transport it must hand over immutable bytes it never touches again (a double keeps the objects and re-reads them later) and must call the protocol's CURRENT dataReceived (doubles re-point their dataReceived at connectionMade / after the first delivery, as HTTPChannel and conch do); the type handed over is recorded, not judged",
    "delivery is never re-entrant: dataReceived/feed_data is not called from inside transport.write or a send_data drain callback (the ITransport contract: writes are buffered; no Twisted transport re-enters)",
]
TRUSTED_BASE = ["vf.refs.socks5 (reply encoder, self-tested against an independent decoder; IPv6 text parser cross-checked with ipaddress)",
                "causal server script + vf.wire.RecTransport", "Twisted Protocol.makeConnection / inlineCallbacks / Deferred"]
ANCHORS = [
    "txtorcon.socks:_SocksMachine.feed_data",
    "txtorcon.socks:_SocksMachine._parse_version_reply",
    "txtorcon.socks:_SocksMachine._parse_request_reply",
    "txtorcon.socks:_SocksMachine._parse_ipv4_reply",
    "txtorcon.socks:_SocksMachine._parse_ipv6_reply",
    "txtorcon.socks:_SocksMachine._parse_domain_name_reply",
    "txtorcon.socks:_SocksMachine._make_connection",
    "txtorcon.socks:_SocksMachine._relay_data",
    "txtorcon.socks:_SocksMachine._disconnect",
    "txtorcon.socks:_SocksMachine._domain_name_resolved",
    "txtorcon.socks:_TorSocksProtocol._create_connection",
    "txtorcon.socks:_create_socks_error",
    "txtorcon.socks:TorSocksEndpoint.connect",
    "txtorcon.socks:resolve",
    "txtorcon.socks:resolve_ptr",
]
FLOORS = {
    "quick": {"evaluations": 6000, "chunks_judged": 25000, "outcomes_compared": 15000, "app_bytes_compared": 20000,
              "app_writes_compared": 5000, "disconnects_injected": 1500, "contract_evaluations": 24000,
              "error_classes_compared": 5000, "resolve_results_compared": 500,
              "resolve_nonascii_names_compared": 200, "kept_chunks_reread": 2000, "rebound_handler_bytes_compared": 4000,
              "reach:txtorcon.socks:_SocksMachine._parse_request_reply": 15000,
              "reach:txtorcon.socks:_SocksMachine._relay_data": 800,
              "reach:txtorcon.socks:_SocksMachine._make_connection": 500,
              "reach:txtorcon.socks:_create_socks_error": 1400,
              "reach:txtorcon.socks:TorSocksEndpoint.connect": 1400},
    "thorough": {"evaluations": 140000, "chunks_judged": 450000, "outcomes_compared": 350000,
                 "app_bytes_compared": 600000, "app_writes_compared": 150000, "disconnects_injected": 50000,
                 "contract_evaluations": 400000, "error_classes_compared": 150000, "resolve_results_compared": 8000,
                 "resolve_nonascii_names_compared": 1300, "kept_chunks_reread": 160000,
                 "rebound_handler_bytes_compared": 200000,
                 "reach:txtorcon.socks:_SocksMachine._parse_request_reply": 230000,
                 "reach:txtorcon.socks:_SocksMachine._relay_data": 20000,
                 "reach:txtorcon.socks:_SocksMachine._make_connection": 11000,
                 "reach:txtorcon.socks:_create_socks_error": 49000,
                 "reach:txtorcon.socks:TorSocksEndpoint.connect": 40000},
}

METHOD_REPLIES = {"ok": (5, 0), "m1": (5, 1), "m2": (5, 2), "mff": (5, 0xFF), "v4": (4, 0), "v6": (6, 0), "v0": (0, 0)}
# RFC 1928 section 6 reply code -> the exception txtorcon exports for it
ERROR_CLASS = {1: "GeneralServerFailureError", 2: "ConnectionNotAllowedError", 3: "NetworkUnreachableError",
               4: "HostUnreachableError", 5: "ConnectionRefusedError", 6: "TtlExpiredError",
               7: "CommandNotSupportedError", 8: "AddressTypeNotSupportedError"}
KNOWN_ATYP = {S.ATYP_IPV4: "ipv4", S.ATYP_IPV6: "ipv6", S.ATYP_DOMAIN: "domain"}
DRIVES = {"CONNECT": ["machine", "machine-ondata", "proto", "endpoint", "endpoint-deferred"],
          "RESOLVE": ["machine", "machine-ondata", "proto", "api"],
          "RESOLVE_PTR": ["machine", "machine-ondata", "proto", "api"]}
DEFAULT_HOST = {"CONNECT": "example.com", "RESOLVE": "example.com", "RESOLVE_PTR": "1.2.3.4"}


# ---------------------------------------------------------------------------
# pure helpers: the script, the expectation, the structural class

def mk(req, drive, m="ok", r=None, app=b"", mcut=0, cuts=(), glue=False, disc=None, host=None, port=443,
       greet=b"HELLO", echo=True):
    return {"req": req, "drive": drive, "host": host or DEFAULT_HOST[req], "port": port, "m": m,
            "r": list(r) if r is not None else None, "app": app, "mcut": mcut, "cuts": list(cuts),
            "glue": glue, "disc": disc, "greet": greet, "echo": echo}


def script(case):
    """-> (method chunks, tail bytes, reply length)"""
    ver, method = METHOD_REPLIES[case["m"]]
    mrep = S.encode_method_reply(method, ver=ver)
    mchunks = [mrep[:1], mrep[1:]] if case["mcut"] else [mrep]
    r = case["r"]
    if case["m"] != "ok" or r is None:
        return mchunks, b"", 0
    rver, code, atyp, addr, bport = r
    rep = S.encode_reply(code, atyp, addr, bport, ver=rver)
    app = case["app"] if atyp in KNOWN_ATYP else b""
    return mchunks, rep + app, len(rep)


def expect(case):
    ver, method = METHOD_REPLIES[case["m"]]
    if ver != 5 or method != 0:
        return {"kind": "fail", "why": "method", "code": None, "strict": False}
    rver, code, atyp, addr, bport = case["r"]
    if rver != 5:
        return {"kind": "fail", "why": "reply-version", "code": None, "strict": False}
    if code != 0:
        # a reply with a non-zero code is a failure reply whatever its address type says
        # ("the SOCKS error that corresponds to the reply code"); servers do send ATYP 0 there
        return {"kind": "fail", "why": "reply-code", "code": code, "strict": True}
    if atyp not in KNOWN_ATYP:
        return {"kind": "fail", "why": "address-type", "code": None, "strict": False}
    if case["req"] == "CONNECT":
        return {"kind": "connect"}
    return {"kind": "resolve", "atyp": atyp, "addr": bytes(addr)}


def reply_class(case):
    parts = [case["req"].lower()]
    if case["m"] != "ok":
        parts.append("method-reply-" + case["m"])
        return "+".join(parts)
    rver, code, atyp, addr, bport = case["r"]
    if rver != 5:
        parts.append("reply-wrong-version")
    elif code == 0:
        parts.append("success")
    elif code in ERROR_CLASS:
        parts.append("known-error-code")
    else:
        parts.append("unknown-error-code")
    if atyp == S.ATYP_DOMAIN and any(b >= 0x80 for b in bytes(addr)):
        parts.append("domain-non-ascii")      # a name with octets >= 0x80 (legal in the length-prefixed field)
    else:
        parts.append(KNOWN_ATYP.get(atyp, "unknown-atyp"))
    return "+".join(parts)


def seg_signature(case, reply_len, tail_len):
    if not tail_len:
        return "method-only"
    names = set()
    for c in case["cuts"]:
        if not 0 < c < tail_len:
            continue
        if c < 4:
            names.add("header")
        elif c < reply_len - 2:
            names.add("addr")
        elif c < reply_len:
            names.add("port")
        elif c == reply_len:
            names.add("reply-end")
        else:
            names.add("app")
    n = len([c for c in set(case["cuts"]) if 0 < c < tail_len])
    return "%s cuts:%s%s%s" % (n if n < 3 else ("all" if n == tail_len - 1 else "many"), ",".join(sorted(names)),
                               " glued" if case["glue"] else "", " mcut" if case["mcut"] else "")


def text_denotes(text, name):
    """does this str stand for exactly these name bytes under a lossless codec"""
    for codec, errors in (("ascii", "strict"), ("utf-8", "strict"), ("latin-1", "strict"), ("utf-8", "surrogateescape"),
                          ("ascii", "surrogateescape")):
        try:
            if text.encode(codec, errors) == name:
                return True
        except (UnicodeError, ValueError):
            pass
    return False


def lossy_renditions(name):
    return {name.decode("ascii", "replace"), name.decode("utf-8", "replace"), name.decode("ascii", "ignore"),
            name.decode("ascii", "backslashreplace"), name.decode("utf-8", "backslashreplace")}


def decode_resolved(value):
    """what a resolve result may look like: text or bytes"""
    if isinstance(value, bytes):
        return value, value.decode("latin1")
    if isinstance(value, str):
        return None, value
    return None, None


# ---------------------------------------------------------------------------
# contract + transition tracer on the real class (installed once per process)

CONTRACT = {"evals": 0, "breaches": [], "installed": None}
TRANSITIONS = set()


def relaying_implies_buffer_empty(machine):
    """_SocksMachine: in state `relaying`, `_data == b''` after every feed_data (records, never raises)"""
    CONTRACT["evals"] += 1
    tr = getattr(machine, CONTRACT["symbol"], None)
    if tr is not None and tr._state.method.__name__ == "relaying" and machine._data != b"":
        CONTRACT["breaches"].append(len(machine._data))
    return True


def install_contract():
    if CONTRACT["installed"]:
        return
    from txtorcon import socks
    M = socks._SocksMachine
    CONTRACT["symbol"] = M._machine._symbol
    try:
        import icontract
        # icontract.invariant cannot decorate the class (automat forbids getattr on output methods):
        # the invariant is attached as a postcondition of the one method the statement names
        M.feed_data = icontract.ensure(lambda self: relaying_implies_buffer_empty(self))(M.feed_data)
        CONTRACT["installed"] = "icontract.ensure"
    except ImportError:
        orig = M.feed_data

        def feed_data(self, data):
            r = orig(self, data)
            relaying_implies_buffer_empty(self)
            return r
        M.feed_data = feed_data
        CONTRACT["installed"] = "manual hook"


def _trace(old, inp, new):
    TRANSITIONS.add("%s --%s--> %s" % (old, inp, new))


def _fix_reach():
    """vf.reach resolves anchors with getattr(), which automat refuses for output methods;
    register their code objects here (wish: reach._resolve should look through .method)"""
    import sys
    from .. import reach
    from txtorcon import socks
    for name in ANCHORS:
        modname, qual = name.split(":")
        parts = qual.split(".")
        if len(parts) != 2 or parts[0] != "_SocksMachine":
            continue
        raw = socks._SocksMachine.__dict__.get(parts[1])
        fn = getattr(raw, "method", raw)
        seen = 0
        while hasattr(fn, "__wrapped__") and seen < 5:
            fn = fn.__wrapped__
            seen += 1
        code = getattr(fn, "__code__", None)
        if code is None:
            continue
        for k in [k for k in reach._counts if k.startswith(name + " (unresolved")]:
            del reach._counts[k]
        if code not in reach._code_names:
            reach._code_names[code] = name
            reach._counts.setdefault(name, 0)
            sys.monitoring.set_local_events(reach._TOOL, code, sys.monitoring.events.PY_START)


# ---------------------------------------------------------------------------
# one execution

class Watch(object):
    """completion outcome of one Deferred, with the stream position at which it fired"""
    __slots__ = ("label", "fired", "ok", "value", "at_end", "at_chunk")

    def __init__(self, label):
        self.label = label
        self.fired = 0
        self.ok = None
        self.value = None
        self.at_end = None
        self.at_chunk = None

    def describe(self):
        if not self.fired:
            return "pending"
        if self.ok:
            v = self.value
            return ["ok", type(v).__name__, repr(v)[:60] if isinstance(v, (bytes, str, int, type(None))) else ""]
        return ["err", type(self.value).__name__, str(self.value)[:80], getattr(self.value, "code", None)]


class Run(object):
    def __init__(self, case):
        self.case = case
        self.builds = []            # (cur_end at build, chunk index, app object, bytes written before)
        self.watches = []
        self.escaped = []           # exceptions escaping feed_data / dataReceived / connectionLost
        self.cur_end = 0            # tail bytes delivered once the current chunk is in
        self.cur_chunk = -1
        self.closed = False         # connection is gone (client closed / harness dropped it)
        self.closed_by_client = False
        self.disc_at = None         # (tail bytes delivered, method bytes delivered) at the injected disconnect
        self.transport = None
        self.machine = None
        self.proto = None
        self.stalled = None

    def watch(self, d, label):
        w = Watch(label)
        self.watches.append(w)

        def both(res):
            w.fired += 1
            w.at_end = self.cur_end
            w.at_chunk = self.cur_chunk
            if isinstance(res, Failure):
                w.ok = False
                w.value = res.value
            else:
                w.ok = True
                w.value = res
            return None
        d.addBoth(both)
        return w


APPMODES = ["copy", "keep", "rebind-made", "copy", "keep", "rebind-first", "copy"]


class App(Protocol):
    """recording application protocol: logs what it is given, writes a greeting and an echo.

    case["appmode"]: "copy" copies each chunk at once; "keep" also keeps the very objects it was handed and
    re-reads them later (as protocols that join their chunks at the end do); "rebind-made" / "rebind-first"
    re-point the instance's dataReceived at connectionMade / after the first delivery (as Twisted's HTTPChannel
    and conch do) -- a transport looks dataReceived up on every delivery, so bytes given to the replaced handler
    have not reached the protocol.
    """

    def __init__(self, case):
        self.case = case
        self.mode = case.get("appmode", "copy")
        self.received = b""         # copied at reception, through the handler that is current
        self.kept = []              # "keep": the objects as handed over
        self.stale = b""            # bytes that arrived at a handler the protocol had already replaced
        self.types = set()
        self.rebound = False
        self.made = []
        self.lost = []
        self.writes = []
        self.write_errors = []

    def makeConnection(self, transport):
        self.made.append(transport)
        Protocol.makeConnection(self, transport)

    def connectionMade(self):
        if self.mode == "rebind-made":
            self._rebind()
        if self.case["greet"]:
            self._w(self.case["greet"])

    def _rebind(self):
        self.rebound = True
        self.dataReceived = self._current_handler       # instance attribute shadows the class method

    def _take(self, data):
        self.types.add(type(data).__name__)
        self.received += bytes(data)
        if self.mode == "keep":
            self.kept.append(data)
        if self.case["echo"]:
            self._w(b"<" + bytes(data) + b">")

    def dataReceived(self, data):
        if self.rebound:
            self.stale += bytes(data)
            return
        self._take(data)
        if self.mode == "rebind-first":
            self._rebind()

    def _current_handler(self, data):
        self._take(data)

    def reread(self):
        return b"".join(bytes(c) for c in self.kept)

    def _w(self, data):
        self.writes.append(data)
        try:
            self.transport.write(data)
        except Exception as e:
            self.write_errors.append(repr(e)[:80])

    def connectionLost(self, reason):
        self.lost.append(reason)


class AppFactory(Factory):
    def __init__(self, run):
        self.run = run

    def buildProtocol(self, addr):
        run = self.run
        a = App(run.case)
        run.builds.append((run.cur_end, run.cur_chunk, a, run.transport.value()))
        return a


@implementer(IStreamClientEndpoint)
class Proxy(object):
    """the SOCKS port as an endpoint: connects the built protocol to the recording transport"""

    def __init__(self, run, tracer_setter):
        self.run = run
        self.set_trace = tracer_setter

    def connect(self, factory):
        run = self.run
        try:
            p = factory.buildProtocol(run.transport.getPeer())
            run.proto = p
            self.set_trace(p._machine)
            p.makeConnection(run.transport)
        except Exception:
            return defer.fail(Failure())
        return defer.succeed(p)


def build_harness(run):
    """instantiate the real code for run.case; returns (written, deliver, disconnect, late_watch)"""
    from txtorcon import socks
    case = run.case
    req, host, port, drive = case["req"], case["host"], case["port"], case["drive"]
    set_trace = socks._SocksMachine._machine._setTrace

    def escaped(where, e):
        run.escaped.append((where, type(e).__name__, str(e)[:100]))

    if drive in ("machine", "machine-ondata"):
        out = []
        dis = []

        def create(addr, bport):
            a = App(case)
            a.case = dict(case, greet=b"", echo=False)      # no transport at machine level: nothing to write to
            run.builds.append((run.cur_end, run.cur_chunk, a, None))
            return a
        kw = {}
        if drive == "machine-ondata":
            kw["on_data"] = out.append
        if req == "CONNECT":
            kw["create_connection"] = create
        sm = socks._SocksMachine(req, host, port, on_disconnect=dis.append, **kw)
        run.machine = sm
        set_trace.__get__(sm)(_trace)
        run.watch(sm.when_done(), "when_done")
        if len(case["cuts"]) % 2:
            run.watch(sm.when_done(), "when_done#2")
        sm.connection()

        def written():
            if drive == "machine":
                sm.send_data(out.append)
            return b"".join(out)

        def drop(reason):
            run.closed = True
            try:
                sm.disconnected(socks.SocksError(reason))
            except Exception as e:
                escaped("disconnected", e)

        def deliver(data):
            try:
                sm.feed_data(data)
            except Exception as e:
                escaped("feed_data", e)
                drop(str(e))
                return
            if dis and not run.closed:
                run.closed_by_client = True
                drop("closed by client")

        def disconnect():
            drop("connection lost")

        def late_watch():
            return run.watch(sm.when_done(), "when_done(late)")
        return written, deliver, disconnect, late_watch

    run.transport = RecTransport()
    proxy = Proxy(run, lambda m: set_trace.__get__(m)(_trace))
    if drive == "endpoint":
        d = socks.TorSocksEndpoint(proxy, host, port).connect(AppFactory(run))
    elif drive == "endpoint-deferred":
        d = socks.TorSocksEndpoint(defer.succeed(proxy), host, port).connect(AppFactory(run))
    elif drive == "api":
        d = socks.resolve(proxy, host) if req == "RESOLVE" else socks.resolve_ptr(proxy, host)
    elif drive == "proto":
        fac = socks._TorSocksFactory(host, port, req, AppFactory(run) if req == "CONNECT" else None)
        d = proxy.connect(fac).addCallback(lambda p: p.when_done())
    else:
        raise RuntimeError("unknown drive %r" % (drive,))
    run.watch(d, drive)

    def written():
        return run.transport.value()

    def drop(reason):
        run.closed = True
        run.transport.lost = True
        if run.proto is not None:
            try:
                run.proto.connectionLost(reason)
            except Exception as e:
                escaped("connectionLost", e)

    def deliver(data):
        try:
            run.proto.dataReceived(data)
        except Exception as e:
            escaped("dataReceived", e)
            drop(Failure(e))
            return
        if run.transport.disconnecting and not run.closed:
            run.closed_by_client = True
            drop(Failure(error.ConnectionDone()))

    def disconnect():
        k = len(case["cuts"]) % 2
        drop(Failure(error.ConnectionLost() if k else error.ConnectionDone()))

    def late_watch():
        if run.proto is None:
            return None
        return run.watch(run.proto.when_done(), "when_done(late)")
    return written, deliver, disconnect, late_watch


class Judge(object):
    """the C05 oracle; step() after every chunk, final() at quiescence"""

    def __init__(self, run, rec, tail, reply_len):
        self.run = run
        self.rec = rec
        self.case = run.case
        self.tail = tail
        self.reply_len = reply_len
        self.exp = expect(run.case)
        self.icls = reply_class(run.case)
        self.bad = []
        self.acausal = False
        self.compared = 0
        self.end_chunk_had_app = False      # did the chunk with the last reply byte also carry application bytes

    def V(self, clause, detail, suffix=None):
        if clause in self.bad:
            return
        self.bad.append(clause)
        detail = dict(detail)
        detail["outcomes"] = [w.describe() for w in self.run.watches]
        if self.run.escaped:
            detail["exceptions_escaped"] = self.run.escaped[:3]
        self.rec.violation(clause, self.icls + ("+" + suffix if suffix else ""), detail, self.case)

    def coalesced(self):
        return "app-coalesced-with-reply" if self.end_chunk_had_app else "app-in-later-chunk"

    # -- safety clauses that hold under any schedule
    def safety(self, td):
        run, exp = self.run, self.exp
        if len(run.builds) > 1:
            self.V("app-built-twice", {"builds": len(run.builds)})
        for (at_end, at_chunk, app, pre) in run.builds:
            if exp["kind"] != "connect":
                self.V("app-built-without-success-reply", {"built_in_chunk": at_chunk})
            elif at_end < self.reply_len:
                self.V("app-built-before-full-reply", {"built_in_chunk": at_chunk, "tail_bytes_then": at_end,
                                                       "reply_len": self.reply_len})
        for w in run.watches:
            if w.fired > 1:
                self.V("outcome-fired-twice", {"label": w.label})
            if w.fired and w.ok and not (exp["kind"] in ("connect", "resolve") and w.at_end >= self.reply_len > 0):
                self.V("succeeded-without-full-success-reply", {"label": w.label, "tail_bytes_then": w.at_end,
                                                                "reply_len": self.reply_len})
        for e in run.escaped:
            if e[1] == "AlreadyCalledError":
                self.V("outcome-fired-twice", {"exception": e})
        if run.builds and exp["kind"] == "connect":
            app = run.builds[0][2]
            want = self.tail[self.reply_len:td]
            if not want.startswith(app.received) and not app.stale:
                self.V("app-bytes-corrupt", {"got": app.received[:80], "want": want[:80]}, self.coalesced())

    def step(self, td, chunk_no):
        run, exp, rec = self.run, self.exp, self.rec
        rec.count("chunks_judged")
        self.safety(td)
        if CONTRACT["breaches"]:
            n = CONTRACT["breaches"]
            CONTRACT["breaches"] = []
            if not self.acausal:
                self.V("contract-relaying-buffer-nonempty", {"buffered_bytes": n[0], "after_chunk": chunk_no},
                       self.coalesced())
        if self.acausal:
            return
        complete = self.reply_len > 0 and td >= self.reply_len
        if not complete or exp["kind"] == "fail":
            return
        # a complete success reply has been delivered
        for w in run.watches:
            self.compared += 1
            rec.count("outcomes_compared")
            if not w.fired:
                self.V("success-not-reported-at-full-reply", {"label": w.label, "after_chunk": chunk_no})
            elif not w.ok:
                self.V("success-reply-failed", {"label": w.label, "after_chunk": chunk_no})
            elif exp["kind"] == "connect":
                if not run.builds or w.value is not run.builds[0][2]:
                    self.V("connect-result-not-app-protocol", {"label": w.label})
            else:
                self.check_resolved(w)
        if exp["kind"] != "connect":
            return
        if not run.builds:
            self.V("app-not-built-at-success", {"after_chunk": chunk_no, "tail_bytes_delivered": td})
            return
        at_end, at_chunk, app, pre = run.builds[0]
        want = self.tail[self.reply_len:td]
        rec.count("app_bytes_compared", len(want))
        if app.received != want and want.startswith(app.received) and not app.stale:
            self.V("app-bytes-withheld", {"got": app.received[:80], "want": want[:80], "after_chunk": chunk_no,
                                          "withheld": len(want) - len(app.received)}, self.coalesced())
        if app.stale:
            self.V("app-bytes-to-replaced-handler", {"stale_handler_got": app.stale[:80], "current_handler_got": app.received[:80],
                                                     "appmode": app.mode}, self.coalesced())
        if app.rebound:
            rec.count("rebound_handler_bytes_compared", len(want))
        if app.mode == "keep":
            rec.count("kept_chunks_reread", len(app.kept))
            if app.reread() != app.received:
                self.V("app-chunk-mutated-after-delivery", {"at_delivery": app.received[:80], "reread_later": app.reread()[:80],
                                                            "types_handed": sorted(app.types)}, self.coalesced())
        if app.types - {"bytes"}:
            rec.count("app_data_non_bytes_type_seen")
        if run.transport is not None:
            rec.count("app_writes_compared", len(app.writes))
            if app.made != [run.transport]:
                self.V("app-not-connected-to-socks-transport", {"makeConnection_calls": len(app.made)})
            elif app.write_errors or run.transport.value() != pre + b"".join(app.writes):
                self.V("app-write-not-on-transport", {"wire_after_handshake": run.transport.value()[len(pre):][:80],
                                                      "app_wrote": b"".join(app.writes)[:80],
                                                      "write_errors": app.write_errors[:2]})

    def check_resolved(self, w):
        exp = self.exp
        raw, text = decode_resolved(w.value)
        okv = False
        try:
            if text is None:
                okv = False
            elif exp["atyp"] == S.ATYP_IPV4:
                okv = S.ipv4_bytes(text) == exp["addr"]
            elif exp["atyp"] == S.ATYP_IPV6:
                okv = S.ipv6_bytes(text) == exp["addr"]
            else:
                okv = raw == exp["addr"] or text_denotes(text, exp["addr"])
                if not okv and any(b >= 0x80 for b in exp["addr"]) and text in lossy_renditions(exp["addr"]):
                    # a name with non-ASCII octets rendered as str with replacement characters: the statement
                    # does not say which text such a name has; accepted, counted
                    okv = True
                    self.rec.count("resolve_nonascii_name_lossy_text_accepted")
                if any(b >= 0x80 for b in exp["addr"]):
                    self.rec.count("resolve_nonascii_names_compared")
        except ValueError:
            okv = False
        self.rec.count("resolve_results_compared")
        if not okv:
            self.V("resolve-result-mismatch", {"got": repr(w.value)[:80], "want_atyp": exp["atyp"], "want": exp["addr"][:80]})

    def check_error(self, w):
        from txtorcon import socks
        exp = self.exp
        e = w.value
        if not isinstance(e, socks.SocksError):
            return "not a SocksError"
        code = exp["code"]
        if code is None:
            return None
        if not exp["strict"]:
            if e.code is not None and e.code != code:
                return "carries code %r" % (e.code,)
            return None
        cls = ERROR_CLASS.get(code)
        if cls is not None and type(e).__name__ != cls:
            return "class %s, want %s" % (type(e).__name__, cls)
        if cls is None and type(e) is not socks.SocksError and e.code != code:
            return "class %s" % type(e).__name__
        if e.code != code:
            return "code %r, want %r" % (e.code, code)
        return None

    def final(self, td, md):
        """quiescence: the whole script was delivered, or the connection is gone"""
        run, exp, rec = self.run, self.exp, self.rec
        self.safety(td)
        if self.acausal:
            rec.count("acausal_cases")
            return
        if run.stalled:
            rec.count("stalled_" + run.stalled)
            return
        success_complete = exp["kind"] != "fail" and self.reply_len > 0 and td >= self.reply_len
        fail_complete = exp["kind"] == "fail" and ((exp["why"] == "method" and md >= 2)
                                                   or (exp["why"] != "method" and self.reply_len > 0 and td >= self.reply_len))
        if run.disc_at is not None:
            dtd, dmd = run.disc_at
            if success_complete:
                where = "disc-after-success"
            elif dmd < 2:
                where = "disc-before-method-reply"
            elif dtd == 0:
                where = "disc-before-request-reply"
            elif dtd < self.reply_len:
                where = "disc-inside-request-reply"
            else:
                where = "disc-after-request-reply"
        else:
            where = None
        harness_disc = run.disc_at is not None
        for w in run.watches:
            self.compared += 1
            rec.count("outcomes_compared")
            if success_complete:
                # judged by step() at the chunk that completed the reply; it must still stand
                flagged = [b for b in self.bad if b.startswith("success-")]
                if (w.fired != 1 or not w.ok) and not flagged:
                    self.V("success-not-standing-at-quiescence", {"label": w.label}, where)
            elif exp["kind"] == "fail" and (fail_complete or (run.closed and not harness_disc)):
                # the whole failure reply was delivered, or the client gave up by itself on what it had seen
                if not w.fired:
                    self.V("failure-not-reported", {"label": w.label}, where)
                elif w.ok:
                    self.V("failure-reply-succeeded", {"label": w.label}, where)
                else:
                    why = self.check_error(w)
                    rec.count("error_classes_compared")
                    if why:
                        self.V("failure-wrong-error", {"label": w.label, "why": why, "reply_code": exp.get("code")})
            elif harness_disc:
                # the connection was lost before the outcome was decided: any failure, exactly once
                if not w.fired:
                    self.V("disconnect-not-reported", {"label": w.label}, where)
                elif w.ok:
                    self.V("disconnect-reported-as-success", {"label": w.label}, where)
                else:
                    rec.count("disconnect_failures_seen")
            elif exp["kind"] != "fail":
                # a success reply was on its way and the client gave up / broke by itself
                if w.fired and not w.ok:
                    self.V("success-reply-failed", {"label": w.label, "tail_bytes_delivered": td,
                                                    "reply_len": self.reply_len})
                else:
                    self.V("success-not-reported-at-full-reply", {"label": w.label, "tail_bytes_delivered": td})
            else:
                rec.count("script_incomplete")


def run_case(case, rec):
    install_contract()
    CONTRACT["breaches"] = []
    mchunks, tail, reply_len = script(case)
    tchunks = []
    last = 0
    for c in sorted(set(case["cuts"])):
        if 0 < c < len(tail):
            tchunks.append(tail[last:c])
            last = c
    if tail[last:]:
        tchunks.append(tail[last:])
    # chunk list: (bytes, method bytes in it, tail bytes in it)
    chunks = [(c, len(c), 0) for c in mchunks] + [(c, 0, len(c)) for c in tchunks]
    acausal = False
    if case["glue"] and tchunks:
        k = len(mchunks) - 1
        a, b = chunks[k], chunks[k + 1]
        chunks[k:k + 2] = [(a[0] + b[0], a[1], b[2])]
        acausal = True
    run = Run(case)
    try:
        written, deliver, disconnect, late_watch = build_harness(run)
    except Exception as e:
        rec.count("harness_setup_failed")
        rec.note("setup failed for %r: %r" % (case["drive"], e))
        rec.case(case, nontrivial=False)
        return ["setup"]
    j = Judge(run, rec, tail, reply_len)
    j.acausal = acausal
    td = md = 0
    disc = case["disc"]
    for idx, (data, nm, nt) in enumerate(chunks):
        if disc is not None and disc == idx:
            break
        if run.closed:
            break
        w = written()
        if not w:
            run.stalled = "no-greeting-written"
            break
        if nt and not nm and len(w) <= 3:
            run.stalled = "no-request-written"
            break
        run.cur_chunk = idx
        run.cur_end = td + nt
        if nt and td < reply_len <= td + nt:
            j.end_chunk_had_app = td + nt > reply_len
        deliver(data)
        td += nt
        md += nm
        j.step(td, idx)
    if disc is not None and not run.closed and not run.stalled and disc <= len(chunks):
        run.disc_at = (td, md)
        run.cur_chunk = len(chunks)
        rec.count("disconnects_injected")
        disconnect()
        j.step(td, "disconnect")
    if run.closed_by_client:
        rec.count("client_closed_connection")
    lw = late_watch()
    j.final(td, md)
    if lw is not None and not j.acausal and not run.stalled:
        first = run.watches[0]
        if first.fired:
            same = lw.fired == 1 and lw.ok == first.ok and (
                (lw.ok and (lw.value is first.value or lw.value == first.value)) or
                (not lw.ok and type(lw.value) is type(first.value)))
            if not same:
                j.V("late-when-done-differs", {"first": first.describe(), "late": lw.describe()})
    if run.escaped:
        rec.count("exceptions_escaped")
        rec.seen("exception_sites", "%s:%s:%s" % (j.icls, run.escaped[0][0], run.escaped[0][1]))
    if run.transport is not None and run.transport.writes_after_loss:
        rec.count("writes_after_loss_seen")
    if run.builds and run.builds[0][2].lost:
        rec.count("app_connection_lost_seen")
    rec.count("contract_evaluations", CONTRACT["evals"])
    CONTRACT["evals"] = 0
    rec.case(case, nontrivial=j.compared > 0)
    rec.seen("segmentation_shapes", seg_signature(case, reply_len, len(tail)))
    rec.seen("reply_classes", j.icls)
    return j.bad


# ---------------------------------------------------------------------------
# workloads

def rbytes(rnd, n):
    return bytes(rnd.randrange(256) for _ in range(n))


def name_bytes(rnd, n):
    alphabet = "abcdefghijklmnopqrstuvwxyz0123456789-."
    return "".join(rnd.choice(alphabet) for _ in range(n)).encode("ascii")


NAMES8 = [b"caf\xe9.example", "b\u00fccher.example".encode("utf8"), "\u043f\u0440\u0438\u043c\u0435\u0440.\u0440\u0444".encode("utf8"),
          b"\xff", b"\x80", b"a\xc3", b"\xe9", "\u4f8b\u3048.jp".encode("utf8")]


def name_bytes8(rnd, n):
    """a name of n bytes with at least one octet >= 0x80 (Latin-1, UTF-8, truncated UTF-8, arbitrary)"""
    r = rnd.random()
    if r < 0.4:
        base = bytearray(name_bytes(rnd, n))
        for _ in range(rnd.choice([1, 1, 2, n])):
            base[rnd.randrange(n)] = rnd.randrange(0x80, 0x100)
        return bytes(base)
    if r < 0.7:
        b = (rnd.choice(NAMES8) * (n // 2 + 1))[:n]
        if all(c < 0x80 for c in b):
            b = b[:-1] + b"\xe9"
        return b
    b = bytearray(rnd.randrange(256) for _ in range(n))
    b[rnd.randrange(n)] = rnd.randrange(0x80, 0x100)
    return bytes(b)


def addr_for(rnd, atyp_kind, dlen=None):
    """-> (atyp, addr bytes)"""
    if atyp_kind == "ipv4":
        return S.ATYP_IPV4, rbytes(rnd, 4)
    if atyp_kind == "ipv6":
        return S.ATYP_IPV6, rbytes(rnd, 16)
    if atyp_kind == "domain":
        return S.ATYP_DOMAIN, name_bytes(rnd, dlen or rnd.choice([1, 2, 7, 11, 30, rnd.randint(1, 255)]))
    if atyp_kind == "domain8":
        return S.ATYP_DOMAIN, name_bytes8(rnd, dlen or rnd.choice([1, 2, 7, 11, 30, rnd.randint(1, 255)]))
    return rnd.choice([0, 2, 5, 6, 0x7F, 0xAF, 0xFF]), rbytes(rnd, rnd.choice([4, 5, 6]))


def app_bytes(rnd, n):
    r = rnd.random()
    if r < 0.3:
        return (b"HTTP/1.1 200 OK\r\n\r\n" * 4)[:n]
    if r < 0.5:
        # looks like another SOCKS reply
        return (b"\x05\x00\x00\x01\x00\x00\x00\x00\x00\x00" * 7)[:n]
    return rbytes(rnd, n)


def drive_for(req, i):
    d = DRIVES[req]
    return d[i % len(d)]


def wl_codes(spec):
    """every reply code 0..255 x address type x version {5, other}"""
    out = []
    i = 0
    for code in range(256):
        if code % spec["mod"] != spec["rem"]:
            continue
        for kind in ("ipv4", "ipv6", "domain", "unknown", "domain8"):
            for rver in (5, None):
                if kind == "domain8" and (rver is None or code % 4 not in (0, 1)):
                    continue
                rnd = gen.rnd_for(spec["seed"], "C05codes", code, kind, rver)
                ver = 5 if rver == 5 else rnd.choice([0, 1, 4, 6, 0x50, 0xFF])
                atyp, addr = addr_for(rnd, kind)
                for req in ("CONNECT", "RESOLVE", "RESOLVE_PTR"):
                    if req != "CONNECT" and (code % 8 not in (0, 1)) and kind not in ("domain", "domain8"):
                        continue
                    app = app_bytes(rnd, rnd.choice([0, 1, 5, 64])) if req == "CONNECT" else b""
                    r = (ver, code, atyp, addr, rnd.randrange(65536))
                    n = len(S.encode_reply(code, atyp, addr, 0, ver=ver)) + len(app)
                    for seg in ("whole", "bytes", "random"):
                        i += 1
                        if seg == "whole":
                            cuts = []
                        elif seg == "bytes":
                            cuts = list(range(1, n))
                        else:
                            cuts = sorted(rnd.sample(range(1, n), min(n - 1, rnd.randint(1, 3))))
                        out.append(mk(req, drive_for(req, i), r=r, app=app, cuts=cuts, mcut=i % 2,
                                      disc=None if i % 5 else rnd.randint(0, len(cuts) + 2 + i % 2),
                                      echo=bool(i % 3), greet=b"HELLO" if i % 4 else b""))
    return out


def wl_cuts(spec):
    """all 1- (and 2-) cut segmentations of short streams x disconnect at every chunk boundary"""
    out = []
    rnd = gen.rnd_for(spec["seed"], "C05cuts", spec["shard"])
    variants = []
    for (kind, dlen) in spec["kinds"]:
        for (ver, code) in spec["replies"]:
            atyp, addr = addr_for(rnd, kind, dlen)
            variants.append((ver, code, atyp, addr, rnd.randrange(65536)))
    i = 0
    for r in variants:
        for req in spec["reqs"]:
            for applen in (spec["apps"] if req == "CONNECT" else [0]):
                app = app_bytes(rnd, applen)
                n = len(S.encode_reply(r[1], r[2], r[3], 0, ver=r[0])) + (len(app) if r[2] in KNOWN_ATYP else 0)
                cutsets = [()] + [(a,) for a in range(1, n)]
                if n <= spec["pairs_upto"]:
                    cutsets += list(itertools.combinations(range(1, n), 2))
                cutsets.append(tuple(range(1, n)))
                for cs in cutsets:
                    i += 1
                    drive = drive_for(req, i)
                    nchunks = 1 + len(cs) + 1
                    full = len(cs) <= 2 or spec.get("disc_bytewise", True)
                    discs = [None] + (list(range(0, nchunks + 1)) if full else [])
                    for disc in discs:
                        out.append(mk(req, drive, r=r, app=app, cuts=cs, disc=disc, echo=bool(i % 2)))
    return out


def wl_domains(spec):
    """success (and a few failure) replies with a domain-type address of every length 1..255"""
    out = []
    i = 0
    for L in range(1, 256):
        if L % spec["mod"] != spec["rem"]:
            continue
        rnd = gen.rnd_for(spec["seed"], "C05dom", L)
        for req in ("CONNECT", "RESOLVE", "RESOLVE_PTR"):
            name = name_bytes8(rnd, L) if L % 3 == 0 or L in (1, 2, 255) else name_bytes(rnd, L)
            app = app_bytes(rnd, rnd.choice([0, 1, 64])) if req == "CONNECT" else b""
            rl = 7 + L
            n = rl + len(app)
            segs = [[], [4], [5], [5 + L], [rl - 1], [8] if n > 8 else [], [7] if n > 7 else [],
                    sorted(rnd.sample(range(1, n), min(n - 1, 3)))]
            if app:
                segs += [[rl], [rl + 1] if n > rl + 1 else [rl]]
            if L % 8 == spec["rem"] % 8 or L in (1, 2, 3, 254, 255):
                segs.append(list(range(1, n)))
            for cuts in segs:
                i += 1
                code = 0 if i % 7 else rnd.choice([1, 4, 9, 200])
                out.append(mk(req, drive_for(req, i), r=(5, code, S.ATYP_DOMAIN, name, rnd.randrange(65536)), app=app,
                              cuts=cuts, mcut=i % 2, disc=None if i % 6 else rnd.randint(0, len(cuts) + 3)))
    return out


def wl_method(spec):
    """method replies: every kind x split x disconnect position (x glued request reply = acausal)"""
    out = []
    rnd = gen.rnd_for(spec["seed"], "C05method", spec["shard"])
    i = 0
    for m in METHOD_REPLIES:
        for mcut in (0, 1):
            for req in ("CONNECT", "RESOLVE", "RESOLVE_PTR"):
                for drive in DRIVES[req]:
                    for disc in [None, 0, 1, 2, 3]:
                        i += 1
                        atyp, addr = addr_for(rnd, rnd.choice(["ipv4", "ipv6", "domain"]))
                        r = (5, rnd.choice([0, 0, 5]), atyp, addr, 80)
                        out.append(mk(req, drive, m=m, r=r, app=b"xyz" if req == "CONNECT" else b"", mcut=mcut,
                                      disc=disc, cuts=[rnd.randint(1, 9)] if i % 2 else []))
                    if m == "ok":
                        atyp, addr = addr_for(rnd, rnd.choice(["ipv4", "ipv6", "domain"]))
                        out.append(mk(req, drive, m=m, r=(5, 0, atyp, addr, 80), app=b"xyz" if req == "CONNECT" else b"",
                                      mcut=mcut, glue=True, cuts=[rnd.randint(1, 9)] if i % 2 else []))
    return out


def wl_random(spec):
    out = []
    for i in range(spec["n"]):
        rnd = gen.rnd_for(spec["seed"], "C05", spec["shard"], i)
        req = rnd.choice(["CONNECT", "CONNECT", "CONNECT", "RESOLVE", "RESOLVE_PTR"])
        drive = rnd.choice(DRIVES[req])
        m = rnd.choice(["ok"] * 12 + list(METHOD_REPLIES))
        kind = rnd.choice(["ipv4", "ipv4", "ipv6", "ipv6", "domain", "domain", "domain8", "unknown"])
        atyp, addr = addr_for(rnd, kind)
        code = rnd.choice([0, 0, 0, 0, rnd.randint(1, 8), rnd.randint(9, 255), rnd.randrange(256)])
        ver = 5 if rnd.random() < 0.93 else rnd.choice([0, 4, 6, 255])
        app = app_bytes(rnd, rnd.choice([0, 1, 2, 10, 33, 64, rnd.randint(0, 64)])) if req == "CONNECT" else b""
        n = len(S.encode_reply(code, atyp, addr, 0, ver=ver)) + len(app)
        r0 = rnd.random()
        if r0 < 0.15:
            cuts = []
        elif r0 < 0.27:
            cuts = list(range(1, n))
        else:
            cuts = sorted(rnd.sample(range(1, n), min(n - 1, rnd.choice([1, 1, 2, 3, 4, 6]))))
        mcut = rnd.randrange(2)
        nchunks = 1 + mcut + len(cuts) + 1
        disc = rnd.randint(0, nchunks) if rnd.random() < 0.3 else None
        host = DEFAULT_HOST[req]
        if req == "CONNECT" and rnd.random() < 0.5:
            host = "1.2.3.4"
        out.append(mk(req, drive, m=m, r=(ver, code, atyp, addr, rnd.randrange(65536)), app=app, mcut=mcut, cuts=cuts,
                      glue=rnd.random() < 0.04, disc=disc, host=host, port=rnd.choice([80, 443, 0, 65535]),
                      greet=rnd.choice([b"", b"HELLO", b"\x05\x00"]), echo=rnd.random() < 0.7))
    return out


WORKLOADS = {"codes": wl_codes, "cuts": wl_cuts, "domains": wl_domains, "method": wl_method, "random": wl_random}


def run_shard(spec, rec):
    _fix_reach()
    install_contract()
    cases = WORKLOADS[spec["mode"]](spec)
    for i, case in enumerate(cases):
        case.setdefault("appmode", APPMODES[i % len(APPMODES)])
        run_case(case, rec)
        if i % 1499 == 7:
            rec.sample(case)
    for t in sorted(TRANSITIONS):
        rec.seen("machine_transitions", t)
    rec.seen("contract_attached_via", CONTRACT["installed"] or "none")
    if spec["mode"] == "codes":
        rec.enumerated("reply codes 0..255 x address type {IPv4, IPv6, domain, unknown} x version {5, other}")
    elif spec["mode"] == "cuts":
        rec.enumerated("all 1-cut (and, up to %d bytes, 2-cut) segmentations x disconnect at every chunk boundary "
                       "of the listed short streams" % spec["pairs_upto"])
    elif spec["mode"] == "domains":
        rec.enumerated("domain-type replies of every length 1..255 x CONNECT/RESOLVE/RESOLVE_PTR")


def replay(case, rec):
    _fix_reach()
    run_case(case, rec)
    for t in sorted(TRANSITIONS):
        rec.seen("machine_transitions", t)


def plan(tier, seed):
    specs = []
    ok = [(5, 0)]
    mixed = [(5, 0), (5, 1), (5, 200), (4, 0)]
    if tier == "quick":
        for rem in range(4):
            specs.append({"mode": "codes", "mod": 4, "rem": rem})
        specs.append({"mode": "cuts", "kinds": [("ipv4", None)], "replies": mixed, "reqs": ["CONNECT"],
                      "apps": [0, 1, 3], "pairs_upto": 14})
        specs.append({"mode": "cuts", "kinds": [("ipv4", None), ("domain", 1), ("domain8", 2)], "replies": ok,
                      "reqs": ["RESOLVE", "RESOLVE_PTR", "CONNECT"], "apps": [2], "pairs_upto": 13})
        specs.append({"mode": "cuts", "kinds": [("ipv6", None)], "replies": ok, "reqs": ["CONNECT"],
                      "apps": [0, 2], "pairs_upto": 24, "disc_bytewise": False})
        specs.append({"mode": "cuts", "kinds": [("ipv6", None), ("domain", 3), ("unknown", None)], "replies": mixed,
                      "reqs": ["CONNECT", "RESOLVE", "RESOLVE_PTR"], "apps": [1], "pairs_upto": 0})
        for rem in range(2):
            specs.append({"mode": "domains", "mod": 2, "rem": rem})
        specs.append({"mode": "method"})
        for k in range(5):
            specs.append({"mode": "random", "n": 4500})
    else:
        for rem in range(8):
            specs.append({"mode": "codes", "mod": 8, "rem": rem, "timeout_s": 3000})
        allr = [(5, 0), (5, 1), (5, 8), (5, 9), (5, 255), (4, 0), (4, 5)]
        for kind in (("ipv4", None), ("ipv6", None), ("domain", 1), ("domain", 2), ("domain", 9), ("domain8", 1),
                     ("domain8", 6), ("unknown", None)):
            for req in ("CONNECT", "RESOLVE", "RESOLVE_PTR"):
                specs.append({"mode": "cuts", "kinds": [kind], "replies": allr, "reqs": [req],
                              "apps": [0, 1, 3] if req == "CONNECT" else [0], "pairs_upto": 40,
                              "disc_bytewise": kind[0] != "ipv6", "timeout_s": 3000})
        specs.append({"mode": "cuts", "kinds": [("ipv4", None), ("domain", 4)], "replies": ok, "reqs": ["CONNECT"],
                      "apps": [16, 40], "pairs_upto": 64, "disc_bytewise": False, "timeout_s": 3000})
        # every reply code x address type: all 1- and 2-cut segmentations x disconnect at every chunk boundary
        for k in range(16):
            specs.append({"mode": "cuts", "kinds": [("ipv4", None), ("ipv6", None), ("domain", 2), ("unknown", None)],
                          "replies": [(5, code) for code in range(256) if code % 16 == k], "reqs": ["CONNECT"],
                          "apps": [1], "pairs_upto": 24, "disc_bytewise": False, "timeout_s": 3000})
        for rem in range(4):
            specs.append({"mode": "domains", "mod": 4, "rem": rem, "timeout_s": 3000})
        specs.append({"mode": "method"})
        for k in range(16):
            specs.append({"mode": "random", "n": 40000, "timeout_s": 3000})
    return specs
