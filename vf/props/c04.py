"""C04 - authentication order, method preference and SAFECOOKIE proof discipline.

Monitor: the real TorControlProtocol is connected (vf.faketor.core.Link) to
vf.faketor.authtor.AuthTor, a control server written from control-spec that computes
real HMAC-SHA256 challenges, and that can be told to misbehave at exactly one step.
Observed: every line the client writes together with "had the server already sent
250 to AUTHENTICATE at that moment", every reply the server produced, each
AUTHCHALLENGE exchange, each call of the password provider, each call of
post_bootstrap.callback/.errback (with a snapshot of the wire at that instant).
Oracle: a reference decision table (reference() below) + reference HMACs + the
server's own record.  See DESIGN.md section 2 / C04.
"""
import binascii
import hashlib
import hmac
import itertools
import os
import shutil
import tempfile

from .. import gen
from ..audit import Auditor, LogCapture
from ..faketor.authtor import AuthTor, HASH_VARIANTS, MALFORMED_VARIANTS
from ..faketor.core import Link, C2S
from ..wire import LClock

PROPERTY = "C04"
READY = True
LEVEL = "fault_enumeration"
TECHNIQUE = ("runtime monitoring: real TorControlProtocol against an HMAC-computing reference control server; "
             "enumerated product of advertised-method orderings x cookie-file conditions x password providers, "
             "and single-fault enumeration over every authentication/bootstrap step; write-time wire monitor, "
             "password-provider call counter, post_bootstrap call counter, reference decision table and reference HMACs")
LEVEL_TEXT = ("Held on the executions observed: the complete product of all 64 orderings of non-empty subsets of "
              "{NULL,HASHEDPASSWORD,COOKIE,SAFECOOKIE} x 10 cookie-file conditions (11 when not root) x 15 password-provider shapes (protocol built directly, via TorProtocolFactory, or without any provider in the three possible ways) "
              "against a correct server (thorough; quick: a seed-dependent stratified subset, >= 3 cases of every "
              "stratum), plus one injected fault "
              "(wrong/unverifiable SERVERHASH in 12 shapes, 10 malformed AUTHCHALLENGE replies, 5xx with and "
              "without hang-up, hang-up, mid-reply hang-up, hang-up while the password is awaited) at each of the "
              "7 protocol steps for every ordering; fresh nonces and cookies every run, 4 kinds of segmentation. "
              "Single-fault only; not a proof for unexplored inputs.")
LEVEL_NOTE = ("Trusted: AuthTor/FakeTor (written from control-spec 3.5/3.21/3.24, HMACs by the Python stdlib), "
              "Link's causal delivery, the reference decision table in this file, Twisted Deferred semantics.")
RULE = ("a case = (ordered list of advertised methods, cookie-file condition, path flavour needing unescaping, "
        "password-provider shape, at most one server fault (step, kind), segmentation of server bytes); cookie, "
        "password and both nonces are fresh per run. Distinct = hash of that tuple (+ content seed). Non-trivial = "
        "the client either attempted a method or its ready notification fired, and the oracle clauses applicable "
        "to the case were evaluated.")
ASSUMPTIONS = [
    "leniency: when an advertised method is unusable (COOKIEFILE absent, cookie unreadable or of wrong length, "
    "a configured provider returns no password / fails) the client may either fail or fall back to a lower-preference "
    "advertised method; never accepted: using a lower-preference method while a higher-preference one is usable, "
    "or a method that is not advertised",
    "observation only, NOT judged: each run with a directory / a path through a regular file / a symlink loop / a "
    "mode-000 file (non-root only) in place of the cookie is paired with the same run with the file missing and it is "
    "recorded whether the client decides the same way (the statement leaves 'fail or fall back' open for an unusable "
    "cookie, so a client that falls back on ENOENT but fails on EACCES still satisfies it; seeded change C04-v is "
    "therefore deliberately not reported)",
    "COOKIEFILE spellings: besides the plain path, spellings that only the kernel resolves are advertised (a '..' "
    "after a symlinked directory, '/./', '//', 'sub/..', a symlinked directory); the cookie is 'usable' iff opening "
    "the advertised string yields 32 bytes",
    "block D: the cookie file (valid at first) is replaced by wrong-length content immediately before the client's "
    "k-th file-system call naming it (builtins.open / os.stat / os.lstat / os.open wrapped during the run; k = 1..3); "
    "the server's cookie follows the file. If the client never makes a k-th call the run is an ordinary valid-cookie "
    "run; otherwise only 'the wrong-length content is never used' and the length-agnostic clauses are demanded",
    "a protocol built WITHOUT a password provider (TorControlProtocol(), TorControlProtocol(None), "
    "TorProtocolFactory(password_function=None)) has no password method at all: an advertised HASHEDPASSWORD is then "
    "skipped, it is not an 'unusable method' that excuses failing - the next advertised usable method (NULL) must be "
    "used. TorProtocolFactory()'s own default provider (returns None) counts as a configured provider without password",
    "positive reading of 'it uses': against a correct server, when the highest-preference advertised method is "
    "usable the client must attempt it (and under SAFECOOKIE send its proof after a canonical correct challenge)",
    "a 5xx to 'GETINFO signal/names' is tolerated by design (fallback to a default signal list): post_bootstrap may "
    "then succeed or fail, but still exactly once; a hang-up there must fail",
    "bootstrap queries = whatever command lines the library itself writes after authentication (the harness issues "
    "none); success must come after all of them were answered 2xx and no further one may follow it",
    "sending AUTHCHALLENGE (client nonce only) while the cookie is unusable is counted, not judged; what is judged is "
    "any AUTHENTICATE carrying the cookie or an HMAC derived from it",
    "an AUTHCHALLENGE reply with lowercase hex, swapped keyword order or an extra keyword carries the true hash: the "
    "client may refuse or proceed; if it proceeds the proof must be the reference HMAC",
    "a 0-byte cookie sent as AUTHENTICATE token is indistinguishable from NULL authentication on the wire and is "
    "classified as NULL",
    "client-nonce distinctness is checked across all runs of one shard process, not across shards",
    "non-ASCII cookie paths and passwords are not generated; the advertised list is never empty (a reply without "
    "AUTH line is generated as a fault); exactly one fault per run",
    "5xx without hang-up before authentication is not what current Tor does (it closes) but is grammatical; both "
    "forms are generated and judged alike",
]
TRUSTED_BASE = ["vf.faketor.authtor.AuthTor / vf.faketor.core.FakeTor (control-spec server, stdlib hmac/sha256)",
                "vf.faketor.core.Link (causal, harness-owned delivery)", "reference decision table (this file)",
                "Twisted Deferred / ensureDeferred"]
ANCHORS = [
    "txtorcon.torcontrolprotocol:TorControlProtocol.connectionMade",
    "txtorcon.torcontrolprotocol:TorControlProtocol._do_authenticate",
    "txtorcon.torcontrolprotocol:TorControlProtocol._read_cookie",
    "txtorcon.torcontrolprotocol:TorControlProtocol._safecookie_authchallenge",
    "txtorcon.torcontrolprotocol:TorControlProtocol._do_password_authentication",
    "txtorcon.torcontrolprotocol:TorControlProtocol._auth_failed",
    "txtorcon.torcontrolprotocol:TorControlProtocol._bootstrap",
    "txtorcon.util:hmac_sha256",
    "txtorcon.util:compare_via_hash",
    "txtorcon.util:unescape_quoted_string",
    "txtorcon.util:maybe_coroutine",
]
FLOORS = {'quick': {'evaluations': 550,
           'pre_auth_lines_checked': 1000,
           'method_decisions_checked': 550,
           'provider_zero_call_checks': 160,
           'wrong_length_cookie_runs_checked': 110,
           'safecookie_proofs_compared': 100,
           'unverifiable_challenge_runs_checked': 50,
           'client_nonces_checked': 160,
           'ready_outcomes_checked': 550,
           'ready_failures_checked': 480,
           'ready_successes_checked': 75,
           'escaped_paths_read': 160,
           'no_provider_skips_password_checks': 4,
           'cookie_replaced_under_the_client': 14,
           'paths_only_the_kernel_resolves_read': 70,
           'unreadable_policy_pairs_compared': 90,
           'reach:txtorcon.torcontrolprotocol:TorControlProtocol._do_authenticate': 520,
           'reach:txtorcon.torcontrolprotocol:TorControlProtocol._safecookie_authchallenge': 150,
           'reach:txtorcon.torcontrolprotocol:TorControlProtocol._auth_failed': 480,
           'reach:txtorcon.torcontrolprotocol:TorControlProtocol._bootstrap': 200,
           'reach:txtorcon.util:compare_via_hash': 130,
           'reach:txtorcon.util:unescape_quoted_string': 440,
           'reach:txtorcon.util:maybe_coroutine': 90},
 'thorough': {'evaluations': 3800,
              'pre_auth_lines_checked': 7000,
              'method_decisions_checked': 3800,
              'provider_zero_call_checks': 1400,
              'wrong_length_cookie_runs_checked': 350,
              'safecookie_proofs_compared': 950,
              'unverifiable_challenge_runs_checked': 360,
              'client_nonces_checked': 1300,
              'ready_outcomes_checked': 3800,
              'ready_failures_checked': 3500,
              'ready_successes_checked': 360,
              'escaped_paths_read': 1400,
              'no_provider_skips_password_checks': 13,
              'cookie_replaced_under_the_client': 36,
              'paths_only_the_kernel_resolves_read': 550,
              'unreadable_policy_pairs_compared': 280,
              'reach:txtorcon.torcontrolprotocol:TorControlProtocol._do_authenticate': 3500,
              'reach:txtorcon.torcontrolprotocol:TorControlProtocol._safecookie_authchallenge': 1250,
              'reach:txtorcon.torcontrolprotocol:TorControlProtocol._auth_failed': 3500,
              'reach:txtorcon.torcontrolprotocol:TorControlProtocol._bootstrap': 1600,
              'reach:txtorcon.util:compare_via_hash': 1150,
              'reach:txtorcon.util:unescape_quoted_string': 3100,
              'reach:txtorcon.util:maybe_coroutine': 700}}

# ---------------------------------------------------------------------------
# the input space

PREF = ["SAFECOOKIE", "COOKIE", "HASHEDPASSWORD", "NULL"]          # highest preference first
# "notdir": the path runs through a regular file (ENOTDIR); "loop": a symlink to itself (ELOOP);
# "perm": a mode-000 file (EACCES) - generated only when the harness is not root, root can read it
COOKIES = ["absent", "missing", "dir", "notdir", "loop", "len0", "len31", "len33", "len64", "valid"]
if os.geteuid() != 0:
    COOKIES.insert(5, "perm")
# the COOKIEFILE is advertised but its content cannot be obtained: one cookie-file condition ("unreadable")
UNREADABLE = ("missing", "dir", "notdir", "loop", "perm")
COOKIE_LEN = {"len0": 0, "len31": 31, "len33": 33, "len64": 64, "valid": 32}
PROVIDERS = ["none", "str", "bytes", "empty", "returns-none", "deferred", "deferred-late", "deferred-fail",
             "deferred-late-fail", "coroutine", "coroutine-late", "coroutine-raising", "raising", "wrong", "factory-default"]
PROVIDER_HAS_PASSWORD = {"str", "bytes", "deferred", "deferred-late", "coroutine", "coroutine-late", "wrong"}
# directory name, file name: real names on disk, everything Tor's QuotedString must escape
FLAVOURS = {
    "plain": ("ctl", "control_auth_cookie"),
    "space": ("with space", "auth cookie"),
    "quote": ('q"uote"d', 'co"okie'),
    "backslash": ("back\\slash\\", "cookie\\"),
    "tab": ("tab\there", "c\tk"),
    "mixed": (' a "b"\\c\td\\', '\\"x\\\\" \\n\\101'),
    "lookalike": ("\\n\\t\\r\\0\\x41\\u0041\\", "\\\\\""),
    "squote": ("it's", "a'b''c"),
    "ctrl": ("c\x01trl\x7f3 new\nline", "k\x1f7\r"),          # needs Tor's octal escapes: always quoted Tor-style
    "equals": ("a =b", "k=v x=y"),
}
FLAVOUR_NAMES = sorted(FLAVOURS)
BOOT_STEPS = ["signal/names", "version", "events/names", "USEFEATURE"]


def all_method_lists():
    out = []
    for k in range(1, 5):
        for combo in itertools.permutations(["NULL", "HASHEDPASSWORD", "COOKIE", "SAFECOOKIE"], k):
            out.append(list(combo))
    return out


def generic_faults():
    F = []
    F += [["PROTOCOLINFO", "5xx", 513, 'No such version "1"', True],
          ["PROTOCOLINFO", "5xx", 513, 'No such version "1"', False],
          ["PROTOCOLINFO", "close"], ["PROTOCOLINFO", "partial", 1, 2], ["PROTOCOLINFO", "partial", 99, 100],
          ["PROTOCOLINFO", "noauth"]]
    F += [["AUTHENTICATE", "5xx", 515, "Authentication failed: Wrong length on authentication cookie.", True],
          ["AUTHENTICATE", "5xx", 515, "Authentication failed", False],
          ["AUTHENTICATE", "close"], ["AUTHENTICATE", "partial", 1, 2], ["AUTHENTICATE", "partial", 99, 100]]
    for st in BOOT_STEPS:
        what = "key" if st != "USEFEATURE" else "feature"
        F += [[st, "5xx", 552, 'Unrecognized %s "%s"' % (what, st), False],
              [st, "5xx", 551, "Internal error", False],
              [st, "5xx", 551, "Internal error", True],
              [st, "close"], [st, "partial", 1, 2], [st, "partial", 99, 100]]
    F += [["WAIT", "close"]]
    return F


def challenge_faults():
    F = [["AUTHCHALLENGE", "hash", v] for v in HASH_VARIANTS]
    F += [["AUTHCHALLENGE", "malformed", v] for (v, _) in MALFORMED_VARIANTS]
    F += [["AUTHCHALLENGE", "5xx", 513, "AUTHCHALLENGE only supports SAFECOOKIE authentication", True],
          ["AUTHCHALLENGE", "5xx", 513, "Cookie authentication is disabled", False],
          ["AUTHCHALLENGE", "5xx", 510, 'Unrecognized command "AUTHCHALLENGE"', False],
          ["AUTHCHALLENGE", "close"], ["AUTHCHALLENGE", "partial", 1, 2], ["AUTHCHALLENGE", "partial", 99, 100]]
    return F


def enumerate_cases():
    """the complete enumerated space: (block, case-without-content) in a fixed order"""
    lists = all_method_lists()
    out = []
    for m in lists:                                            # block A: decision table, correct server
        for c in COOKIES:
            for p in PROVIDERS:
                out.append(("A", {"methods": m, "cookie": c, "provider": p, "fault": None}))
    cf = challenge_faults()
    for m in lists:                                            # block B: faults of the challenge step
        if "SAFECOOKIE" not in m:
            continue
        for p in ("none", "str", "deferred-late"):
            for f in cf:
                out.append(("B", {"methods": m, "cookie": "valid", "provider": p, "fault": f}))
    gf = generic_faults()
    for m in lists:                                            # block C: one fault at every other step
        for c in ("valid", "missing"):
            for p in ("none", "str", "bytes", "deferred-late", "coroutine-late", "deferred-late-fail"):
                for f in gf:
                    out.append(("C", {"methods": m, "cookie": c, "provider": p, "fault": f}))
    for m in lists:                                            # block D: cookie file replaced between two fs calls
        if "SAFECOOKIE" not in m and "COOKIE" not in m:
            continue
        for p in ("none", "str"):
            for k in (1, 2, 3):
                for newlen in ("len0", "len31", "len64"):
                    out.append(("D", {"methods": m, "cookie": newlen, "provider": p, "fault": None,
                                      "swap": [k]}))
    return out


def fault_tag(f):
    if not f:
        return "none"
    if f[1] == "5xx":
        return "%s:5xx%s" % (f[0], "+close" if f[4] else "")
    if f[1] in ("hash", "malformed"):
        return "%s:%s:%s" % (f[0], f[1], f[2])
    if f[1] == "partial":
        return "%s:partial" % f[0]
    return "%s:%s" % (f[0], f[1])


# ---------------------------------------------------------------------------
# the reference decision table (independent of txtorcon)

def reference(case):
    """-> (best usable method | None, blocked)   blocked: an advertised method of higher
    preference than `best` (or any, when best is None) is unusable, so failing is acceptable"""
    adv = case["methods"]
    cookie_ok = case["cookie"] == "valid"
    usable = {"SAFECOOKIE": cookie_ok, "COOKIE": cookie_ok,
              "HASHEDPASSWORD": case["provider"] in PROVIDER_HAS_PASSWORD, "NULL": True}
    blocked = False
    for m in PREF:
        if m in adv:
            if usable[m]:
                return m, blocked
            if m == "HASHEDPASSWORD" and case["provider"] == "none":
                continue            # no provider configured: the method does not exist for this client
            blocked = True
    return None, True


def provider_class(p):
    return "none" if p == "none" else ("has-password" if p in PROVIDER_HAS_PASSWORD else "no-password")


# ---------------------------------------------------------------------------
# harness pieces

class Provider(object):
    """password provider double: counts calls, owns the late Deferred"""
    def __init__(self, kind, pw):
        self.kind = kind
        self.pw = pw                      # str
        self.calls = 0
        self.pending = None

    def token(self):
        """the credential this provider hands to the client, as bytes (None if it has none)"""
        if self.kind not in PROVIDER_HAS_PASSWORD:
            return None
        if self.kind == "wrong":
            return (self.pw + "-not").encode("ascii")
        return self.pw.encode("ascii")

    def function(self):
        if self.kind == "none":
            return None
        return self._call

    def _call(self):
        from twisted.internet import defer
        self.calls += 1
        k = self.kind
        if k == "str":
            return self.pw
        if k == "bytes":
            return self.pw.encode("ascii")
        if k == "wrong":
            return self.pw + "-not"
        if k == "empty":
            return ""
        if k == "returns-none":
            return None
        if k == "deferred":
            return defer.succeed(self.pw)
        if k == "deferred-fail":
            return defer.fail(RuntimeError("no password today"))
        if k in ("deferred-late", "deferred-late-fail"):
            self.pending = defer.Deferred()
            return self.pending
        if k == "coroutine":
            async def co():
                return self.pw
            return co()
        if k == "coroutine-late":
            self.pending = defer.Deferred()

            async def co2():
                return await self.pending
            return co2()
        if k == "coroutine-raising":
            async def co3():
                raise RuntimeError("no password today")
            return co3()
        if k == "raising":
            raise RuntimeError("no password today")
        raise ValueError(k)

    def fire(self):
        d, self.pending = self.pending, None
        if d is None:
            return False
        if self.kind.endswith("fail"):
            d.errback(RuntimeError("no password today"))
        else:
            d.callback(self.pw)
        return True


class Scratch(object):
    """real cookie files under a private temporary directory"""
    def __init__(self):
        self.root = tempfile.mkdtemp(prefix="vf-c04-")
        self.n = 0

    def make(self, cookie_kind, flavour, content, spelling="plain"):
        """-> (path advertised in COOKIEFILE | None, directory to remove afterwards | None)"""
        if cookie_kind == "absent":
            return None, None
        self.n += 1
        top = os.path.join(self.root, "r%d" % self.n)
        dname, fname = FLAVOURS[flavour]
        d = os.path.join(top, dname)
        os.makedirs(d)
        path = os.path.join(d, fname)
        if cookie_kind not in ("notdir",) and spelling != "plain":
            # another spelling of the same file; only the kernel may resolve it (a lexical
            # normalisation of "lnk/.." after a symlink names a different, non-existent file)
            if spelling == "symlink-dotdot":
                os.makedirs(os.path.join(d, "data", "tor", "run"))
                os.symlink(os.path.join(d, "data", "tor", "run"), os.path.join(d, "run"))
                real = os.path.join(d, "data", "tor", fname)
                adv = os.path.join(d, "run", "..", fname)
            elif spelling == "dot":
                real, adv = path, d + "/./" + fname
            elif spelling == "double-slash":
                real, adv = path, d + "//" + fname
            elif spelling == "dir-dotdot":
                os.mkdir(os.path.join(d, "sub"))
                real, adv = path, d + "/sub/../" + fname
            elif spelling == "symlinked-dir":
                os.makedirs(os.path.join(d, "real"))
                os.symlink("real", os.path.join(d, "lnk"))
                real, adv = os.path.join(d, "real", fname), os.path.join(d, "lnk", ".", fname)
            else:
                raise ValueError(spelling)
            if cookie_kind == "dir":
                os.mkdir(real)
            elif cookie_kind == "loop":
                os.symlink(real, real)
            elif cookie_kind != "missing":
                with open(real, "wb") as f:
                    f.write(content)
                if cookie_kind == "perm":
                    os.chmod(real, 0)
            self.real = real
            return adv, top
        self.real = path
        if cookie_kind == "missing":
            pass
        elif cookie_kind == "dir":
            os.mkdir(path)
        elif cookie_kind == "notdir":
            with open(path, "wb") as f:            # a regular file where a directory is needed
                f.write(content)
            path = os.path.join(path, "cookie")
        elif cookie_kind == "loop":
            os.symlink(path, path)
        elif cookie_kind == "perm":
            with open(path, "wb") as f:
                f.write(content)
            os.chmod(path, 0)
        else:
            with open(path, "wb") as f:
                f.write(content)
        return path, top

    def drop(self, top):
        if top:
            shutil.rmtree(top, ignore_errors=True)

    def close(self):
        shutil.rmtree(self.root, ignore_errors=True)


class Ctx(object):
    """per-process monitor state"""
    def __init__(self):
        self.scratch = Scratch()
        self.nonces = {}
        self.logcap = LogCapture()
        self.logcap.start()

    def close(self):
        self.logcap.stop()
        self.scratch.close()


def hook_ready(proto, tor, link, calls):
    """count every call of post_bootstrap.callback/.errback and snapshot the wire at that instant"""
    d = proto.post_bootstrap
    orig_cb, orig_eb = d.callback, d.errback

    def snap():
        return {"written": len(tor.rx_lines), "served": len(tor.served),
                "answered": sum(1 for s in tor.served if s["complete"]),
                "auth": tor.auth_ok_sent, "lost": link.lost}

    def cb(result):
        calls.append(("callback", snap()))
        return orig_cb(result)

    def eb(fail=None):
        calls.append(("errback", snap()))
        return orig_eb(fail)
    d.callback = cb
    d.errback = eb


PASSWORD_ALPHABET = "abcdefghijklmnopqrstuvwxyzABCDEFGHIJKLMNOPQRSTUVWXYZ0123456789 \"'\\#=,;:!?-_/"


def content_for(case):
    rnd = gen.rnd_for("C04content", case.get("rseed", 0))
    n = COOKIE_LEN.get(case["cookie"], 32)
    cookie = bytes(rnd.getrandbits(8) for _ in range(n))
    if n >= 16 and len(set(cookie)) < 4:
        cookie = bytes((i * 7 + 3) & 0xff for i in range(n))
    pw = "".join(rnd.choice(PASSWORD_ALPHABET) for _ in range(rnd.randint(1, 24)))
    if not pw.strip():
        pw = "pw" + pw
    return cookie, pw


class FsWatcher(object):
    """counts the client's file-system calls that name the cookie file (open / os.stat / os.lstat /
    os.open, hence also os.path.getsize/exists/isfile) and replaces the file's content just before
    the k-th of them - what a Tor rewriting its cookie, or a truncated write, looks like to a client
    that touches the file more than once"""
    def __init__(self, target, k, new_content):
        self.target = os.path.normpath(target)
        self.k = k
        self.new = new_content
        self.n = 0
        self.fired = False
        self.saved = None
        self.on_fire = None

    def _hit(self, arg):
        try:
            a = os.fspath(arg)
        except TypeError:
            return False
        if isinstance(a, bytes):
            a = a.decode("latin1")
        return os.path.normpath(a) == self.target

    def _before(self, arg):
        if self._hit(arg):
            self.n += 1
            if self.n == self.k and not self.fired:
                self.fired = True
                with self.saved["open"](self.target, "wb") as f:
                    f.write(self.new)
                if self.on_fire:
                    self.on_fire()

    def install(self):
        import builtins
        self.saved = {"open": builtins.open, "stat": os.stat, "lstat": os.lstat, "osopen": os.open}
        sv = self.saved

        def w_open(file, *a, **kw):
            self._before(file)
            return sv["open"](file, *a, **kw)

        def w_stat(path, *a, **kw):
            self._before(path)
            return sv["stat"](path, *a, **kw)

        def w_lstat(path, *a, **kw):
            self._before(path)
            return sv["lstat"](path, *a, **kw)

        def w_osopen(path, *a, **kw):
            self._before(path)
            return sv["osopen"](path, *a, **kw)
        builtins.open, os.stat, os.lstat, os.open = w_open, w_stat, w_lstat, w_osopen

    def remove(self):
        import builtins
        if self.saved:
            builtins.open, os.stat, os.lstat, os.open = (self.saved["open"], self.saved["stat"],
                                                         self.saved["lstat"], self.saved["osopen"])
            self.saved = None


def build_protocol(case, prov):
    """the real protocol object, created the way applications create it"""
    from txtorcon import TorControlProtocol, TorProtocolFactory
    how = case.get("construct", "direct")
    if case["provider"] == "factory-default":
        # TorProtocolFactory()'s own default provider; wrapped afterwards only to count its calls
        proto = TorProtocolFactory().buildProtocol(None)
        inner = proto.password_function

        def counted():
            prov.calls += 1
            return inner()
        if inner is not None:
            proto.password_function = counted
        return proto
    if case["provider"] == "none":
        if how == "no-arg":
            return TorControlProtocol()
        if how == "factory-none":
            return TorProtocolFactory(password_function=None).buildProtocol(None)
        return TorControlProtocol(None)
    if how == "factory":
        return TorProtocolFactory(password_function=prov.function()).buildProtocol(None)
    return TorControlProtocol(prov.function())


def execute(case, ctx):
    """run one case to quiescence; -> observation dict"""
    cookie, pw = content_for(case)
    kind = case["cookie"]
    swap = case.get("swap")
    old_cookie = None
    if swap:
        # the file holds a valid cookie at first; `cookie` is what it holds after the replacement
        old_cookie = bytes((b ^ 0x5a) for b in (cookie * 32)[:32]) if cookie else bytes(range(1, 33))
    path, top = ctx.scratch.make("valid" if swap else kind, case.get("path", "plain"),
                                 old_cookie if swap else cookie, case.get("spelling", "plain"))
    watcher = FsWatcher(ctx.scratch.real, swap[0], cookie) if swap else None
    try:
        fault = case.get("fault")
        style = "tor" if case.get("path") == "ctrl" else case.get("quote", "spec")
        tor = AuthTor(auth_methods=list(case["methods"]), cookie=old_cookie if swap else cookie, cookiefile=path,
                      password=pw.encode("ascii"), fault=tuple(fault) if fault else None, quote_style=style)
        prov = Provider(case["provider"], pw)
        proto = build_protocol(case, prov)
        clock = LClock()
        aud = Auditor(clock)
        calls = []
        link = Link(proto, tor, case.get("chunking") or (1 << 30,), clock)
        hook_ready(proto, tor, link, calls)
        outcome = aud.watch(proto.post_bootstrap, "post_bootstrap")
        ctx.logcap.take()
        harness_errors = []
        try:
            if watcher:
                watcher.on_fire = lambda: setattr(tor, "cookie", cookie)   # the server's cookie is what the file holds
                watcher.install()
            link.connect()
            link.pump()
            rounds = 0
            while prov.pending is not None and rounds < 4:
                rounds += 1
                if fault and fault[0] == "WAIT" and not link.lost:
                    link.lose()                      # the server hangs up while the password is awaited
                try:
                    prov.fire()
                except Exception as e:              # an exception escaping the provider's own Deferred
                    link.exceptions.append(("provider-fire", repr(e)))
                link.pump()
        except Exception as e:
            harness_errors.append(repr(e))
        finally:
            if watcher:
                watcher.remove()
        if watcher and not watcher.fired:
            cookie = old_cookie                       # the replacement never happened
        return {"tor": tor, "link": link, "prov": prov, "calls": calls, "outcome": outcome,
                "old_cookie": old_cookie, "fs_calls": watcher.n if watcher else None,
                "swap_fired": bool(watcher and watcher.fired),
                "cookie": cookie, "pw": pw, "logged": ctx.logcap.take(), "harness_errors": harness_errors,
                "path": path, "proto": proto}
    finally:
        ctx.scratch.drop(top)


def classify_token(tok, case, obs):
    """which method does this AUTHENTICATE token belong to (reference view)"""
    if tok is None:
        return "UNPARSABLE"
    if tok == b"":
        return "NULL"
    if tok == obs["cookie"] or (obs.get("old_cookie") is not None and tok == obs["old_cookie"]):
        return "COOKIE"
    pt = obs["prov"].token()
    if pt is not None and tok == pt:
        return "HASHEDPASSWORD"
    return "OTHER"


def judge(case, obs, rec, ctx):
    """evaluate every C04 clause applicable to this execution; -> (list of failed clauses, nontrivial)"""
    tor, link, prov = obs["tor"], obs["link"], obs["prov"]
    orig_case = case
    if case.get("swap"):
        rec.count("cookie_replacement_runs")
        rec.seen("cookie_replacement", "before fs call %d of %s -> %s" % (
            case["swap"][0], obs["fs_calls"], "replaced" if obs["swap_fired"] else "client never made that call"))
        if obs["swap_fired"]:
            rec.count("cookie_replaced_under_the_client")
        else:
            case = dict(case, cookie="valid")          # the file stayed what it was: a valid cookie
    fault = case.get("fault")
    ftag = fault_tag(fault)
    cookie = obs["cookie"]
    bad = []

    def V(clause, cls, detail):
        bad.append(clause)
        d = {"lines_written": [l.decode("latin1") for (l, _) in tor.rx_lines],
             "served": [(s["step"], s["code"], s["complete"]) for s in tor.served],
             "ready_calls": [(k, s) for (k, s) in obs["calls"]],
             "provider_calls": prov.calls, "cookiefile": obs["path"]}
        d.update(detail)
        if orig_case.get("swap"):
            d["cookie_file_replaced_before_fs_call"] = orig_case["swap"][0] if obs["swap_fired"] else None
            d["client_fs_calls_on_cookie"] = obs["fs_calls"]
        rec.violation(clause, cls, d, orig_case)

    if obs["harness_errors"]:
        V("harness-error", "fault=" + ftag, {"errors": obs["harness_errors"]})
        return bad, False

    lines = [(l.decode("latin1"), pre) for (l, pre) in tor.rx_lines]
    best, blocked = reference(case)
    adv_tag = "+".join(m for m in PREF if m in case["methods"])
    dec_cls = "adv=%s/cookie=%s/provider=%s" % (adv_tag, case["cookie"], provider_class(case["provider"]))

    # ---- clause 1: nothing but PROTOCOLINFO / AUTHCHALLENGE / AUTHENTICATE before acceptance ----------
    for (l, auth_sent) in lines:
        if auth_sent:
            continue
        rec.count("pre_auth_lines_checked")
        w = l.split(" ", 1)[0].upper()
        if w not in ("PROTOCOLINFO", "AUTHCHALLENGE", "AUTHENTICATE"):
            V("command-before-authentication", "fault=%s/command=%s" % (ftag, w[:16]), {"line": l})
            break

    # ---- what did the client attempt? ------------------------------------------------------------
    attempt = None
    first_token_class = None
    for (l, _) in lines:
        w = l.split(" ", 1)[0].upper()
        if w == "AUTHCHALLENGE":
            attempt = "SAFECOOKIE"
            break
        if w == "AUTHENTICATE":
            first_token_class = classify_token(tor.auth_tokens[0][1] if tor.auth_tokens else None, case, obs)
            attempt = first_token_class
            break
    rec.count("attempt:%s" % attempt)
    pinfo_ok = any(s["step"] == "PROTOCOLINFO" and s["complete"] and s["code"] == 250 for s in tor.served) \
        and not (fault and fault[0] == "PROTOCOLINFO")
    waited_loss = bool(fault and fault[0] == "WAIT" and link.lost)

    # ---- clause 2: preference / usable / advertised -------------------------------------------------
    if pinfo_ok:
        rec.count("method_decisions_checked")
        if case["provider"] == "none" and "HASHEDPASSWORD" in case["methods"] and best == "NULL" and not blocked:
            # no provider configured: the advertised password method must be skipped, NULL used
            rec.count("no_provider_skips_password_checks")
            rec.seen("constructions_without_provider", case.get("construct", "direct"))
        if attempt is None:
            if best is not None and not blocked and not waited_loss:
                V("usable-method-not-used", dec_cls + "/path=" + flavour_class(case), {"best": best})
        elif attempt in PREF:
            if attempt not in case["methods"]:
                V("unadvertised-method-used", dec_cls + "/used=" + attempt, {"best": best})
            elif best is not None and PREF.index(attempt) > PREF.index(best):
                V("lower-preference-method-used", "best=%s/used=%s/cookie=%s/provider=%s" % (
                    best, attempt, case["cookie"], provider_class(case["provider"])), {"best": best})
            elif attempt == "COOKIE" and case["cookie"] != "valid":
                pass                                  # reported below as wrong-length-cookie-used
            elif best is not None and not blocked and attempt != best:
                V("usable-method-not-used", dec_cls + "/used=" + attempt, {"best": best})
        else:
            # a token that is neither the cookie, nor the provider's password, nor empty
            derived = False
            for ch in tor.challenges:
                if ch["client_nonce"] is not None and ch["server_nonce"] is not None:
                    derived = True
            if not derived:
                V("unrecognized-credential", dec_cls, {"token": tor.auth_tokens[0][0] if tor.auth_tokens else None})
    elif fault and fault[0] == "PROTOCOLINFO":
        rec.count("method_decisions_checked")
        if attempt is not None:
            # no (complete) advertisement was ever received
            V("unadvertised-method-used", "fault=%s/used=%s" % (ftag, attempt), {})

    # provider consulted only when no cookie method is usable
    cookie_method_usable = case["cookie"] == "valid" and ("SAFECOOKIE" in case["methods"] or "COOKIE" in case["methods"])
    rec.count("provider_calls_seen", prov.calls)
    if cookie_method_usable and case["provider"] != "none":
        rec.count("provider_zero_call_checks")
        if prov.calls != 0:
            V("password-provider-consulted-while-cookie-usable", dec_cls, {"calls": prov.calls})

    # a cookie whose length is not 32 is never used
    wire = tor.rx_raw
    if case["cookie"] in ("len0", "len31", "len33", "len64"):
        rec.count("wrong_length_cookie_runs_checked")
        used = None
        for (raw, tok) in tor.auth_tokens:
            if tok is None:
                continue
            if len(cookie) > 0 and tok == cookie:
                used = "cookie-as-token"
            for ch in tor.challenges:
                if ch["client_nonce"] is not None and ch["server_nonce"] is not None:
                    if tok == hmac.new(C2S, cookie + ch["client_nonce"] + ch["server_nonce"], hashlib.sha256).digest():
                        used = "proof-derived-from-cookie"
        if used is None and len(cookie) > 0 and on_wire(cookie, wire):
            used = "cookie-bytes-on-wire"
        if used:
            V("wrong-length-cookie-used", "cookie=%s/how=%s%s" % (case["cookie"], used, (
                "/replaced-before-fs-call-%d" % case["swap"][0]) if case.get("swap") else ""), {"cookie_len": len(cookie)})

    # ---- clause 3: SAFECOOKIE discipline -------------------------------------------------------------
    n_auth_lines = sum(1 for (l, _) in lines if l.split(" ", 1)[0].upper() == "AUTHENTICATE")
    for ch in tor.challenges:
        rec.count("safecookie_challenges_seen")
        cn = ch["client_nonce"]
        rec.count("client_nonces_checked")
        if cn is None or len(cn) != 32:
            V("client-nonce-not-32-bytes", "nonce-bytes=%s" % (None if cn is None else len(cn)), {"arg": ch["arg"]})
        else:
            prev = ctx.nonces.get(cn)
            if prev is not None:
                V("client-nonce-reused", "across-connections", {"nonce": cn, "first_seen_in_run": prev})
            ctx.nonces[cn] = ctx.nonces.get(cn, len(ctx.nonces))
    if tor.challenges:
        ch = tor.challenges[-1]
        answered = any(s["step"] == "AUTHCHALLENGE" and s["complete"] and s["code"] == 250 for s in tor.served)
        if ch["eligible"] and not (answered and ch["verifiable"]):
            # the server never sent a verifiable true hash (wrong hash, malformed, 5xx, hang-up)
            rec.count("unverifiable_challenge_runs_checked")
            if n_auth_lines:
                V("authenticate-after-unverified-serverhash", "challenge=%s/fault=%s" % (ch["behaviour"], ftag),
                  {"tokens": [t[0] for t in tor.auth_tokens]})
        elif ch["eligible"]:
            want = hmac.new(C2S, cookie + ch["client_nonce"] + ch["server_nonce"], hashlib.sha256).digest()
            if n_auth_lines:
                rec.count("safecookie_proofs_compared")
                tok = tor.auth_tokens[0][1] if tor.auth_tokens else None
                if tok != want or n_auth_lines != 1:
                    V("client-proof-mismatch", "challenge=%s" % ch["behaviour"],
                      {"want": binascii.hexlify(want).decode(), "got": [t[0] for t in tor.auth_tokens]})
            elif ch["canonical"] and case["cookie"] == "valid" and not link.lost:
                V("safecookie-proof-not-sent", "challenge=%s/path=%s" % (ch["behaviour"], flavour_class(case)), {})
    if case["cookie"] == "valid" and "SAFECOOKIE" in case["methods"]:
        rec.count("wire_cookie_searches")
        if on_wire(cookie, wire):
            V("raw-cookie-on-wire", "adv=%s/fault=%s" % (adv_tag, ftag), {"wire": wire})
    if case["cookie"] == "valid" and obs["path"] is not None and case.get("path", "plain") != "plain" \
            and attempt in ("SAFECOOKIE", "COOKIE"):
        rec.count("escaped_paths_read")
    if case["cookie"] == "valid" and case.get("spelling") in ("symlink-dotdot", "symlinked-dir") \
            and attempt in ("SAFECOOKIE", "COOKIE"):
        rec.count("paths_only_the_kernel_resolves_read")

    # ---- clause 4: the ready notification, exactly once, success iff everything succeeded ------------
    calls = obs["calls"]
    outcome = obs["outcome"]
    rec.count("ready_outcomes_checked")
    ready_cls = "method=%s/fault=%s%s" % (attempt, ftag, "/password-provider-consulted" if prov.calls else "")

    def served_ok(entries):
        """every post-authentication reply is a complete 2xx (signal/names may be 5xx)"""
        tolerated = False
        seen_auth = False
        for s in entries:
            if not s["complete"]:
                return False, tolerated
            if seen_auth:
                if not (s["code"] is not None and 200 <= s["code"] < 300):
                    if s["step"] == "signal/names" and s["code"] is not None and 500 <= s["code"] < 600:
                        tolerated = True
                    else:
                        return False, tolerated
            if s["step"] == "AUTHENTICATE" and s["code"] is not None and 200 <= s["code"] < 300:
                seen_auth = True
        return True, tolerated

    final_ok, tolerated = served_ok(tor.served)
    final_ok = final_ok and tor.auth_ok_sent and not link.lost and len(tor.rx_lines) == len(tor.served)
    n_queries = sum(1 for (_, pre) in tor.rx_lines if pre)
    for e in link.exceptions:
        if "AlreadyCalled" in e[1]:
            V("already-called-error-escaped", ready_cls, {"exception": e})
    for e in obs["logged"]:
        if "AlreadyCalled" in e[0]:
            V("already-called-error-escaped", ready_cls, {"logged": e})
    if link.exceptions:
        rec.count("exceptions_escaping_client_callbacks", len(link.exceptions))
    if obs["logged"]:
        rec.count("errors_logged_by_twisted", len(obs["logged"]))
    if len(calls) == 0:
        V("ready-never-fired", ready_cls, {"expected": "success" if final_ok else "failure",
                                           "exceptions": link.exceptions, "logged": obs["logged"]})
    elif len(calls) > 1:
        V("ready-fired-%d-times" % len(calls), ready_cls, {})
    else:
        success = bool(outcome.fired and outcome.ok)
        snap = calls[0][1]
        if success:
            rec.count("ready_successes_checked")
            at_ok, _ = served_ok(tor.served[:snap["served"]])
            if not (snap["auth"] and not snap["lost"] and at_ok and snap["written"] == snap["answered"]):
                V("ready-success-before-bootstrap-succeeded", ready_cls, {"at_firing": snap})
            elif len(tor.rx_lines) != snap["written"]:
                V("ready-success-before-last-bootstrap-query", ready_cls,
                  {"at_firing": snap, "written_afterwards": [l for (l, _) in lines[snap["written"]:]]})
            elif n_queries == 0:
                rec.count("ready_success_without_any_bootstrap_query")
        else:
            rec.count("ready_failures_checked")
            if final_ok and not tolerated and n_queries > 0:
                V("ready-failure-although-everything-succeeded", ready_cls,
                  {"error": outcome.describe() if outcome.fired else None})
        if tolerated:
            rec.count("signal_names_5xx_tolerated")
    if fault:
        rec.count("fault_runs")
        if tor.fault_fired or waited_loss:
            rec.count("faults_actually_injected")
    if link.lost:
        rec.count("runs_with_connection_loss")
    rec.seen("decisions", "%s cookie=%s provider=%s -> %s" % (adv_tag, case["cookie"],
                                                             provider_class(case["provider"]), attempt))
    rec.seen("fault_outcomes", "%s %s -> ready %s" % (attempt, ftag, (
        "never" if not calls else ("x%d" % len(calls) if len(calls) > 1 else ("success" if outcome.ok else "failure")))))
    return bad, (attempt is not None or len(calls) > 0)


def on_wire(cookie, wire):
    h = binascii.hexlify(cookie)
    return cookie in wire or h in wire.lower()


def flavour_class(case):
    return case.get("path", "plain") if case["cookie"] not in ("absent",) else "-"


def policy_of(case, obs):
    """what the client did about its credentials: the method of its first attempt, or 'failed'"""
    tor = obs["tor"]
    for (l, _) in tor.rx_lines:
        w = l.decode("latin1").split(" ", 1)[0].upper()
        if w == "AUTHCHALLENGE":
            return "SAFECOOKIE"
        if w == "AUTHENTICATE":
            return classify_token(tor.auth_tokens[0][1] if tor.auth_tokens else None, case, obs)
    return "failed"


def run_case(case, rec, ctx):
    obs = execute(case, ctx)
    bad, nontrivial = judge(case, obs, rec, ctx)
    if case["cookie"] in UNREADABLE and case["cookie"] != "missing" and not case.get("fault") and not bad:
        # observation (not judged): same advertisement, same provider, only the reason why the file cannot
        # be opened differs -- does the client decide the same way?
        twin = dict(case)
        twin["cookie"] = "missing"
        obs2 = execute(twin, ctx)
        rec.count("unreadable_policy_pairs_compared")
        a, b = policy_of(case, obs), policy_of(twin, obs2)
        rec.seen("unreadable_policies", "%s:%s missing:%s" % (case["cookie"], a, b))
        if a != b:
            rec.count("unreadable_policy_pairs_that_differ_not_judged")
    rec.case(case, nontrivial=nontrivial)
    return bad


# ---------------------------------------------------------------------------
# driver interface

SPELLINGS = ["plain", "plain", "symlink-dotdot", "symlink-dotdot", "dot", "double-slash", "dir-dotdot",
             "symlinked-dir"]
CONSTRUCT_NONE = ["arg-none", "no-arg", "factory-none"]      # the three ways of having no provider
CONSTRUCT_SOME = ["direct", "factory"]
CHUNKINGS = [[1 << 30], [1], [7], None]        # None = a generated cycle


def materialise(idx, base, seed):
    """add the per-run random parts (content seed, path flavour, segmentation) to an enumerated case"""
    rnd = gen.rnd_for(seed, "C04", idx)
    case = dict(base)
    case["rseed"] = rnd.getrandbits(32)
    case["path"] = rnd.choice(FLAVOUR_NAMES)
    case["quote"] = rnd.choice(["spec", "tor"])
    ch = rnd.choice(CHUNKINGS)
    case["chunking"] = ch if ch is not None else gen.chunking(rnd)
    case["construct"] = rnd.choice(CONSTRUCT_NONE if base["provider"] == "none" else CONSTRUCT_SOME)
    case["spelling"] = "plain" if base.get("swap") else rnd.choice(SPELLINGS)
    return case


def stratum(block, base):
    """structural stratum of an enumerated case (for the stratified quick subset)"""
    best, blocked = reference(base)
    adv = "+".join(m for m in PREF if m in base["methods"])
    if block == "A":
        return ("A", adv, base["cookie"], provider_class(base["provider"]))
    if block == "B":
        return ("B", fault_tag(base["fault"]), base["provider"])
    if block == "D":
        return ("D", adv, base["cookie"], base["swap"][0])
    return ("C", fault_tag(base["fault"]), best, blocked, base["provider"] in ("deferred-late", "coroutine-late",
                                                                              "deferred-late-fail"))


def select(cases, fractions, seed, min_per_stratum=3):
    """indices of the cases to run: everything when the block's fraction is 1, otherwise a
    seed-dependent sample of every stratum (at least `min_per_stratum` of each)"""
    groups = {}
    chosen = []
    for idx, (block, base) in enumerate(cases):
        if fractions[block] >= 1.0:
            chosen.append(idx)
        else:
            groups.setdefault(stratum(block, base), []).append(idx)
    for key in sorted(groups, key=repr):
        idxs = groups[key]
        k = min(len(idxs), max(min_per_stratum, int(round(fractions[key[0]] * len(idxs)))))
        chosen.extend(gen.rnd_for(seed, "C04sel", repr(key)).sample(idxs, k))
    return sorted(chosen), len(groups)


def run_shard(spec, rec):
    ctx = Ctx()
    try:
        cases = enumerate_cases()
        frac = spec["fractions"]
        complete = all(v >= 1.0 for v in frac.values())
        chosen, nstrata = select(cases, frac, spec["seed"])
        sampled = 0
        for n, idx in enumerate(chosen):
            if n % spec["nshards"] != spec["index"]:
                continue
            case = materialise(idx, cases[idx][1], spec["seed"])
            run_case(case, rec, ctx)
            if sampled == 0 or (sampled == 1 and case["fault"]):
                rec.sample(case)
                sampled += 1
        if complete:
            rec.enumerated("orderings x cookie conditions x providers (correct server) and one fault per step for every ordering")
        elif spec["index"] == 0:
            rec.count("strata_sampled", nstrata)
        rec.count("distinct_client_nonces", len(ctx.nonces))
    finally:
        ctx.close()


def replay(case, rec):
    ctx = Ctx()
    try:
        if case.get("fault"):
            case["fault"] = list(case["fault"])
        run_case(case, rec, ctx)
    finally:
        ctx.close()


def plan(tier, seed):
    n = 16
    if tier == "quick":
        fr = {"A": 0.3, "B": 0.15, "C": 0.1, "D": 0.3}
    else:
        fr = {"A": 1.0, "B": 1.0, "C": 1.0, "D": 1.0}
    return [{"nshards": n, "index": i, "fractions": fr,
             "timeout_s": 600 if tier == "quick" else 3000} for i in range(n)]
