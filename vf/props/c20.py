"""C20 - the address map holds a name exactly until its latest mapping expires.

Monitor: the real ``txtorcon.addrmap.AddrMap`` (directly, and inside a real ``TorState``
bootstrapped against FakeTor over the real TorControlProtocol) under a virtual clock:
``twisted.internet.task.Clock`` is the map's scheduler and ``txtorcon.addrmap.datetime`` is
replaced by a view of the same clock.  Oracle: ``vf.refs.addrmodel.AddrModel`` (written from
control-spec 4.1.7), compared after every step once due timers ran; see DESIGN.md 2 / C20.
"""
import datetime as _real_datetime

from .. import gen
from ..refs import addrmodel as M

PROPERTY = "C20"
READY = True
LEVEL = "exploration"
TECHNIQUE = ("runtime monitoring: lookup probes + IAddrListener recorder on the real AddrMap/TorState under a "
             "virtual clock (task.Clock scheduler, patched utcnow), reference address-map model as oracle, "
             "generated ADDRMAP/clock histories judged after every step")
LEVEL_TEXT = ("Held on the executions observed: ~25k (quick) to ~1M (thorough) generated histories of ADDRMAP "
              "lines (all wire forms) and clock advances over 1-4 names with expiries from -1 day to +30 days; after every "
              "step every name and every address ever mapped is probed and the listener log of that step compared with the "
              "model. Sampling, not a proof for unexplored histories.")
LEVEL_NOTE = ("Trusted: vf.refs.addrmodel (self-tested), twisted.internet.task.Clock, FakeTor/Link for the TorState route. "
              "The instant of expiry itself is never judged (the generator keeps every probe strictly before or after it).")
RULE = ("a case = an epoch, 1-4 names, an optional initial address-mappings/all listing (TorState route; in about a third "
        "of these cases the listing has 2-5 lines that mention a name more than once - different address and/or expiry, "
        "NEVER before/after finite, stale lines - and the LAST line for a name is what the map must hold) and 2-16 steps, "
        "each an ADDRMAP line (local-time / EXPIRES= / CACHED= / NEVER / <error> forms, expiry offset -1 day..+30 days) or a "
        "clock advance (seconds to days, to just before / just after the next expiry, whole-second or fractional clock), "
        "or (cases without an acting listener) a burst of 2-4 lines delivered in one reactor turn, often starting with an "
        "already-expired mapping that the next line supersedes before any timer ran. Lines also come in the positional "
        "form name addr \"local\" \"utc\" and, in ~15 % of the cases, from a Tor whose local zone is +-N h or a half/quarter-hour zone. "
        "Every listener double also probes the map from INSIDE its callbacks; in half of the cases it additionally acts "
        "there according to a per-name plan: re-resolve the name through AddrMap.update() or raise an exception. "
        "Distinct = hash of the whole case. Non-trivial = at least one name was live at a judged step.")
ASSUMPTIONS = [
    "process TZ is UTC; Tor's local-time Expiry equals the EXPIRES= UTC time except in histories where Tor is "
    "modelled in another zone, which use only the forms carrying EXPIRES=",
    "ADDRMAP lines are well-formed per control-spec 4.1.7; failed lookups (<error>) come in every shape Tor has used: "
    "with and without the error=yes keyword, with bare local time, EXPIRES=, CACHED=, positional utc, NEVER - the "
    "<error> address alone means the name is dropped",
    "names are host names; addresses are IPv4 literals, bracketed IPv6 literals or host names",
    "the exact instant of an expiry is never probed (boundary cases are counted, not judged)",
    "lookup by address while the mapping is live is not demanded by the statement and not judged",
    "inside addrmap_expired(name) neither the name nor any address it had may resolve to that name any more; inside "
    "addrmap_added(addr) the name must resolve to the announced address (nothing is demanded when the model says the "
    "name is live/dead the other way round at that instant - the per-step listener accounting reports that)",
    "a listener that raises from addrmap_expired is alone on the map (other listeners' fate is not stated); its exception "
    "may surface from clock.advance()/AddrMap.update() or be logged - afterwards only the map content and the event "
    "counts are judged: the expired mapping must not be findable, a re-resolved name must resolve to the new mapping, "
    "cause exactly one further 'added' and expire at its own time",
    "the positional form name addr \"local\" \"utc\" is not in today's control-spec; txtorcon's parser documents and its "
    "own test pins it (4th field = UTC expiry), so it is generated, with its own class suffix +positional-utc-form",
    "within one reactor turn a mapping that is already expired on arrival and is superseded by a later line for the same "
    "name may go unannounced (no added/expired for it); if it is the last line for the name it is judged as usual",
    "the address-mappings/all answer is a plain list of mappings (control-spec 3.9: 'a \\r\\n-separated list of address "
    "mappings'); nothing in the grammar promises one line per name, so listings that repeat a name are generated and read "
    "in line order like any other sequence of mapping lines: the last line for a name is Tor's most recent word. (C Tor "
    "keeps one table keyed by name and is not known to repeat one; the class is grammar-legal, not observed, and carries "
    "its own key suffix +repeated-in-listing.) All lines of a listing reach the map in one reactor turn: listener "
    "accounting has the freedom of the bursts, no in-callback comparison during delivery, no acting listener",
    "an <error> event for a live name may or may not be announced as 'expired' (either accepted); "
    "a new name whose mapping is already expired on arrival may be announced added+expired or not at all",
]
TRUSTED_BASE = ["vf.refs.addrmodel (model + renderer, self-tested)", "twisted.internet.task.Clock",
                "vf.faketor.core FakeTor/Link (TorState route)"]
ANCHORS = [
    "txtorcon.addrmap:Addr.update",
    "txtorcon.addrmap:Addr._expire",
    "txtorcon.addrmap:AddrMap.update",
    "txtorcon.addrmap:AddrMap.find",
    "txtorcon.addrmap:AddrMap.notify",
    "txtorcon.torstate:TorState._addr_map",
    "txtorcon.torstate:TorState._bootstrap",
]
FLOORS = {
    "quick": {"evaluations": 2500, "lookups_compared": 35000, "listener_calls_seen": 4000,
              "expiries_in_model": 3000, "state_route_events": 300, "bootstrap_mappings": 100,
              "in_callback_probes": 15000, "reresolves_in_callback": 600, "listener_raises": 300,
              "bursts_fed": 1200, "events_in_bursts": 3500, "positional_form_lines": 1500,
              "error_lines_fed": 500, "error_lines_without_keyword_on_held_name": 80,
              "error_lines_without_keyword_on_unknown_name": 120,
              "positional_form_lines_tor_in_other_zone": 300,
              "listings_with_repeated_names": 50, "repeated_listing_names_last_line_differs_from_first": 45,
              "reach:txtorcon.addrmap:Addr.update": 5000, "reach:txtorcon.addrmap:Addr._expire": 1500,
              "reach:txtorcon.torstate:TorState._addr_map": 300},
    "thorough": {"evaluations": 80000, "lookups_compared": 1200000, "listener_calls_seen": 250000,
                 "expiries_in_model": 100000, "state_route_events": 15000, "bootstrap_mappings": 4000,
                 "in_callback_probes": 500000, "reresolves_in_callback": 20000, "listener_raises": 10000,
                 "bursts_fed": 45000, "events_in_bursts": 120000, "positional_form_lines": 50000,
                 "error_lines_fed": 20000, "error_lines_without_keyword_on_held_name": 3000,
                 "error_lines_without_keyword_on_unknown_name": 5000,
                 "positional_form_lines_tor_in_other_zone": 10000,
                 "listings_with_repeated_names": 2000, "repeated_listing_names_last_line_differs_from_first": 1800,
                 "reach:txtorcon.addrmap:Addr.update": 250000, "reach:txtorcon.addrmap:Addr._expire": 100000,
                 "reach:txtorcon.torstate:TorState._addr_map": 15000},
}

EPOCHS = ["2026-03-01 00:00:00", "2024-02-28 23:59:50", "2025-12-31 23:59:59", "2013-04-03 06:28:52",
          "2027-10-31 00:30:00", "2026-06-15 12:34:56"]
NAMES = ["www.example.com", "example.com", "a.b.example.net", "xn--bcher-kva.example", "mail.example.org",
         "duskgytldkxiuqc6.onion", "host-1.test", "EXAMPLE.invalid"]
ADDRS = ["192.0.2.1", "192.0.2.2", "198.51.100.77", "10.0.0.1", "[2001:db8::1]", "[2001:db8:0:1::ff]",
         "cname.example.net", "127.192.0.10"]
DAY = 86400
FEATURES = ("days", "never_after_finite", "shorten", "error", "fractional", "past")
TOR_TZ = [7200, -18000, 19800, 3600, -3600, 43200, -12600, 20700, 34200, -39600]     # Tor's zone differs from the controller's (UTC)


# ---------------------------------------------------------------------------
# case generation (the generator runs the reference model to aim its clock advances)

def gen_theme(rnd):
    r = rnd.random()
    if r < 0.12:
        th = {f: False for f in FEATURES}
    elif r < 0.45:
        one = rnd.choice(FEATURES)
        th = {f: f == one for f in FEATURES}
    else:
        th = {f: rnd.random() < 0.35 for f in FEATURES}
    th["tzoff"] = rnd.choice(TOR_TZ) if rnd.random() < 0.15 else 0
    return th


def gen_event(rnd, model, names, addrs, theme, boot=False, force_name=None):
    for _ in range(20):
        name = force_name or rnd.choice(names)
        cur = model.names.get(name)
        live = model.lookup(name) is not None
        live_finite = live and cur.exp is not None
        addr = rnd.choice(addrs)
        if live and rnd.random() < 0.5:
            addr = cur.addr                          # plain refresh of the same address
        r = rnd.random()
        ev = {"name": name, "addr": addr, "exp": None, "form": "local"}
        if not boot and theme["error"] and r < 0.2:
            ev["addr"] = M.ERROR
            ev["exp"] = int(model.now) + rnd.randint(30, 3600) if rnd.random() < 0.85 else None
            # every shape Tor has used for a failed lookup: with / without error=yes, bare local time,
            # EXPIRES=, CACHED=, positional utc; with a local-time-only form Tor is in our zone
            if ev["exp"] is None:
                ev["form"] = rnd.choice(["never", "never-cached"])
            elif theme["tzoff"]:
                ev["form"] = rnd.choice(["expires", "cached", "positional"])
                ev["tzoff"] = theme["tzoff"]
            else:
                ev["form"] = rnd.choice(["local", "expires", "cached", "cached", "positional"])
            ev["cached"] = "NO"
            if rnd.random() < 0.45:
                ev["errkw"] = False
        elif r < 0.35:
            if live_finite and not theme["never_after_finite"]:
                continue
            ev["form"] = "never" if boot else rnd.choice(["never", "never-cached"])
            ev["cached"] = rnd.choice(["YES", "NO"])
        else:
            kinds = ["short", "short", "hours"]
            if theme["days"]:
                kinds += ["days", "days"]
            if theme["past"]:
                kinds += ["past"]
            k = rnd.choice(kinds)
            if k == "short":
                off = rnd.choice([1, 2, 5, 10, 59, 60, 61, rnd.randint(1, 3600)])
            elif k == "hours":
                off = rnd.choice([3600, 86399, 86398, rnd.randint(3600, 86399)])
            elif k == "days":
                off = rnd.choice([DAY, DAY + 1, 2 * DAY, DAY + rnd.randint(1, DAY - 1),
                                  rnd.randint(1, 29) * DAY + rnd.randint(0, DAY - 1), 30 * DAY])
            else:
                off = -rnd.choice([1, 2, 60, 3600, DAY, rnd.randint(1, DAY)])
            exp = int(model.now) + off
            if live_finite:
                if exp < cur.exp and not theme["shorten"]:
                    exp = cur.exp + rnd.choice([0, 1, 30, rnd.randint(0, 3600)])
                if exp - int(model.now) >= DAY and not theme["days"]:
                    continue
            ev["exp"] = exp
            ev["form"] = "local" if boot else rnd.choice(["local", "expires", "cached", "cached", "positional"])
            ev["cached"] = rnd.choice(["YES", "NO"])
            if theme["tzoff"] and not boot:
                # Tor prints its own local time first; only EXPIRES= (UTC) is meaningful to us
                ev["form"] = rnd.choice(["expires", "cached", "positional"])
                ev["tzoff"] = theme["tzoff"]
        if ev["form"] in ("cached", "never-cached") and rnd.random() < 0.2:
            ev["streamid"] = rnd.randint(1, 9999)
        return ev
    return None


def off_boundary(model, target, step):
    pend = {n.exp for n in model.names.values() if n.live and n.exp is not None}
    while target in pend:
        target += step
    return target


def gen_advance(rnd, model, theme):
    frac = theme["fractional"]
    nxt = model.live_expiries()
    kinds = ["small", "small", "hours"]
    if nxt:
        kinds += ["before", "after", "after", "after"]
    if theme["days"] or rnd.random() < 0.15:
        kinds.append("days")
    k = rnd.choice(kinds)
    now = model.now
    if k == "small":
        target = now + rnd.randint(1, 120)
    elif k == "hours":
        target = now + rnd.randint(1, 30) * 3600 + rnd.randint(0, 3599)
    elif k == "days":
        target = now + rnd.randint(1, 31) * DAY + rnd.choice([0, 0, rnd.randint(0, DAY - 1)])
    elif k == "before":
        target = rnd.choice(nxt[:2]) - (rnd.choice([0.25, 0.5, 1, 2]) if frac else rnd.choice([1, 2]))
    else:
        target = rnd.choice(nxt[:2]) + (rnd.choice([0.25, 0.5, 1, 2]) if frac else rnd.choice([1, 2]))
    if frac and rnd.random() < 0.5:
        target = int(target) + rnd.choice([0.25, 0.5, 0.75])
    elif not frac:
        target = float(int(target))
    if target <= now:
        target = now + (0.25 if frac else 1)
    target = off_boundary(model, target, 0.25 if frac else 1)
    return target - now


class ActorPlan(object):
    """what the listener double does INSIDE successive addrmap_expired callbacks, per name:
    ["none"] | ["raise"] | ["re", {"addr":..., "off": seconds from the callback instant, "form":...}]
    (re = feed a fresh mapping for the same name through AddrMap.update(), i.e. re-resolve on expiry)"""

    def __init__(self, spec):
        self.plan = (spec or {}).get("plan", {})
        self.used = {}

    def next(self, name):
        i = self.used.get(name, 0)
        self.used[name] = i + 1
        acts = self.plan.get(name) or []
        return acts[i] if i < len(acts) else ["none"]


def re_event(name, act, now):
    ev = {"name": name, "addr": act["addr"], "exp": int(now) + act["off"], "form": act["form"],
          "cached": act.get("cached", "NO")}
    if act.get("tzoff"):
        ev["tzoff"] = act["tzoff"]
    return ev


def gen_actor(rnd, names, addrs, theme):
    plan = {}
    for n in names:
        acts = []
        for _ in range(rnd.choice([0, 1, 1, 2, 3])):
            r = rnd.random()
            if r < 0.3:
                acts.append(["none"])
            elif r < 0.75:
                offs = [1, 2, 5, 60, 61, 3600, rnd.randint(1, 7200)]
                if theme["days"]:
                    offs += [DAY, DAY + 1, 3 * DAY + 7]
                a = {"addr": rnd.choice(addrs), "off": rnd.choice(offs),
                     "form": rnd.choice(["expires", "cached"]) if theme["tzoff"] else rnd.choice(["local", "expires", "cached"]),
                     "cached": rnd.choice(["YES", "NO"])}
                if theme["tzoff"]:
                    a["tzoff"] = theme["tzoff"]
                acts.append(["re", a])
            else:
                acts.append(["raise"])
        plan[n] = acts
    return {"plan": plan}


def sim_expired(model, plan, name):
    """generator-side picture of what the listener double will do when `name` expires"""
    act = plan.next(name)
    if act[0] == "re":
        model.event(re_event(name, act[1], model.now))


def gen_case(rnd, route):
    theme = gen_theme(rnd)
    names = rnd.sample(NAMES, rnd.choice([1, 1, 2, 2, 3, 4]))
    addrs = rnd.sample(ADDRS, rnd.randint(2, 5))
    model = M.AddrModel()
    case = {"route": route, "epoch": rnd.choice(EPOCHS), "names": names, "boot": [], "steps": [],
            "t0": 0, "actor": None}
    if route == "state":
        case["chunking"] = gen.chunking(rnd)
        theme["tzoff"] = 0          # the bootstrap listing has no EXPIRES= form
        if rnd.random() < 0.5:
            case["t0"] = rnd.choice([1, 17, 3600]) + (rnd.choice([0.25, 0.5]) if theme["fractional"] else 0)
            model.advance(case["t0"])
    if rnd.random() < 0.5:
        case["actor"] = gen_actor(rnd, names, addrs, theme)
    # TorState route, ~1/3 of the cases: the address-mappings/all answer mentions a name on more than
    # one line (the grammar is a plain list of mappings; nothing promises one line per name).  All lines
    # reach the map in one reactor turn, so - as for the bursts - no acting listener in these cases.
    repeated = route == "state" and rnd.random() < 0.34
    if repeated:
        case["actor"] = None
    plan = ActorPlan(case["actor"])

    def fed(ev):
        was, now_live = model.event(ev)
        # an 'expired' callback is expected when a live name is dropped, or a new name arrives expired
        if not now_live and (was or ev["addr"] != M.ERROR):
            sim_expired(model, plan, ev["name"])

    if route == "state" and repeated:
        focus = rnd.choice(names)
        for j in range(rnd.choice([2, 2, 3, 3, 4, 5])):
            if rnd.random() < (0.3 if j == 0 else 0.12):
                # a stale line (already expired when the listing is read), as in the bursts
                cur = model.names.get(focus)
                ev = {"name": focus, "exp": int(model.now) - rnd.choice([1, 1, 5, 60, 3600, DAY]),
                      "addr": cur.addr if (cur is not None and cur.addr and rnd.random() < 0.5) else rnd.choice(addrs),
                      "form": "local"}
            else:
                ev = gen_event(rnd, model, names, addrs, theme, boot=True,
                               force_name=focus if (j < 2 or rnd.random() < 0.6) else None)
            if ev is None:
                continue
            model.event(ev)
            case["boot"].append(ev)
    elif route == "state":
        seen = set()
        for _ in range(rnd.choice([0, 0, 1, 1, 2, 3])):
            ev = gen_event(rnd, model, names, addrs, theme, boot=True)
            if ev is not None and ev["name"] not in seen:   # this listing names each address once
                seen.add(ev["name"])
                model.event(ev)
                case["boot"].append(ev)
    if route == "state":
        for nm in list(dict.fromkeys(ev["name"] for ev in case["boot"])):
            if model.lookup(nm) is None:
                sim_expired(model, plan, nm)
    nsteps = rnd.choice([2, 3, 4, 5, 6, 8, 10, 12, rnd.randint(2, 16)])
    for _ in range(nsteps):
        if case["actor"] is None and rnd.random() < 0.18:
            # several events in one reactor turn (one TCP segment): no timer runs between them
            focus = rnd.choice(names)
            evs = []
            for j in range(rnd.choice([2, 2, 3, 4])):
                if rnd.random() < (0.6 if j == 0 else 0.25):
                    cur = model.names.get(focus)
                    ev = {"name": focus, "exp": int(model.now) - rnd.choice([1, 1, 5, 60, 3600, DAY]),
                          "addr": cur.addr if (cur is not None and cur.addr and rnd.random() < 0.5) else rnd.choice(addrs),
                          "form": rnd.choice(["local", "expires", "cached"]), "cached": "NO"}
                else:
                    ev = gen_event(rnd, model, names, addrs, theme, force_name=focus if rnd.random() < 0.75 else None)
                if ev is None:
                    continue
                model.event(ev)
                evs.append(ev)
            if evs:
                case["steps"].append(["burst", evs])
            continue
        if rnd.random() < 0.58:
            ev = gen_event(rnd, model, names, addrs, theme)
            if ev is None:
                continue
            fed(ev)
            case["steps"].append(["ev", ev])
        else:
            dt = gen_advance(rnd, model, theme)
            for name in model.advance(dt):
                sim_expired(model, plan, name)
            case["steps"].append(["adv", dt])
    # quiescence: past every finite expiry ever announced (re-resolving listeners announce more)
    for _ in range(10):
        last = max([model.now] + [e for n in model.names.values() for (_, _, _, _, e) in n.history
                                  if e is not None])
        target = off_boundary(model, float(int(last)) + DAY + 1, 1)
        case["steps"].append(["adv", target - model.now])
        for name in model.advance(target - model.now):
            sim_expired(model, plan, name)
        if not model.live_expiries():
            break
    return case


# ---------------------------------------------------------------------------
# the virtual datetime module handed to txtorcon.addrmap

class VirtualDatetimeModule(object):
    """looks like the ``datetime`` module; ``datetime.datetime.utcnow()/now()`` follow the
    harness clock (virtual second 0 == epoch), everything else is the real module"""

    def __init__(self, clock, epoch):
        real = _real_datetime

        class datetime(real.datetime):
            @classmethod
            def utcnow(cls):
                t = epoch + real.timedelta(seconds=clock.seconds())
                return cls(t.year, t.month, t.day, t.hour, t.minute, t.second, t.microsecond)

            @classmethod
            def now(cls, tz=None):
                t = cls.utcnow()
                return t if tz is None else t.replace(tzinfo=real.timezone.utc).astimezone(tz)

            @classmethod
            def today(cls):
                return cls.utcnow()
        self.datetime = datetime

    def __getattr__(self, name):
        return getattr(_real_datetime, name)


BOOM = "vf-listener-boom"


class ListenerBoom(Exception):
    """raised on purpose by the listener double from inside addrmap_expired"""


class Listener(object):
    """IAddrListener double.  Records every call; INSIDE the callbacks it also probes the map
    (at the instant 'expired' is heard neither the name nor its addresses may resolve to that
    name; at the instant 'added' is heard the name must resolve to the announced mapping) and,
    when the case carries an actor plan, re-resolves the name through AddrMap.update() or raises."""

    def __init__(self):
        self.log = []
        self.ctx = None
        self.acts = []              # (name, action) performed since the harness last cleared it
        self.tags = {}              # name -> set of tags for mechanism keys

    def addrmap_added(self, addr):
        name = getattr(addr, "name", None)
        self.log.append(("added", name, str(getattr(addr, "ip", None))))
        c = self.ctx
        if c is None or name not in c["model"].names or not c["probe"]:
            return
        want = c["model"].lookup(name)
        if want is None:
            return                  # arrived already expired: nothing to demand
        c["rec"].count("in_callback_probes")
        try:
            got = c["am"]().find(name)
            seen = str(getattr(got, "ip", None))
        except KeyError:
            seen = None
        except Exception as e:
            seen = "raised " + repr(e)
        if seen != want:
            c["V"]("not-resolvable-inside-added-callback", c["cause"],
                   {"name": name, "lookup_gave": seen, "want": want, "now": c["model"].now}, hard=False)

    def addrmap_expired(self, name):
        self.log.append(("expired", name, None))
        c = self.ctx
        if c is None or name not in c["model"].names:
            return
        model = c["model"]
        n = model.names[name]
        if model.lookup(name) is None and c["probe"]:
            keys = [(name, "name")] + [(a, "latest-address" if a == n.addr else "earlier-address")
                                       for a in n.addresses]
            for key, kcls in keys:
                c["rec"].count("in_callback_probes")
                try:
                    a = c["am"]().find(key)
                except KeyError:
                    continue
                except Exception as e:
                    c["V"]("lookup-raised", kcls, {"key": key, "exc": repr(e), "inside": "addrmap_expired"}, hard=False)
                    continue
                if getattr(a, "name", None) == name:
                    c["V"]("still-found-inside-expired-callback", "%s@%s" % (kcls, c["cause"]),
                           {"name": name, "key": key, "now": model.now,
                            "history": [list(h) for h in n.history]}, hard=False)
        act = c["plan"].next(name)
        if act[0] == "re":
            ev = re_event(name, act[1], model.now)
            self.acts.append((name, "re"))
            self.tags.setdefault(name, set()).add("reresolved-in-callback")
            c["rec"].count("reresolves_in_callback")
            model.event(ev)
            try:
                c["am"]().update(M.render(ev, c["epoch"]))
            except ListenerBoom:
                raise
            except Exception as e:
                c["V"]("update-raised", "reresolve-inside-expired-callback",
                       {"name": name, "line": M.render(ev, c["epoch"]), "exc": repr(e)})
        elif act[0] == "raise":
            self.acts.append((name, "raise"))
            self.tags.setdefault(name, set()).add("listener-raised")
            c["rec"].count("listener_raises")
            raise ListenerBoom(BOOM)


def advance_clock(clock, dt):
    """clock.advance that survives the listener double's own exception (a reactor would log it
    and go on with the next delayed call)"""
    while True:
        try:
            clock.advance(dt)
            return
        except ListenerBoom:
            dt = 0


def real_errors(errs):
    return [e for e in errs if BOOM not in e[1] and e[0] != "ListenerBoom"]


def make_listener():
    from zope.interface import implementer
    from txtorcon.interface import IAddrListener
    return implementer(IAddrListener)(type("RecAddrListener", (Listener,), {}))()


# ---------------------------------------------------------------------------
# one execution + oracle

class Stop(Exception):
    pass


def run_case(case, rec):
    from twisted.internet import task
    import txtorcon.addrmap as addrmap_mod

    epoch = _real_datetime.datetime.strptime(case["epoch"], M.FMT)
    clock = task.Clock()
    addrmap_mod.datetime = VirtualDatetimeModule(clock, epoch)
    model = M.AddrModel()
    lst = make_listener()
    names = list(case["names"])
    reported = set()
    state = {"nontrivial": False, "hard": False}
    logcap = CAPTURE

    def V(clause, cls, detail, hard=True):
        k = (clause, cls)
        if k not in reported:
            reported.add(k)
            rec.violation(clause, cls, detail, case)
        if hard:
            state["hard"] = True

    def attributed(exc):
        if isinstance(exc, KeyError) and exc.args and exc.args[0] in model.names:
            return model.history_class(exc.args[0])
        return "general"

    def note_form(ev):
        if ev["addr"] == M.ERROR and not ev.get("errkw", True):
            lst.tags.setdefault(ev["name"], set()).add("error-line-without-keyword")
        if ev.get("form") == "positional" and ev["addr"] != M.ERROR and ev["exp"] is not None:
            lst.tags.setdefault(ev["name"], set()).add("positional-utc-form")
            rec.count("positional_form_lines")
            if ev.get("tzoff"):
                rec.count("positional_form_lines_tor_in_other_zone")

    link = tor = None
    holder = {}
    lst.ctx = {"model": model, "am": lambda: holder["am"], "epoch": epoch, "plan": ActorPlan(case.get("actor")),
               "rec": rec, "V": V, "cause": "bootstrap", "probe": True}
    if case.get("actor"):
        rec.count("cases_with_acting_listener")
    try:
        if case["t0"]:
            clock.advance(case["t0"])
            model.advance(case["t0"])
        if case["route"] == "addrmap":
            am = holder["am"] = addrmap_mod.AddrMap()
            am.scheduler = clock
            am.add_listener(lst)
        else:
            from txtorcon import TorControlProtocol, TorState
            from ..faketor.core import FakeTor, Link
            tor = FakeTor()
            tor.info.update({"ns/all": [], "circuit-status": "", "stream-status": "", "entry-guards": ""})
            lines = [M.render(ev, epoch) for ev in case["boot"]]
            tor.info["address-mappings/all"] = "" if not lines else (lines[0] if len(lines) == 1 else lines)
            proto = TorControlProtocol()
            link = Link(proto, tor, case.get("chunking") or (1 << 30,)).connect()
            st = TorState(proto)
            st.addrmap.scheduler = clock
            st.addrmap.add_listener(lst)
            done = []
            st.post_bootstrap.addBoth(done.append)
            am = holder["am"] = st.addrmap
            listed = {}
            for ev in case["boot"]:
                model.event(ev)
                listed.setdefault(ev["name"], []).append(ev)
            again = {nm: evs for nm, evs in listed.items() if len(evs) > 1}
            if again:
                # a listing that mentions a name on several lines: all of them reach the map in one
                # reactor turn and the model is already past the last one - no in-callback comparison
                # while the answer is being delivered (as for the bursts on this route)
                lst.ctx["probe"] = False
                rec.count("listings_with_repeated_names")
                for nm, evs in again.items():
                    lst.tags.setdefault(nm, set()).add("repeated-in-listing")
                    rec.count("repeated_listing_lines", len(evs) - 1)
                    if (evs[-1]["addr"], evs[-1]["exp"]) != (evs[0]["addr"], evs[0]["exp"]):
                        rec.count("repeated_listing_names_last_line_differs_from_first")
                    rec.seen("repeated_listing_shapes", ">".join(listing_shape(e, model.now) for e in evs))
            link.pump()
            lst.ctx["probe"] = True
            errs = real_errors(logcap.take())
            rec.count("bootstrap_mappings", len(case["boot"]))
            if not done or done[0] is not st or link.exceptions or errs:
                V("bootstrap-failed", "+".join(sorted({model.history_class(e["name"]) for e in case["boot"]})) or "no-mappings",
                  {"post_bootstrap": repr(done)[:200], "exceptions": link.exceptions, "logged": errs,
                   "lines": lines})
                raise Stop()
            try:
                advance_clock(clock, 0)
            except Exception as e:
                V("scheduler-exception", attributed(e), {"step": "bootstrap", "exc": repr(e)})
                raise Stop()
            judge(case, model, am, lst, 0, ("boot", case["boot"]), rec, V, state, names)
        for idx, (kind, arg) in enumerate(case["steps"]):
            if state["hard"]:
                break
            mark = len(lst.log)
            gone = ()
            trans = None
            del lst.acts[:]
            if kind == "ev":
                line = M.render(arg, epoch)
                lst.ctx["cause"] = "error-event" if arg["addr"] == M.ERROR else "event"
                trans = model.event(arg)
                note_form(arg)
                rec.count("events_fed")
                if arg["addr"] == M.ERROR:
                    rec.count("error_lines_fed")
                    if not arg.get("errkw", True):
                        rec.count("error_lines_without_error_keyword")
                        rec.count("error_lines_without_keyword_on_%s_name" % ("held" if trans[0] else "unknown"))
                rec.seen("line_forms", "%s%s%s%s" % (arg["form"], ("+error" if arg.get("errkw", True) else "+error-without-keyword")
                                                      if arg["addr"] == M.ERROR else "",
                                                      "+streamid" if arg.get("streamid") is not None else "",
                                                      "+tor-in-other-zone" if arg.get("tzoff") else ""))
                rec.seen("transitions", "%s->%s %s" % (
                    "live" if trans[0] else "absent", "live" if trans[1] else "absent",
                    "error" if arg["addr"] == M.ERROR else ("never" if arg["exp"] is None else
                                                              ("past" if arg["exp"] < model.now else "finite"))))
                if case["route"] == "addrmap":
                    try:
                        am.update(line)
                    except ListenerBoom:
                        pass
                    except Exception as e:
                        V("update-raised", model.history_class(arg["name"]),
                          {"step": idx, "line": line, "exc": repr(e)})
                        break
                else:
                    if not tor.emit("ADDRMAP", line):
                        V("not-subscribed", "ADDRMAP", {"subscribed": sorted(tor.subscribed)})
                        break
                    link.pump()
                    rec.count("state_route_events")
                    errs = real_errors(logcap.take())
                    if errs or link.exceptions:
                        V("update-raised", model.history_class(arg["name"]),
                          {"step": idx, "line": line, "logged": errs, "exceptions": link.exceptions})
                        break
                dt = 0
            elif kind == "burst":
                lst.ctx["cause"] = "event"
                # on the TorState route the whole burst is handed to the protocol at once, i.e. the
                # model runs ahead of the callbacks: no in-callback comparison during delivery
                lst.ctx["probe"] = case["route"] == "addrmap"
                trans = []
                failed = False
                for ev in arg:
                    trans.append(model.event(ev))
                    note_form(ev)
                    rec.count("events_fed")
                    rec.count("events_in_bursts")
                    line = M.render(ev, epoch)
                    if case["route"] == "addrmap":
                        try:
                            am.update(line)
                        except ListenerBoom:
                            pass
                        except Exception as e:
                            V("update-raised", model.history_class(ev["name"]), {"step": idx, "line": line, "exc": repr(e)})
                            failed = True
                            break
                    elif not tor.emit("ADDRMAP", line):
                        V("not-subscribed", "ADDRMAP", {"subscribed": sorted(tor.subscribed)})
                        failed = True
                        break
                if not failed and case["route"] != "addrmap":
                    link.pump()
                    rec.count("state_route_events", len(arg))
                    errs = real_errors(logcap.take())
                    if errs or link.exceptions:
                        V("update-raised", model.history_class(arg[-1]["name"]),
                          {"step": idx, "burst": [M.render(e, epoch) for e in arg], "logged": errs, "exceptions": link.exceptions})
                        failed = True
                if failed:
                    break
                rec.count("bursts_fed")
                lst.ctx["probe"] = True
                dt = 0
            else:
                dt = arg
                lst.ctx["cause"] = "clock-advance"
                gone = model.advance(dt)
                rec.count("clock_advances")
                rec.count("expiries_in_model", len(gone))
            try:
                advance_clock(clock, dt)
            except Exception as e:
                V("scheduler-exception", attributed(e),
                  {"step": idx, "exc": repr(e), "now": model.now})
                break
            judge(case, model, am, lst, mark, (kind, arg), rec, V, state, names, gone, trans)
    except Stop:
        pass
    finally:
        logcap.take()
    rec.case(case, nontrivial=state["nontrivial"])
    return reported


def listing_shape(ev, now):
    return "never" if ev["exp"] is None else ("stale" if ev["exp"] < now else "finite")


def burst_acceptable(evs, was, now):
    """acceptable listener sequences for one name over several events of one reactor turn.
    Each event has the single-event semantics, except that a mapping which is already expired
    on arrival and is superseded by a later event of the same turn may go unannounced
    (the reactor never ran between them: nothing observable happened)."""
    out = []

    def go(i, live, seq):
        if i == len(evs):
            if seq not in out:
                out.append(seq)
            return
        e = evs[i]
        if e["addr"] == M.ERROR:
            go(i + 1, False, seq)
            if live:
                go(i + 1, False, seq + ["expired"])
        elif e["exp"] is None or e["exp"] > now:
            go(i + 1, True, seq if live else seq + ["added"])
        else:
            if live:
                go(i + 1, False, seq + ["expired"])
            else:
                go(i + 1, False, seq)
                go(i + 1, False, seq + ["added", "expired"])
            if i < len(evs) - 1:
                go(i + 1, live, seq)
    go(0, was, [])
    return out


def judge(case, model, am, lst, mark, step, rec, V, state, names, gone=(), trans=None):
    if model.boundary():
        rec.count("boundary_instants_not_judged")
        state["hard"] = True            # stop: nothing after an unjudgeable instant is compared
        return
    rec.count("steps_judged")
    kind, arg = step
    diverged = set()
    for name in names:
        want = model.lookup(name)
        try:
            got = am.find(name)
        except KeyError:
            got = None
        except Exception as e:
            V("lookup-raised", model.history_class(name), {"name": name, "exc": repr(e)})
            diverged.add(name)
            continue
        rec.count("lookups_compared")
        cls = model.history_class(name)
        rec.seen("history_classes", cls)
        cls += "".join("+" + t for t in sorted(lst.tags.get(name, ())))
        n = model.names.get(name)
        detail = {"name": name, "now": model.now, "model_expiry": n.exp if n else None, "step": step,
                  "history": [list(h) for h in n.history] if n else []}
        if want is not None:
            state["nontrivial"] = True
            if got is None:
                diverged.add(name)
                V("expired-too-early", cls, detail)
            elif str(getattr(got, "ip", None)) != want:
                diverged.add(name)
                V("wrong-address", cls, dict(detail, want=want, got=str(getattr(got, "ip", None))))
        elif got is not None:
            diverged.add(name)
            if n is not None and n.history and n.history[-1][3] == M.ERROR:
                V("error-mapping-kept", cls, detail)
            else:
                V("expired-too-late", cls, detail)
        # address keys of names that are not mapped
        if want is None and n is not None and name not in diverged:
            keys = [(a, "latest-address" if a == n.addr else "earlier-address") for a in n.addresses]
            if any(h[3] == M.ERROR for h in n.history):
                keys.append((M.ERROR, "error-literal"))
            for key, kcls in keys:
                rec.count("address_keys_probed")
                try:
                    a = am.find(key)
                except KeyError:
                    continue
                except Exception as e:
                    V("lookup-raised", kcls, {"key": key, "exc": repr(e)})
                    continue
                if getattr(a, "name", None) == name:
                    V("address-key-after-expiry", kcls,
                      {"name": name, "key": key, "now": model.now, "history": [list(h) for h in n.history]},
                      hard=False)
    # listener log of this step
    log = lst.log[mark:]
    rec.count("listener_calls_seen", len(log))
    per = {}
    for (what, nm, ip) in log:
        per.setdefault(nm, []).append((what, ip))
    expect = {}                # name -> list of acceptable [what...] sequences
    if kind == "boot":
        # one line for a name: 'added' if it is live, else nothing or added+expired.  Several lines for a
        # name (all delivered in one reactor turn, the name unknown before): the same per line, with the
        # freedom of the bursts for a stale line that a later line supersedes
        by = {}
        for ev in arg:
            by.setdefault(ev["name"], []).append(ev)
        for nm, evs in by.items():
            expect[nm] = burst_acceptable(evs, False, model.now)
    elif kind == "ev":
        err = arg["addr"] == M.ERROR
        was, now_live = trans
        if not was and now_live:
            acc = [["added"]]
        elif not was:
            acc = [[]] if err else [[], ["added", "expired"]]
        elif now_live:
            acc = [[]]
        else:
            acc = [[], ["expired"]] if err else [["expired"]]
        expect[arg["name"]] = acc
    elif kind == "burst":
        by = {}
        for ev, tr in zip(arg, trans):
            by.setdefault(ev["name"], [tr[0], []])[1].append(ev)
        for nm, (was0, evs) in by.items():
            expect[nm] = burst_acceptable(evs, was0, model.now)
    else:
        for name in gone:
            expect[name] = [["expired"]]
    # a listener that re-resolved the name from inside 'expired' must hear the new mapping added
    for (nm, what) in lst.acts:
        if what == "re":
            acc = []
            for seq in expect.get(nm, [[]]):
                if "expired" in seq:
                    i = seq.index("expired")
                    acc.append(seq[:i + 1] + ["added"] + seq[i + 1:])
            expect[nm] = acc or [["expired", "added"]]
    for nm in set(per) | set(expect):
        if nm in diverged:
            continue
        got = [w for (w, _) in per.get(nm, [])]
        acc = expect.get(nm, [[]])
        if got in acc:
            continue        # (what the announced Addr holds is not part of the statement: not judged)
        cls = model.history_class(nm) if nm in model.names else "unknown-name"
        if kind == "ev" and nm == arg["name"] and arg["addr"] == M.ERROR:
            cls = "error-on-live-name" if trans[0] else "error-on-new-name"
        cls += "".join("+" + t for t in sorted(lst.tags.get(nm, ())))
        detail = {"name": nm, "step": step, "heard": per.get(nm, []), "acceptable": acc, "now": model.now}
        want = max(acc, key=len)
        said = False
        for what in ("added", "expired"):
            g, lo, hi = got.count(what), min(a.count(what) for a in acc), max(a.count(what) for a in acc)
            if g > hi:
                said = True
                V("spurious-" + what, cls, detail, hard=False)
            elif g < lo:
                said = True
                V("missing-" + what, cls, detail, hard=False)
        if not said:
            # counts are individually possible but the sequence is none of the acceptable ones
            # (wrong order, or one half of an added+expired pair)
            V("listener-order" if sorted(got) == sorted(want) else "listener-sequence", cls, detail, hard=False)


class _NullCapture(object):
    def take(self):
        return []


CAPTURE = _NullCapture()


def _start_capture():
    global CAPTURE
    from ..audit import LogCapture
    try:
        from twisted.logger import globalLogBeginner
        globalLogBeginner.beginLoggingTo([lambda ev: None], redirectStandardIO=False, discardBuffer=True)
    except Exception:
        pass
    CAPTURE = LogCapture()
    CAPTURE.start()


def run_shard(spec, rec):
    _start_capture()
    M.selftest()
    route = spec["route"]
    for i in range(spec["n"]):
        rnd = gen.rnd_for(spec["seed"], PROPERTY, spec["shard"], i)
        case = gen_case(rnd, route)
        run_case(case, rec)
        if i < 2:
            rec.sample(case)


def replay(case, rec):
    _start_capture()
    case.setdefault("t0", 0)
    case.setdefault("boot", [])
    case.setdefault("actor", None)
    case["steps"] = [[k, a] for (k, a) in case["steps"]]
    run_case(case, rec)


def plan(tier, seed):
    specs = []
    if tier == "quick":
        for _ in range(12):
            specs.append({"route": "addrmap", "n": 2000})
        for _ in range(4):
            specs.append({"route": "state", "n": 400})
    else:
        for _ in range(32):
            specs.append({"route": "addrmap", "n": 30000, "timeout_s": 3000})
        for _ in range(16):
            specs.append({"route": "state", "n": 4000, "timeout_s": 3000})
    return specs
