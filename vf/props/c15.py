"""C15 - onion-service creation completes only on THIS service's confirmed descriptor upload.

Monitor: the real EphemeralOnionService.create / EphemeralAuthenticatedOnionService.create /
FilesystemOnionService.create over a real TorConfig + TorControlProtocol against
vf.faketor.oniontor.OnionTor, which executes the creating command at once but WITHHOLDS its reply
until the schedule says so; HS_DESC events of the service itself and of a second (foreign) service
are emitted one at a time (only while HS_DESC is subscribed, like Tor).  After every stimulus the
create() Deferred (audited), the HS_DESC listeners registered by the wait, the SETEVENTS log of the
reference Tor, the progress callback values and twisted's error log are recorded.

Oracle: a reference decision procedure over the same stimulus prefix (section 2 / C15 of DESIGN.md):
  one-shot : success is justified once an own UPLOADED was seen;
  await-all: success is justified once every own attempt seen so far is resolved with >= 1 success;
  failure is justified once every own attempt seen so far has failed (and there was one);
  safety   : create() fired (ok / failed) at stimulus p  =>  the matching condition held at some prefix <= p;
  liveness : (only if no own event preceded the creating reply) if a condition holds at the final
             prefix, create() has fired by quiescence;
  foreign  : the same schedule without the foreign service's events gives the same outcome at the same
             own stimulus (metamorphic), and create() never fires AT a foreign event;
  once     : no second completion attempt (AlreadyCalledError in the listener) is ever logged;
  others   : another HS_DESC listener registered BEFORE the wait on the same real TorControlProtocol - an application's
             one-shot listener removing itself during dispatch, or the wait of a second service created concurrently
             (both services judged, each on its own view) - never makes the wait miss an event: same clauses;
  cleanup  : once create() fired - success or failure, including a rejected creating command - no HS_DESC
             listener registered by this wait remains and Tor's last SETEVENTS does not list HS_DESC.
"""
import itertools
import os
import shutil
import tempfile
import zlib

from .. import audit, gen, wire
from ..faketor import oniontor as OT
from ..faketor.core import connected_protocol
from ..refs import addonion as AO

PROPERTY = "C15"
READY = True
LEVEL = "exploration"
TECHNIQUE = ("runtime monitoring: Deferred auditor + listener/SETEVENTS/progress recorders around the real create() "
             "paths on a reference Tor with withheld creating reply; reference decision procedure evaluated after every "
             "event; complete enumeration of causal event orderings, metamorphic removal of foreign events")
LEVEL_TEXT = ("Held on the executions observed: every causal ordering (up to directory renaming) of UPLOAD/UPLOADED/FAILED over "
              "1-2 (quick; 3 sampled) / 1-4 (thorough) directories x both waiting modes x every position of the creating reply x six service "
              "kinds, every interleaving with a second service's events for the small sizes, seeded samples beyond; the oracle is "
              "evaluated after every event. Enumeration and sampling of schedules, not a proof for longer histories.")
LEVEL_NOTE = ("Trusted: vf.faketor.oniontor (reference Tor: emits HS_DESC only while subscribed; address of an authenticated "
              "ephemeral service = permanent id computed from the RSA key), vf.refs.addonion HS_DESC generator, vf.faketor.core "
              "Link. Directory names are interchangeable, so orderings are enumerated up to renaming (random renamings in the sampled class).")
RULE = ("a case = service kind (ephemeral v2/v3, basic-auth ephemeral with Tor-made or caller key, filesystem v2/v3) x waiting mode x "
        "a stimulus sequence: own events (UPLOAD d, then optionally UPLOADED d or FAILED d, per directory), foreign-service events on "
        "shared or other directories (same causality), optional own CREATED noise, and exactly one 'creating reply released' marker at "
        "any position; plus own schedules with a one-shot application listener unsubscribing during dispatch at every event position, and "
        "pairs of concurrently created real services (history of each over shared directories x every interleaving x modes of each). Distinct = hash of (kind, mode, stimuli). Non-trivial = at least one own event was delivered to the listener "
        "and the reference was compared after every stimulus.")
ASSUMPTIONS = [
    "per directory and service: UPLOAD precedes its UPLOADED/FAILED; one outcome per directory per history, but a report may be REPEATED "
    "(same UPLOADED / FAILED again, optionally the UPLOAD again: two replicas on one directory, a repeated report) - the directory's state "
    "does not change (tagged +own-report-repeated)",
    "directories are named in Tor's forms $FP~nick / $FP=nick / bare $FP; in half of the cases all own directories share the nickname "
    "'Unnamed' (fingerprints always differ): a directory is identified by the whole LongName",
    "tagged preludes: the creation is started while the unsubscribing SETEVENTS of an earlier HS_DESC listener is still unanswered "
    "(an errback retrying a refused ADD_ONION at once; an application listener removed just before)",
    "a directory may be tried again after its result (UPLOAD d again, then a second UPLOADED / FAILED or nothing): the new attempt is "
    "outstanding until its own result, except that a directory which already succeeded is never outstanding again (UPLOADED then UPLOAD "
    "then FAILED / nothing: a success stays a success); an earlier failure of a directory does not matter once its retry succeeded "
    "(tagged +own-directory-tried-again-after=FAILED|UPLOADED)",
    "HS_DESC events that carry the OWN address but are no upload reports never change the outcome: CREATED, and what this Tor emits when it "
    "fetches the service's own descriptor from one of the directories (REQUESTED, RECEIVED, IGNORE, FAILED with a REASON only a fetch can "
    "have: NOT_FOUND, QUERY_REJECTED, QUERY_NO_HSDIR, BAD_DESC, QUERY_RATE_LIMITED); tagged +own-client-side-events / +own-descriptor-fetch-FAILED",
    "events whose address field is the token UNKNOWN (HS_DESC FAILED / REQUESTED for a fetch by descriptor id) are not the service's: "
    "treated like the second service's events (never change the outcome)",
    "FAILED events carry REASON=UPLOAD_REJECTED, REASON=UNEXPECTED or no REASON field: all are upload failures of the named service",
    "tagged classes in which create() fails for a reason that is not Tor's answer: cancelled by the caller while the creating command / the "
    "wait's own SETEVENTS is unanswered, TorConfig.save() refusing a second service for an already configured directory: the cleanup clause applies",
    "Tor emits HS_DESC only while the controller is subscribed (events after the wait unsubscribed are not sent)",
    "own events that precede the creating reply (Tor does not do this) are judged on safety only, under two readings (taken into account / "
    "ignored): completing while an attempt announced AFTER the reply is unresolved (await-all), completing without any own UPLOADED, or "
    "failing while a post-reply attempt has not failed, is a violation under both",
    "another HS_DESC listener on the same connection (an application's) is registered in the tagged class other-HS_DESC-listener-registered; "
    "there HS_DESC legitimately stays subscribed and only the wait's own listener must be gone",
    "tagged class +it-unsubscribes-during-dispatch: the application's listener was registered BEFORE the service and removes itself from "
    "inside its callback at its k-th HS_DESC event (a one-shot listener; every k); the wait must still be handed that event, and once "
    "the application's listener is gone the wait's completion must unsubscribe HS_DESC at Tor",
    "tagged class +second-service-created-concurrently: the second service is REAL - two EphemeralOnionService.create() calls on one "
    "TorConfig/TorControlProtocol, two real waits/listeners; each service is judged on its own view (the other one's events are its "
    "foreign events, metamorphic partner = the same own schedule created alone); txtorcon sends one command at a time, so Tor sees "
    "the second ADD_ONION only after answering the first (first reply precedes every event of the second service); while the other "
    "wait is still active HS_DESC legitimately stays subscribed",
    "two readings of 'every attempted upload failed' / 'all resolved' (first prefix vs. end of history) are both accepted: "
    "safety asks for SOME prefix up to the firing point, liveness only when the condition holds at the final prefix",
    "progress callback values are recorded and counted (monotonicity, final 100) but not judged: the statement does not mention them",
    "the creating command is accepted, except in the tagged class 'creating-command-rejected'",
]
TRUSTED_BASE = ["vf.faketor.oniontor.OnionTor (reference server, self-tested)", "vf.refs.addonion (HS_DESC generator)",
                "vf.faketor.core.Link (causal delivery)", "vf.audit (Deferred auditor, log capture)"]
ANCHORS = [
    "txtorcon.onion:_await_descriptor_upload",
    "txtorcon.onion:_add_ephemeral_service",
    "txtorcon.onion:FilesystemOnionService.create",
    "txtorcon.torcontrolprotocol:TorControlProtocol.add_event_listener",
    "txtorcon.torcontrolprotocol:TorControlProtocol.remove_event_listener",
]
FLOORS = {
    "quick": {"evaluations": 1200, "prefix_checks": 8000, "events_delivered": 5000, "outcomes_compared": 800,
              "cleanup_checked": 800, "metamorphic_pairs": 500, "liveness_obligations": 500,
              "cases_with_repeated_own_report": 100, "rejected_cases": 10,
              "cases_with_colliding_own_hsdir_nicknames": 400, "cases_started_in_unsubscribe_window": 60,
              "cases_with_own_retry": 100, "cases_with_unknown_address_events": 100,
              "cases_with_own_client_side_events": 100,
              "app_listener_unsubscribed_during_dispatch": 100, "concurrent_service_views_judged": 100,
              "first_wait_unsubscribed_while_second_still_waiting": 20,
              "reach:txtorcon.onion:_await_descriptor_upload": 1200,
              "reach:txtorcon.torcontrolprotocol:TorControlProtocol.remove_event_listener": 500},
    "thorough": {"evaluations": 60000, "prefix_checks": 400000, "events_delivered": 250000, "outcomes_compared": 40000,
                 "cleanup_checked": 30000, "metamorphic_pairs": 20000, "liveness_obligations": 20000,
                 "cases_with_repeated_own_report": 2000, "rejected_cases": 10,
                 "cases_with_colliding_own_hsdir_nicknames": 20000, "cases_started_in_unsubscribe_window": 1000,
                 "cases_with_own_retry": 1000, "cases_with_unknown_address_events": 500,
                 "cases_with_own_client_side_events": 500,
                 "app_listener_unsubscribed_during_dispatch": 1000, "concurrent_service_views_judged": 4000,
                 "first_wait_unsubscribed_while_second_still_waiting": 500,
                 "reach:txtorcon.onion:_await_descriptor_upload": 60000},
}

KINDS = ("eph3", "eph2", "auth-gen", "auth-key", "fs3", "fs2")
# what Tor puts on an HS_DESC FAILED of an upload ("" = no REASON= field)
FAIL_REASONS = ("UPLOAD_REJECTED", "UNEXPECTED", "")


def fail_reason(case, d):
    """REASON of a FAILED for directory d: varies with the directory and (deterministically) with the schedule"""
    shift = case.get("reason_shift")
    if shift is None:
        shift = zlib.crc32(signature(case["stimuli"]).encode("ascii"))
    return FAIL_REASONS[(d + shift) % 3]


# how Tor names the directories (HsDir = LongName): $FP~nick, $FP=nick (older), bare $FP; relays without a
# configured nickname are all called "Unnamed", so nicknames collide while fingerprints never do
NAME_STYLES = ("unique-nickname", "same-nickname", "mixed-forms-same-nickname", "bare-fingerprint")


def name_style(case):
    st = case.get("name_style")
    if st is None:
        st = (zlib.crc32(signature(case["stimuli"]).encode("ascii")) // 3) % 4
    return st


def hsdir_longname(style, i):
    base = AO.hsdir_name(i)                    # "$<40 hex>~hsdir<i>"
    fp = base.split("~", 1)[0]
    if style == 0:
        return base
    if style == 1:
        return fp + "~Unnamed"
    if style == 2:
        return (fp + "~Unnamed", fp + "=Unnamed", fp)[i % 3]
    return fp


ACT = {"U": "UPLOAD", "S": "UPLOADED", "F": "FAILED", "Q": "REQUESTED"}
# not the own service: "f" = a second onion service, "x" = events whose address field is the token UNKNOWN
# (legal per control-spec, e.g. a descriptor fetched by its id that failed / was requested)
FOREIGN = ("f", "x")
# "r" = the creating reply of the OTHER, concurrently created service (view of one service of a concurrent pair)
NOT_OWN = FOREIGN + ("r",)
# REASON values that only a descriptor FETCH can have (control-spec 4.1.25); UPLOAD_REJECTED is upload-only,
# UNEXPECTED may be either
FETCH_ONLY_REASONS = ("NOT_FOUND", "QUERY_REJECTED", "QUERY_NO_HSDIR", "BAD_DESC", "QUERY_RATE_LIMITED")
CLIENT_SIDE = ("REQUESTED", "RECEIVED", "IGNORE", "CREATED")
X = 9          # a directory the own service never uses


# ---------------------------------------------------------------------------
# enumeration of schedules

def histories(dirs, canonical):
    """all causal sequences [(action, dir)]: every dir in `dirs` gets U, then optionally S or F.
    canonical: the U events appear in the order of `dirs` (orderings up to renaming)."""
    n = len(dirs)
    out = []

    def rec(seq, state, started):
        if started == n:
            out.append(list(seq))
        for k, d in enumerate(dirs):
            if state[k] == 0:
                if canonical and k != started:
                    continue
                state[k] = 1
                seq.append((("U", d)))
                rec(seq, state, started + 1)
                seq.pop()
                state[k] = 0
            elif state[k] == 1:
                for a in "SF":
                    state[k] = 2
                    seq.append((a, d))
                    rec(seq, state, started)
                    seq.pop()
                    state[k] = 1
    rec([], [0] * n, 0)
    return out


def merges(a, b):
    """all interleavings of two sequences preserving each order"""
    n, m = len(a), len(b)
    for pos in itertools.combinations(range(n + m), n):
        ps = set(pos)
        ia = ib = 0
        out = []
        for i in range(n + m):
            if i in ps:
                out.append(a[ia])
                ia += 1
            else:
                out.append(b[ib])
                ib += 1
        yield out


def with_duplicates(h):
    """histories in which ONE report is repeated: a result (UPLOADED d / FAILED d) again at any later position
    (a second replica landing on the same directory, a repeated report), optionally with the UPLOAD d repeated
    before the first result as well.  The directory's outcome does not change."""
    out = []
    for i, (a, d) in enumerate(h):
        if a == "U":
            continue
        for j in range(i + 1, len(h) + 1):
            out.append(h[:j] + [(a, d)] + h[j:])
        u = next(k for k, (b, e) in enumerate(h) if b == "U" and e == d)
        out.append(h[:u + 1] + [("U", d)] + h[u + 1:i + 1] + [(a, d)] + h[i + 1:])
    return out


def with_retry(h):
    """histories in which ONE directory is tried again after its result: UPLOAD d at any later position, then
    (optionally) the second result, UPLOADED or FAILED, at any position after that"""
    out = []
    for i, (a, d) in enumerate(h):
        if a == "U":
            continue
        for j in range(i + 1, len(h) + 1):
            h2 = h[:j] + [("U", d)] + h[j:]
            out.append(h2)                                  # the retry stays outstanding
            for k in range(j + 1, len(h2) + 1):
                for r in "SF":
                    out.append(h2[:k] + [(r, d)] + h2[k:])
    return out


def retry_cases(maxn, minn=1):
    for n in range(minn, maxn + 1):
        for h in histories(list(range(n)), True):
            for h2 in with_retry(h):
                yield [["R"]] + [["o", a, d] for (a, d) in h2]


def unknown_address_cases(maxn):
    """own history x one or two events with the address token UNKNOWN (a failed / requested fetch by descriptor id)
    naming an own or another directory, every interleaving; reply first"""
    for n in range(1, maxn + 1):
        pool = list(range(n)) + [X]
        for h in histories(list(range(n)), True):
            own = [["o", a, d] for (a, d) in h]
            xs = [[["x", "F", d]] for d in pool] + [[["x", "Q", d], ["x", "F", d]] for d in pool[:n]]
            if n > 1:
                xs.append([["x", "F", 0], ["x", "F", 1]])
            for xe in xs:
                for mg in merges(own, xe):
                    yield [["R"]] + mg


def clientside_cases(maxn):
    """own history x events about the OWN address that are not upload reports, naming an own directory
    (REQUESTED+RECEIVED, REQUESTED+fetch FAILED, IGNORE) or none (CREATED); every interleaving; reply first"""
    for n in range(1, maxn + 1):
        for h in histories(list(range(n)), True):
            own = [["o", a, d] for (a, d) in h]
            seqs = [[["n", "CREATED", 0]]]
            for d in range(n):
                seqs += [[["n", "REQUESTED", d], ["n", "RECEIVED", d]],
                         [["n", "REQUESTED", d], ["n", "FETCHFAILED", d]],
                         [["n", "IGNORE", d]]]
            for ne in seqs:
                for mg in merges(own, ne):
                    yield [["R"]] + mg


def dup_cases(maxn, minn=1):
    for n in range(minn, maxn + 1):
        for h in histories(list(range(n)), True):
            for h2 in with_duplicates(h):
                ev = [["o", a, d] for (a, d) in h2]
                yield [["R"]] + ev


def has_own_duplicate(stimuli):
    seen = set()
    for s in stimuli:
        if s[0] == "o":
            k = (s[1], s[2])
            if k in seen:
                return True
            seen.add(k)
    return False


def own_cases(maxn, minn=1):
    """A: own events only, reply at every position"""
    for n in range(minn, maxn + 1):
        for h in histories(list(range(n)), True):
            ev = [["o", a, d] for (a, d) in h]
            for pos in range(len(ev) + 1):
                yield ev[:pos] + [["R"]] + ev[pos:]


def foreign_cases(own_n, foreign_m, reply_modes=("first", "before-own")):
    """B: own history x foreign history (dirs drawn from the own ones and X) x every interleaving"""
    for n in own_n:
        pool = list(range(n)) + [X]
        for h in histories(list(range(n)), True):
            own = [["o", a, d] for (a, d) in h]
            for m in foreign_m:
                for fd in itertools.permutations(pool, m):
                    for fh in histories(list(fd), False):
                        fo = [["f", a, d] for (a, d) in fh]
                        for mg in merges(own, fo):
                            for rm in reply_modes:
                                if rm == "first":
                                    yield [["R"]] + mg
                                else:
                                    k = next(i for i, s in enumerate(mg) if s[0] == "o")
                                    if k == 0:
                                        continue          # same as "first"
                                    yield mg[:k] + [["R"]] + mg[k:]


def random_case(rnd):
    n = rnd.choice([1, 2, 3, 3, 4, 4, 5, 6])
    dirs = list(range(n))
    h = random_history(rnd, dirs)
    own = [["o", a, d] for (a, d) in h]
    m = rnd.choice([0, 1, 1, 2, 3])
    pool = dirs + [X, X + 1]
    rnd.shuffle(pool)
    fo = [["f", a, d] for (a, d) in random_history(rnd, pool[:m])]
    seq = random_merge(rnd, own, fo)
    for k, t in enumerate(seq):       # some foreign FAILED events carry the address token UNKNOWN instead
        if t[0] == "f" and t[1] == "F" and rnd.random() < 0.3:
            seq[k] = ["x", "F", t[2]]
    if rnd.random() < 0.2:            # a directory is tried again after its result
        res = [k for k, t in enumerate(seq) if t[0] == "o" and t[1] != "U"]
        if res:
            k = rnd.choice(res)
            d = seq[k][2]
            j = rnd.randint(k + 1, len(seq))
            seq2 = seq[:j] + [["o", "U", d]] + seq[j:]
            if rnd.random() < 0.8:
                j2 = rnd.randint(j + 1, len(seq2))
                seq2 = seq2[:j2] + [["o", rnd.choice("SF"), d]] + seq2[j2:]
            if not known_trigger(seq2):
                # (schedules that also contain the open foreign-UPLOADED finding's trigger are classified under
                # that finding's keys: keep retries out of them so that the two mechanisms stay apart)
                seq = seq2
    elif rnd.random() < 0.25:         # a repeated report of an own result
        res = [k for k, t in enumerate(seq) if t[0] == "o" and t[1] != "U"]
        if res:
            k = rnd.choice(res)
            j = rnd.randint(k + 1, len(seq))
            seq = seq[:j] + [list(seq[k])] + seq[j:]
    if rnd.random() < 0.3:            # own CREATED noise (Tor sends it before the uploads)
        k = rnd.randint(0, len(seq))
        seq = seq[:k] + [["n", "CREATED", 0]] + seq[k:]
    if rnd.random() < 0.25:           # this Tor fetches the service's own descriptor from one of the directories
        d = rnd.choice(dirs)
        k = rnd.randint(0, len(seq))
        k2 = rnd.randint(k + 1, len(seq) + 1)
        # (schedules that also contain the open foreign-UPLOADED finding's trigger are classified under that
        # finding's keys: keep the fetch failure out of them so that the two mechanisms stay apart)
        second = rnd.choice(["RECEIVED", "IGNORE"] if known_trigger(seq) else ["RECEIVED", "FETCHFAILED", "IGNORE"])
        seq = seq[:k] + [["n", "REQUESTED", d]] + seq[k:]
        seq = seq[:k2] + [["n", second, d]] + seq[k2:]
    r = rnd.random()
    if r < 0.45:
        pos = 0
    elif r < 0.7:
        pos = next((i for i, s in enumerate(seq) if s[0] == "o"), len(seq))
    else:
        pos = rnd.randint(0, len(seq))
    seq = seq[:pos] + [["R"]] + seq[pos:]
    names = list(range(20))
    rnd.shuffle(names)
    c = {"kind": rnd.choice(KINDS), "await_all": rnd.random() < 0.5, "stimuli": seq,
         "dirnames": names[:12]}
    if rnd.random() < 0.25:
        c["app_listener"] = True
    elif rnd.random() < 0.2:
        c["prelude"] = "app-listener-removed-just-before"
    elif c["kind"] in ("eph3", "eph2", "auth-gen", "auth-key") and rnd.random() < 0.2:
        c["prelude"] = "retry-after-rejected-creation"
    c["name_style"] = rnd.randrange(4)
    return c


def random_history(rnd, dirs):
    state = {d: 0 for d in dirs}
    seq = []
    while True:
        opts = [("U", d) for d in dirs if state[d] == 0]
        opts += [(a, d) for d in dirs if state[d] == 1 for a in "SF"]
        if not opts:
            break
        if all(state[d] > 0 for d in dirs) and rnd.random() < 0.12:
            break
        a, d = rnd.choice(opts)
        state[d] = 1 if a == "U" else 2
        seq.append((a, d))
    return seq


def random_merge(rnd, a, b):
    a, b = list(a), list(b)
    out = []
    while a or b:
        if a and (not b or rnd.random() < len(a) / float(len(a) + len(b))):
            out.append(a.pop(0))
        else:
            out.append(b.pop(0))
    return out


# ---------------------------------------------------------------------------
# reference decision procedure

def reference(stimuli, await_all):
    """Reference decision procedure.  A directory may be tried again (UPLOAD d after a result for d): the new
    attempt is outstanding until its own result arrives.  Reading of the statement used here:
      success (default mode): an own UPLOADED was seen;
      success (await-all)   : no own attempt is outstanding and an own UPLOADED was seen (an earlier failure of a
                              directory whose retry succeeded does not matter; a directory that has succeeded is never
                              outstanding again: UPLOADED -> UPLOAD -> FAILED/nothing leaves it a success);
      failure               : there was an attempt, none is outstanding, and no own UPLOADED was ever seen."""
    att, ok, failed = set(), set(), set()       # directories ever announced / ever confirmed / ever failed
    pending = set()                             # directories whose latest attempt has no result yet
    last = {}                                   # directory -> "S" | "F" (latest result)
    replied = False
    reply_at = None
    own_before_reply = False
    can_ok, can_fail, any_own_ok, any_own_fail = [], [], [], []
    len_ok, len_fail = [], []
    att_post = set()              # own attempts announced AFTER the creating reply
    own_seen = 0
    for i, s in enumerate(stimuli):
        if s[0] == "R":
            replied = True
            reply_at = i
        elif s[0] == "o":
            own_seen += 1
            if not replied:
                own_before_reply = True
            a, d = s[1], s[2]
            if a == "U":
                att.add(d)
                if d not in ok:
                    # a directory that already holds the descriptor is not outstanding again when Tor
                    # refreshes it: a success stays a success, whatever the re-upload's result
                    pending.add(d)
                if replied:
                    att_post.add(d)
            elif a == "S":
                ok.add(d)
                pending.discard(d)
                last[d] = "S"
            else:
                failed.add(d)
                pending.discard(d)
                last[d] = "F"
        if await_all:
            c_ok = bool(ok) and not pending
        else:
            c_ok = bool(ok)
        can_ok.append(c_ok)
        can_fail.append(bool(att) and not pending and not ok)
        any_own_ok.append(bool(ok))
        any_own_fail.append(bool(failed))
        # own events BEFORE the creating reply (Tor does not send them) may be taken into account by a
        # correct implementation (reading A = can_ok/can_fail above) or ignored (reading B: only the
        # attempts announced after the reply count); what no reading allows is completing while an attempt
        # announced after the reply is unresolved, or failing while one of those has not failed
        post_pending = pending & att_post
        if await_all:
            len_ok.append(c_ok or (bool(ok) and not post_pending))
        else:
            len_ok.append(bool(ok))
        len_fail.append(can_fail[-1] or (bool(att_post) and not post_pending
                                         and all(last.get(d) == "F" for d in att_post)))
    return {"can_ok": can_ok, "can_fail": can_fail, "any_own_ok": any_own_ok, "any_own_fail": any_own_fail,
            "lenient_ok": len_ok, "lenient_fail": len_fail,
            "reply_at": reply_at,
            "own_before_reply": own_before_reply, "own_events": own_seen}


def has_retry(stimuli):
    """an own UPLOAD for a directory that already has an own result -> which results were retried
    ("FAILED", "UPLOADED" or "FAILED,UPLOADED"), "" if there is no retry"""
    done = {}
    kinds = set()
    for s in stimuli:
        if s[0] == "o":
            if s[1] == "U":
                if s[2] in done:
                    kinds.add(ACT[done[s[2]]])
            else:
                done[s[2]] = s[1]
    return ",".join(sorted(kinds))


def known_trigger(stimuli):
    """a foreign UPLOADED on a directory for which the own service has an attempt at that moment"""
    att = set()
    for s in stimuli:
        if s[0] == "o" and s[1] == "U":
            att.add(s[2])
        elif s[0] == "f" and s[1] == "S" and s[2] in att:
            return True
    return False


def early_results(stimuli, p):
    """which results (delivered after the reply, up to stimulus p) belong to directories whose own UPLOAD
    preceded the creating reply: none / FAILED / UPLOADED / FAILED,UPLOADED"""
    early, out, replied = set(), set(), False
    for i, s in enumerate(stimuli):
        if p is not None and i > p:
            break
        if s[0] == "R":
            replied = True
        elif s[0] == "o":
            if s[1] == "U":
                if not replied:
                    early.add(s[2])
            elif replied and s[2] in early:
                out.add(ACT[s[1]])
    return ",".join(sorted(out)) or "none"


def describe(stimuli, p):
    """structural description of stimulus p"""
    s = stimuli[p]
    if s[0] == "R":
        return "creating-reply"
    if s[0] == "r":
        return "other-service-creating-reply"
    if s[0] == "n":
        return "own-" + ("fetch-FAILED" if s[1] == "FETCHFAILED" else s[1])
    if s[0] == "o":
        return "own-" + ACT[s[1]]
    att = {t[2] for t in stimuli[:p] if t[0] == "o" and t[1] == "U"}
    return "%s-%s-on-%s" % ("foreign" if s[0] == "f" else "unknown-address", ACT[s[1]],
                            "own-attempted-dir" if s[2] in att else "dir-not-own-attempted")


def mode_name(case):
    return "await-all" if case["await_all"] else "one-shot"


def input_class(case, what):
    if known_trigger(case["stimuli"]):
        return mode_name(case) + "+foreign-UPLOADED-on-own-attempted-dir"
    ns = {t[1] for t in case["stimuli"] if t[0] == "n"}
    if "FETCHFAILED" in ns:
        what += "+own-descriptor-fetch-FAILED"
    elif ns - {"CREATED"}:
        what += "+own-client-side-events"
    if has_retry(case["stimuli"]):
        what += "+own-directory-tried-again-after=" + has_retry(case["stimuli"])
    elif has_own_duplicate(case["stimuli"]):
        what += "+own-report-repeated"
    return mode_name(case) + "+" + what


def signature(stimuli):
    return " ".join("R" if s[0] == "R" else (s[0] + (s[1][:4] if s[0] == "n" else s[1][0]) + str(s[2])) for s in stimuli)


# ---------------------------------------------------------------------------
# one execution

class Run(object):
    __slots__ = ("fired_at", "ok", "err", "cbs", "left", "hs_subscribed", "last_setevents", "log", "twice_at",
                 "progress", "sent", "suppressed", "harness", "value_ok", "delivered_own", "reasons", "name_style",
                 "app_gone", "other_active", "first_gone_while_waiting")


_ROOT = []


def scratch_root():
    if not _ROOT:
        _ROOT.append(tempfile.mkdtemp(prefix="vf-c15-"))
    return _ROOT[0]


def cleanup_root():
    while _ROOT:
        shutil.rmtree(_ROOT.pop(), ignore_errors=True)


def execute(case):
    """run one schedule against the real code; returns Run"""
    from txtorcon import TorConfig
    from txtorcon.onion import (EphemeralOnionService, EphemeralAuthenticatedOnionService, AuthBasic,
                                FilesystemOnionService, DISCARD)
    kind = case["kind"]
    stimuli = case["stimuli"]
    names = case.get("dirnames")
    special = case.get("special")
    r = Run()
    r.fired_at = None
    r.ok = r.err = None
    r.cbs = []
    r.log = []
    r.twice_at = None
    r.progress = []
    r.sent = r.suppressed = r.delivered_own = 0
    r.harness = None
    r.value_ok = True
    r.reasons = set()
    r.name_style = None
    r.left = []
    r.hs_subscribed = False
    r.last_setevents = None
    r.app_gone = r.other_active = r.first_gone_while_waiting = False
    tor = OT.OnionTor()
    proto, tor, link = connected_protocol(tor)
    cfg = TorConfig(proto)
    link.pump()
    if not cfg.post_bootstrap.called:
        r.harness = "config bootstrap stalled"
        return r
    prelude = case.get("prelude")
    if prelude == "app-listener-removed-just-before":
        # the only HS_DESC listener of the connection is removed and, before Tor has answered the
        # unsubscribing SETEVENTS, the creation installs its own
        app_cb = lambda text: None
        proto.add_event_listener("HS_DESC", app_cb)
        link.pump()
        proto.remove_event_listener("HS_DESC", app_cb)          # no pump: the 250 is still to come
    if case.get("app_listener"):
        # an application's own HS_DESC listener on the same connection: HS_DESC stays subscribed, and
        # removing the wait's listener needs no SETEVENTS round-trip
        # variant app_oneshot_at=k: a ONE-SHOT application listener (registered BEFORE the service's wait) that
        # removes itself from inside its own callback when it is handed its k-th HS_DESC event: the wait's
        # listener, registered after it, must still be handed that very event
        at = case.get("app_oneshot_at")
        if at:
            seen_by_app = [0]

            def app_listener(text):
                seen_by_app[0] += 1
                if seen_by_app[0] == at:
                    r.app_gone = True
                    proto.remove_event_listener("HS_DESC", app_listener)
        else:
            app_listener = lambda text: None
        proto.add_event_listener("HS_DESC", app_listener)
        link.pump()
    orig_add = proto.add_event_listener

    def add(evt, cb):
        if evt == "HS_DESC":
            r.cbs.append(cb)
        return orig_add(evt, cb)
    proto.add_event_listener = add
    aud = audit.Auditor(wire.LClock())
    logs = audit.LogCapture()
    logs.start()
    hsdir = None
    try:
        word = "SETCONF" if kind.startswith("fs") else "ADD_ONION"
        if special == "rejected":
            tor.script(word, (512 if word == "ADD_ONION" else 513, [("end", "Unacceptable: refused by the harness")]))
        elif special == "cancelled":
            # the caller cancels (or addTimeout()s) create() while a command of the creation is unanswered
            tor.hold_next("SETEVENTS" if case["cancel_point"] == "subscription-outstanding" else word)
        elif special == "dupdir":
            pass
        elif special != "badkey":
            tor.hold_next(word)
        kw = dict(await_all_uploads=case["await_all"], progress=lambda p, tag, d: r.progress.append(p))
        if case.get("await_none") and not case["await_all"]:
            kw["await_all_uploads"] = None
        ports = ["80 127.0.0.1:8080"]
        reactor = OT.PortReactor()
        if prelude == "retry-after-rejected-creation":
            # a first ADD_ONION is refused by Tor; the caller's errback retries the creation AT ONCE, i.e. while the
            # unsubscribing SETEVENTS of the abandoned first wait is still unanswered.  The retry is the case judged.
            def make():
                if kind in ("eph3", "eph2"):
                    return EphemeralOnionService.create(reactor, cfg, ports, version=int(kind[-1]), **kw)
                pk = {"auth-gen": None, "auth-key": OT.KEYS.rsa(OT.CALLER_BASE).blob}[kind]
                return EphemeralAuthenticatedOnionService.create(reactor, cfg, ports, version=2, private_key=pk,
                                                                 auth=AuthBasic(["bob"]), **kw)
            box = {}

            def retry(f):
                del r.cbs[:]
                box["d"] = make()
                return None
            tor.script("ADD_ONION", (512, [("end", "Bad arguments: refused by the harness (first attempt)")]))
            first = make()
            first.addErrback(retry)
            link.pump()
            d = box.get("d")
            if d is None:
                r.harness = "first attempt was not refused / no retry started: %r" % (tor.lines[-3:],)
                return r
        elif special == "badkey":
            # key material the client itself must refuse (line break / type not matching the version)
            d = EphemeralOnionService.create(reactor, cfg, ports, version=int(kind[-1]),
                                             private_key=case["badkey"], **kw)
        elif kind in ("eph3", "eph2"):
            d = EphemeralOnionService.create(reactor, cfg, ports, version=int(kind[-1]), **kw)
        elif kind in ("auth-gen", "auth-key", "auth-discard"):
            pk = {"auth-gen": None, "auth-key": OT.KEYS.rsa(OT.CALLER_BASE).blob, "auth-discard": DISCARD}[kind]
            d = EphemeralAuthenticatedOnionService.create(reactor, cfg, ports, version=2, private_key=pk,
                                                          auth=AuthBasic(["bob"]), **kw)
        elif special == "dupdir":
            # a second FilesystemOnionService.create() for a directory that is already configured:
            # TorConfig.save() refuses locally (RuntimeError), nothing is sent for it
            hsdir = tempfile.mkdtemp(prefix="hs", dir=scratch_root())
            tor.auto_upload = 1
            o0 = aud.watch(FilesystemOnionService.create(reactor, cfg, hsdir, ports, version=int(kind[-1])), "first")
            link.pump()
            tor.auto_upload = 0
            if not (o0.fired == 1 and o0.ok):
                r.harness = "first creation of the directory did not complete: %s" % (o0.describe(),)
                return r
            del r.cbs[:]
            d = FilesystemOnionService.create(reactor, cfg, hsdir, ["81 127.0.0.1:8081"], version=int(kind[-1]), **kw)
        else:
            hsdir = tempfile.mkdtemp(prefix="hs", dir=scratch_root())
            d = FilesystemOnionService.create(reactor, cfg, hsdir, ports, version=int(kind[-1]), **kw)
        o = aud.watch(d, "create")
        link.pump()
        if special == "cancelled":
            if len(tor.held) != 1 or o.fired:
                r.harness = "nothing outstanding to cancel at: %r %s" % (tor.lines[-2:], o.describe())
                return r
            d.cancel()
            link.pump()
        if special in ("rejected", "badkey", "cancelled", "dupdir"):
            addr = OT.KEYS.ed(77).service_id
        else:
            if len(tor.held) != 1:
                r.harness = "creating command not received/held: %r %s" % (tor.lines[-3:], o.describe())
                return r
            addr = tor.fs_services[-1].service_id if kind.startswith("fs") else list(tor.onions.values())[-1].service_id
        foreign = OT.KEYS.ed(78).service_id if len(addr) == 56 else OT.KEYS.rsa(OT.CALLER_BASE + 1).service_id

        style = name_style(case)
        r.name_style = style

        def dirname(dn):
            return hsdir_longname(style, names[dn] if names else dn)
        for i, s in enumerate(stimuli):
            if s[0] == "R":
                if special not in ("rejected", "badkey", "dupdir"):
                    tor.release()
            else:
                who = foreign if s[0] == "f" else ("UNKNOWN" if s[0] == "x" else addr)
                if s[0] == "n":
                    # events about the OWN address that are not upload reports: the descriptor was built
                    # (CREATED), or this Tor, acting as a client, fetches the service's own descriptor from a
                    # directory (REQUESTED / RECEIVED / IGNORE / a FAILED with a fetch-only REASON)
                    if s[1] == "CREATED":
                        sent = tor.hs_desc("CREATED", who, "UNKNOWN", replica=0)
                    elif s[1] == "FETCHFAILED":
                        sent = tor.hs_desc("FAILED", who, dirname(s[2]), auth="NO_AUTH", descid=AO.descriptor_id(who, s[2]),
                                           reason=FETCH_ONLY_REASONS[s[2] % len(FETCH_ONLY_REASONS)])
                    else:
                        sent = tor.hs_desc(s[1], who, dirname(s[2]), auth="NO_AUTH", descid=AO.descriptor_id(who, s[2]))
                else:
                    if s[0] == "x":
                        # a descriptor fetch by id: Tor has no address to report
                        sent = tor.hs_desc(ACT[s[1]], who, dirname(s[2]), auth="NO_AUTH",
                                           descid=AO.descriptor_id("fetch", s[2]),
                                           reason=("NOT_FOUND", "QUERY_REJECTED", "UNEXPECTED")[s[2] % 3] if s[1] == "F" else None)
                    else:
                        sent = tor.hs_desc(ACT[s[1]], who, dirname(s[2]),
                                           descid=AO.descriptor_id(who, s[2]) if s[1] != "S" else None,
                                           reason=fail_reason(case, s[2]) if s[1] == "F" else None)
                    if s[1] == "F" and s[0] != "x":
                        r.reasons.add(fail_reason(case, s[2]) or "none")
                if sent:
                    r.sent += 1
                    if s[0] == "o":
                        r.delivered_own += 1
                else:
                    r.suppressed += 1
            link.pump()
            for e in logs.take():
                r.log.append((i, e[0], e[1][:160]))
                if e[0] == "AlreadyCalledError" and r.twice_at is None:
                    r.twice_at = i
            if r.fired_at is None and o.fired:
                r.fired_at = i
        if stimuli and r.fired_at is None and o.fired:
            r.fired_at = len(stimuli) - 1
        if not stimuli and o.fired:
            r.fired_at = -1
        if o.fired:
            r.ok = bool(o.ok)
            if not o.ok:
                r.err = "%s: %s" % (type(o.value).__name__, str(o.value)[:120])
            else:
                v = o.value
                r.value_ok = getattr(v, "hostname", None) == addr + ".onion"
        if o.fired > 1:
            r.twice_at = len(stimuli)
        evt = proto.valid_events.get("HS_DESC")
        cur = list(evt.callbacks) if evt is not None else []
        r.left = [c for c in r.cbs if c in cur]
        r.hs_subscribed = "HS_DESC" in tor.subscribed
        r.last_setevents = list(tor.setevents_log[-1]) if tor.setevents_log else None
        if link.exceptions:
            r.harness = "exception escaped dataReceived: %r" % (link.exceptions[:2],)
        return r
    finally:
        logs.stop()
        if hsdir is not None:
            shutil.rmtree(hsdir, ignore_errors=True)


_PROJ = {}


def projected(case):
    """the same case without the foreign service's events (cached)"""
    st = [s for s in case["stimuli"] if s[0] not in NOT_OWN]
    # the own events keep the REASON= fields they have in the original schedule
    shift = case.get("reason_shift")
    if shift is None:
        shift = zlib.crc32(signature(case["stimuli"]).encode("ascii")) % 3
    nstyle = name_style(case)
    key = (case["kind"], case["await_all"], signature(st), tuple(case.get("dirnames") or ()), bool(case.get("app_listener")),
           shift, nstyle, case.get("prelude"), case.get("app_oneshot_at"))
    res = _PROJ.get(key)
    if res is None:
        c2 = dict(case)
        c2["stimuli"] = st
        c2["reason_shift"] = shift
        c2["name_style"] = nstyle
        run = execute(c2)
        res = _PROJ[key] = (run.fired_at, run.ok, run.harness)
        if len(_PROJ) > 50000:
            _PROJ.clear()
    return st, res


# ---------------------------------------------------------------------------
# a REAL second service: two creations running concurrently on one connection

def perspective(stimuli, me):
    """the pair's schedule as seen by service `me` ("A" = created, and its wait registered, first; "B" = second):
    own events "o", the other service's events "f", own creating reply ["R"], the other one's ["r", "R", 0]"""
    out = []
    for s in stimuli:
        if s[0] == "R" + me:
            out.append(["R"])
        elif s[0] in ("RA", "RB"):
            out.append(["r", "R", 0])
        elif s[0] == me:
            out.append(["o", s[1], s[2]])
        else:
            out.append(["f", s[1], s[2]])
    return out


def pair_view(case, me):
    crc = zlib.crc32(signature(case["stimuli"]).encode("ascii"))
    return {"kind": case["kind_" + me.lower()], "await_all": case["await_all_" + me.lower()],
            "stimuli": perspective(case["stimuli"], me), "concurrent": "first" if me == "A" else "second",
            "reason_shift": crc % 3, "name_style": (crc // 3) % 4}


def _new_run():
    r = Run()
    r.fired_at = None
    r.ok = r.err = None
    r.cbs = []
    r.log = []
    r.twice_at = None
    r.progress = []
    r.sent = r.suppressed = r.delivered_own = 0
    r.harness = None
    r.value_ok = True
    r.reasons = set()
    r.name_style = None
    r.left = []
    r.hs_subscribed = False
    r.last_setevents = None
    r.app_gone = r.other_active = r.first_gone_while_waiting = False
    return r


def execute_pair(case):
    """two EphemeralOnionService.create() calls on ONE TorConfig / TorControlProtocol, both waits (real listeners)
    active at the same time.  txtorcon sends one command at a time, so Tor sees B's ADD_ONION only after it has
    answered A's: stimulus RA (release A's reply) precedes every B event and RB."""
    from txtorcon import TorConfig
    from txtorcon.onion import EphemeralOnionService
    stimuli = case["stimuli"]
    views = {m: pair_view(case, m) for m in "AB"}
    runs = {m: _new_run() for m in "AB"}

    def problem(text):
        for m in "AB":
            runs[m].harness = text
        return runs, views
    tor = OT.OnionTor()
    proto, tor, link = connected_protocol(tor)
    cfg = TorConfig(proto)
    link.pump()
    if not cfg.post_bootstrap.called:
        return problem("config bootstrap stalled")
    cbs = []
    orig_add = proto.add_event_listener

    def add(evt, cb):
        if evt == "HS_DESC":
            cbs.append(cb)
        return orig_add(evt, cb)
    proto.add_event_listener = add
    aud = audit.Auditor(wire.LClock())
    logs = audit.LogCapture()
    logs.start()
    try:
        tor.hold_next("ADD_ONION")
        tor.hold_next("ADD_ONION")
        reactor = OT.PortReactor()
        ds = {}
        for m, port in (("A", "80 127.0.0.1:8080"), ("B", "81 127.0.0.1:8081")):
            ds[m] = EphemeralOnionService.create(
                reactor, cfg, [port], version=int(views[m]["kind"][-1]), await_all_uploads=views[m]["await_all"],
                progress=(lambda p, tag, d, _r=runs[m]: _r.progress.append(p)))
            if len(cbs) != (1 if m == "A" else 2):
                return problem("expected one HS_DESC listener per create() call, registered at once: %d after %s" % (len(cbs), m))
            runs[m].cbs = [cbs[-1]]
        o = {m: aud.watch(ds[m], "create-" + m) for m in "AB"}
        link.pump()
        if len(tor.held) != 1 or len(tor.onions) != 1:
            return problem("first creating command not received/held: %r" % (tor.lines[-3:],))
        addr = {"A": list(tor.onions.values())[-1].service_id, "B": None}
        style = views["A"]["name_style"]
        for m in "AB":
            runs[m].name_style = style
        for i, s in enumerate(stimuli):
            if s[0] in ("RA", "RB"):
                if len(tor.held) != 1:
                    return problem("nothing held at %s" % (s[0],))
                tor.release()
                link.pump()
                if s[0] == "RA":
                    if len(tor.held) != 1 or len(tor.onions) != 2:
                        return problem("second creating command not received/held after the first reply: %r" % (tor.lines[-3:],))
                    addr["B"] = list(tor.onions.values())[-1].service_id
            else:
                m = s[0]
                if addr[m] is None:
                    return problem("event for a service Tor does not know yet")
                reason = fail_reason(views[m], s[2]) if s[1] == "F" else None
                sent = tor.hs_desc(ACT[s[1]], addr[m], hsdir_longname(style, s[2]),
                                   descid=AO.descriptor_id(addr[m], s[2]) if s[1] != "S" else None, reason=reason)
                if s[1] == "F":
                    runs[m].reasons.add(reason or "none")
                for k in "AB":
                    if sent:
                        runs[k].sent += 1
                    else:
                        runs[k].suppressed += 1
                if sent:
                    runs[m].delivered_own += 1
                link.pump()
            for e in logs.take():
                for k in "AB":
                    runs[k].log.append((i, e[0], e[1][:160]))
                    if e[0] == "AlreadyCalledError" and runs[k].twice_at is None:
                        runs[k].twice_at = i
            for k in "AB":
                if runs[k].fired_at is None and o[k].fired:
                    runs[k].fired_at = i
            if o["A"].fired and not o["B"].fired:
                runs["B"].first_gone_while_waiting = True
        evt = proto.valid_events.get("HS_DESC")
        cur = list(evt.callbacks) if evt is not None else []
        for k, other in (("A", "B"), ("B", "A")):
            r = runs[k]
            if o[k].fired:
                r.ok = bool(o[k].ok)
                if not o[k].ok:
                    r.err = "%s: %s" % (type(o[k].value).__name__, str(o[k].value)[:120])
                else:
                    r.value_ok = getattr(o[k].value, "hostname", None) == (addr[k] or "?") + ".onion"
            if o[k].fired > 1:
                r.twice_at = len(stimuli)
            r.left = [c for c in r.cbs if c in cur]
            r.other_active = not o[other].fired
            r.hs_subscribed = "HS_DESC" in tor.subscribed
            r.last_setevents = list(tor.setevents_log[-1]) if tor.setevents_log else None
            if link.exceptions:
                r.harness = "exception escaped dataReceived: %r" % (link.exceptions[:2],)
        return runs, views
    finally:
        logs.stop()


def run_pair(case, rec):
    runs, views = execute_pair(case)
    rec.count("concurrent_pair_cases")
    bad = []
    for m in "AB":
        bad += judge(views[m], runs[m], rec, case)
    return bad


def concurrent_cases(na_list, nb_list):
    """service A over directories 0..na-1, service B over 0..nb-1 (so they share directories), every causal history
    of each, every interleaving; A's reply first (Tor sees B's command only then), B's reply right after it or just
    before B's first event"""
    for na in na_list:
        for ha in histories(list(range(na)), True):
            a = [["A", x, d] for (x, d) in ha]
            for nb in nb_list:
                for hb in histories(list(range(nb)), False):
                    b = [["B", x, d] for (x, d) in hb]
                    for mg in merges(a, b):
                        yield [["RA", "R", 0], ["RB", "R", 0]] + mg
                        k = next(i for i, t in enumerate(mg) if t[0] == "B")
                        if k > 0:
                            yield [["RA", "R", 0]] + mg[:k] + [["RB", "R", 0]] + mg[k:]


def oneshot_listener_cases(maxn):
    """own schedules x the position (1-based count of HS_DESC events) at which an application's one-shot listener,
    registered before the service, removes itself from inside its callback"""
    for st in own_cases(maxn):
        for at in range(1, sum(1 for t in st if t[0] != "R") + 1):
            yield st, at
    # one directory more with the reply first (the schedules on which completion is demanded), every 8th
    i = 0
    for h in histories(list(range(maxn + 1)), True):
        for at in range(1, len(h) + 1):
            i += 1
            if i % 8 == 0:
                yield [["R"]] + [["o", a, d] for (a, d) in h], at


FAIL_CAUSES = {"rejected": "creating-command-rejected", "badkey": "key-rejected-before-sending",
               "cancelled": "create-cancelled-by-caller", "dupdir": "config-save-refused-locally"}


def failure_cause(case):
    c = FAIL_CAUSES[case["special"]]
    if case["special"] == "cancelled":
        c += "+" + case["cancel_point"]
    return c


def run_case(case, rec):
    if case.get("concurrent"):
        return run_pair(case, rec)
    return judge(case, execute(case), rec, case)


def judge(case, run, rec, stored):
    """case: what is judged (for a concurrent pair: the view of ONE of the two services); stored: the case
    written with a violation (what replay() needs)"""
    stimuli = case["stimuli"]
    await_all = bool(case["await_all"])
    special = case.get("special")
    bad = []

    def V(clause, what, detail):
        bad.append(clause)
        if not special and reference(stimuli, await_all)["own_before_reply"] and not what.startswith("kind="):
            what += "+own-event-before-creating-reply+early-dir-results=" + early_results(stimuli, run.fired_at)
        if case.get("app_listener"):
            what += "+other-HS_DESC-listener-registered"
            if case.get("app_oneshot_at"):
                what += "+it-unsubscribes-during-dispatch"
        if case.get("concurrent"):
            what += "+second-service-created-concurrently+this-wait-registered-" + case["concurrent"]
        if case.get("prelude"):
            what += "+" + case["prelude"]
        if not special and not has_retry(stimuli) and not any(t[0] == "n" and t[1] != "CREATED" for t in stimuli) \
                and name_style(case) in (1, 2) \
                and len({t[2] for t in stimuli if t[0] == "o"}) > 1:
            what += "+own-hsdir-nicknames-collide"
        rec.violation(clause, what if special else input_class(case, what), detail, stored)

    if run.harness:
        rec.violation("harness-problem", case["kind"], {"what": run.harness}, stored)
        rec.case(case, nontrivial=False)
        return bad
    ref = reference(stimuli, await_all)
    rec.count("prefix_checks", len(stimuli))
    rec.count("events_delivered", run.sent)
    rec.count("events_not_sent_unsubscribed", run.suppressed)
    p = run.fired_at
    lenient = ref["own_before_reply"]
    outcome = None if p is None else ("ok" if run.ok else "fail")
    detail = {"fired_at": p, "outcome": outcome, "error": run.err, "schedule": signature(stimuli)}

    if special in FAIL_CAUSES:
        rec.count("rejected_cases")
        rec.seen("creation_failure_causes", failure_cause(case))
        if outcome != "fail":
            V("rejected-creation-did-not-fail-create", failure_cause(case), detail)
    elif special == "auth-discard":
        rec.count("auth_discard_cases")
        if p is None and (ref["can_ok"][-1] or ref["can_fail"][-1]):
            V("not-completed-at-quiescence", "basic-auth-ephemeral+discarded-key+" + mode_name(case), detail)
    else:
        # ---- safety --------------------------------------------------------------------------
        if p is not None:
            rec.count("outcomes_compared")
            # own events before the creating reply may or may not be taken into account by a correct
            # implementation (Tor does not send them): there only the weakest form is demanded
            just_ok = ref["lenient_ok"] if lenient else ref["can_ok"]
            just_fail = ref["lenient_fail"] if lenient else ref["can_fail"]
            if run.ok:
                if not any(just_ok[:p + 1]):
                    if not any(ref["any_own_ok"][:p + 1]):
                        V("completed-without-own-confirmed-upload", "trigger=" + describe(stimuli, p), detail)
                    else:
                        V("completed-with-own-uploads-unresolved", "trigger=" + describe(stimuli, p), detail)
                if not run.value_ok:
                    V("completed-with-wrong-service", "trigger=" + describe(stimuli, p), detail)
            else:
                if not any(just_fail[:p + 1]):
                    V("failed-although-not-all-own-uploads-failed", "trigger=" + describe(stimuli, p), detail)
            if stimuli[p][0] in FOREIGN:
                V("fired-at-foreign-event", "trigger=" + describe(stimuli, p), detail)
        # ---- liveness at quiescence -------------------------------------------------------------
        if lenient:
            rec.count("lenient_own_event_before_reply")
        else:
            want = "ok" if ref["can_ok"][-1] else ("fail" if ref["can_fail"][-1] else None)
            if want is not None:
                rec.count("liveness_obligations")
                if p is None:
                    cond = ref["can_ok"] if want == "ok" else ref["can_fail"]
                    q = len(cond) - 1
                    while q > 0 and cond[q - 1]:
                        q -= 1
                    V("not-completed-at-quiescence",
                      "expected=%s+decided-by=%s" % ("success" if want == "ok" else "failure", describe(stimuli, q)), detail)
        # ---- metamorphic: foreign events removed ------------------------------------------------
        if any(s[0] in FOREIGN for s in stimuli) and not lenient:
            st2, (p2, ok2, h2) = projected(case)
            if not h2:
                rec.count("metamorphic_pairs")
                # index of the p-th stimulus in the projection
                mapped = None
                if p is not None and stimuli[p][0] not in FOREIGN:
                    mapped = sum(1 for s in stimuli[:p + 1] if s[0] not in NOT_OWN) - 1
                same = (p is None and p2 is None) or (p is not None and p2 is not None and mapped == p2
                                                      and bool(run.ok) == bool(ok2))
                if not same:
                    upto = len(stimuli) if p is None else p + 1
                    kinds = sorted({describe(stimuli, i) for i in range(upto) if stimuli[i][0] in FOREIGN})
                    V("foreign-events-changed-outcome", "foreign=" + ",".join(kinds),
                      dict(detail, without_foreign={"fired_at": p2, "ok": ok2, "schedule": signature(st2)}))

    # ---- exactly once --------------------------------------------------------------------------
    if run.twice_at is not None:
        t = run.twice_at
        V("completion-attempted-twice", "after=%s+trigger=%s" % (outcome, describe(stimuli, t) if t < len(stimuli) else "end"),
          dict(detail, log=run.log[:3]))
    other = [e for e in run.log if e[1] != "AlreadyCalledError"]
    if other:
        rec.count("listener_exceptions_logged", len(other))
        rec.seen("listener_exception_types", "%s/%s" % (case["kind"], other[0][1]))
    # ---- cleanup -------------------------------------------------------------------------------
    if p is not None:
        rec.count("cleanup_checked")
        cause = failure_cause(case) if special in FAIL_CAUSES else "upload-events"
        if run.left:
            V("listener-remains-after-%s" % ("success" if run.ok else "failure"), cause,
              dict(detail, listeners_left=len(run.left)))
        elif case.get("app_listener") and not run.app_gone:
            pass            # HS_DESC legitimately stays subscribed for the application's listener
        elif run.other_active:
            pass            # ... or for the wait of the other service of a concurrent pair, which is still waiting
        elif run.hs_subscribed or (run.last_setevents is not None and "HS_DESC" in run.last_setevents):
            V("setevents-not-updated-after-%s" % ("success" if run.ok else "failure"), cause,
              dict(detail, last_setevents=run.last_setevents))
    elif special is None and not run.cbs:
        V("no-listener-registered", "kind=" + case["kind"], detail)
    # ---- progress: observed only ------------------------------------------------------------------
    pr = run.progress
    if pr:
        rec.count("progress_calls", len(pr))
        if any(b < a for a, b in zip(pr, pr[1:])):
            rec.count("progress_sequences_nonmonotone")
        if any(v > 100.0 for v in pr):
            rec.count("progress_sequences_over_100")
        if outcome == "ok" and pr[-1] != 100.0:
            rec.count("progress_not_ending_at_100_on_success")
        if outcome != "ok" and 100.0 in pr:
            rec.count("progress_100_without_success")
    if run.name_style is not None:
        rec.seen("hsdir_name_styles", NAME_STYLES[run.name_style])
        if run.name_style in (1, 2) and len({t[2] for t in stimuli if t[0] == "o"}) > 1:
            rec.count("cases_with_colliding_own_hsdir_nicknames")
    if case.get("prelude"):
        rec.count("cases_started_in_unsubscribe_window")
    if case.get("app_oneshot_at"):
        rec.count("cases_with_one_shot_app_listener")
        if run.app_gone:
            rec.count("app_listener_unsubscribed_during_dispatch")
    if case.get("concurrent"):
        rec.count("concurrent_service_views_judged")
        if case["concurrent"] == "second" and run.first_gone_while_waiting:
            rec.count("first_wait_unsubscribed_while_second_still_waiting")
    for rs in run.reasons:
        rec.seen("failed_reasons_delivered", rs)
    if has_retry(stimuli):
        rec.count("cases_with_own_retry")
    elif has_own_duplicate(stimuli):
        rec.count("cases_with_repeated_own_report")
    if any(t[0] == "n" and t[1] != "CREATED" for t in stimuli):
        rec.count("cases_with_own_client_side_events")
    if any(t[0] == "x" for t in stimuli):
        rec.count("cases_with_unknown_address_events")
    rec.seen("outcomes", "%s/%s/%s" % (case["kind"], mode_name(case), outcome))
    rec.seen("schedules", signature(stimuli))
    rec.case({"pair": stored, "judged": case["concurrent"]} if case.get("concurrent") else case,
             nontrivial=run.delivered_own > 0 or special is not None)
    return bad


# ---------------------------------------------------------------------------

_QUIET = []


def quiet_logs():
    if not _QUIET:
        _QUIET.append(1)
        from twisted.logger import globalLogBeginner
        globalLogBeginner.beginLoggingTo([lambda ev: None], redirectStandardIO=False, discardBuffer=True)


def special_cases():
    own = [["o", "U", 0], ["o", "U", 1], ["o", "S", 0], ["o", "S", 1]]
    for aw in (False, True):
        for kind in KINDS:
            for st in ([["R"]], [["R"], ["f", "U", 0], ["f", "S", 0]], [["f", "U", 0], ["R"], ["f", "F", 0]]):
                yield {"kind": kind, "await_all": aw, "stimuli": st, "special": "rejected"}
        for kind in KINDS:
            for point in ("creating-command-outstanding", "subscription-outstanding"):
                for st in ([["R"]], [["f", "U", 0], ["R"], ["f", "S", 0]]):
                    yield {"kind": kind, "await_all": aw, "stimuli": st, "special": "cancelled", "cancel_point": point}
        for kind in ("fs3", "fs2"):
            for st in ([["R"]], [["R"], ["f", "U", 0], ["f", "F", 0]]):
                yield {"kind": kind, "await_all": aw, "stimuli": st, "special": "dupdir"}
        for kind, bk in (("eph2", "abc\ndef"), ("eph3", "abc\rdef"), ("eph3", "RSA1024:abcdef")):
            yield {"kind": kind, "await_all": aw, "stimuli": [["R"], ["f", "U", 0], ["f", "S", 0]],
                   "special": "badkey", "badkey": bk}
        for st in ([["R"]] + own, [["R"], ["o", "U", 0], ["o", "S", 0]], [["R"], ["o", "U", 0], ["o", "F", 0]],
                   [["R"], ["o", "U", 0], ["f", "U", 0], ["o", "F", 0], ["f", "S", 0]]):
            yield {"kind": "auth-discard", "await_all": aw, "stimuli": st, "special": "auth-discard"}
        # await_all_uploads=None (the default of the create() methods) behaves as one-shot
        if not aw:
            for kind in ("eph3", "fs3"):
                for st in own_cases(2):
                    yield {"kind": kind, "await_all": False, "await_none": True, "stimuli": st}


def shard_cases(spec):
    mode = spec["mode"]
    if mode == "own":
        for st in own_cases(spec["maxn"], spec.get("minn", 1)):
            for aw in (False, True):
                for kind in spec.get("kinds", KINDS):
                    yield {"kind": kind, "await_all": aw, "stimuli": st}
    elif mode == "foreign":
        for st in foreign_cases(spec["own_n"], spec["foreign_m"], tuple(spec.get("reply_modes", ("first", "before-own")))):
            for aw in (False, True):
                for kind in spec.get("kinds", ("eph3", "fs3")):
                    yield {"kind": kind, "await_all": aw, "stimuli": st}
    elif mode == "retries":
        for st in retry_cases(spec["maxn"], spec.get("minn", 1)):
            for aw in (False, True):
                for kind in spec.get("kinds", ("eph3", "fs3", "auth-key")):
                    yield {"kind": kind, "await_all": aw, "stimuli": st}
    elif mode == "clientside":
        for st in clientside_cases(spec["maxn"]):
            for aw in (False, True):
                for kind in spec.get("kinds", ("eph3", "fs3")):
                    yield {"kind": kind, "await_all": aw, "stimuli": st}
    elif mode == "unknownaddr":
        for st in unknown_address_cases(spec["maxn"]):
            for aw in (False, True):
                for kind in spec.get("kinds", ("eph3", "fs3")):
                    yield {"kind": kind, "await_all": aw, "stimuli": st}
    elif mode == "dups":
        for st in dup_cases(spec["maxn"], spec.get("minn", 1)):
            for aw in (False, True):
                for kind in spec.get("kinds", ("eph3", "fs3", "auth-key")):
                    yield {"kind": kind, "await_all": aw, "stimuli": st}
    elif mode == "prelude":
        for st in own_cases(spec["maxn"]):
            for aw in (False, True):
                for kind in spec.get("retry_kinds", ("eph3", "auth-key")):
                    yield {"kind": kind, "await_all": aw, "stimuli": st, "prelude": "retry-after-rejected-creation"}
                for kind in spec.get("app_kinds", ("eph3", "fs3")):
                    yield {"kind": kind, "await_all": aw, "stimuli": st, "prelude": "app-listener-removed-just-before"}
    elif mode == "applistener":
        # the same own schedules with another HS_DESC listener registered on the connection
        for st in own_cases(spec["maxn"]):
            for aw in (False, True):
                for kind in spec.get("kinds", KINDS):
                    yield {"kind": kind, "await_all": aw, "stimuli": st, "app_listener": True}
    elif mode == "oneshot-applistener":
        for st, at in oneshot_listener_cases(spec["maxn"]):
            for aw in (False, True):
                for kind in spec.get("kinds", ("eph3", "fs3")):
                    yield {"kind": kind, "await_all": aw, "stimuli": st, "app_listener": True, "app_oneshot_at": at}
    elif mode == "concurrent":
        kinds = spec.get("kinds", ("eph3", "eph2"))
        for i, st in enumerate(concurrent_cases(spec["na"], spec["nb"])):
            for awa in (False, True):
                for awb in (False, True):
                    yield {"concurrent": True, "kind_a": kinds[i % len(kinds)], "kind_b": kinds[(i // len(kinds)) % len(kinds)],
                           "await_all_a": awa, "await_all_b": awb, "stimuli": st}
    elif mode == "special":
        for c in special_cases():
            yield c


def run_shard(spec, rec):
    quiet_logs()
    OT.memoize_pem_loading()
    OT.KEYS.rsa(0)
    try:
        mode = spec["mode"]
        rec.count("reference_selftest_assertions", AO.selftest() + (OT.selftest() if mode == "special" else 0))
        if mode == "random":
            for i in range(spec["n"]):
                rnd = gen.rnd_for(spec["seed"], PROPERTY, spec["shard"], i)
                case = random_case(rnd)
                rec.count("random_cases")
                run_case(case, rec)
                if i < 1:
                    rec.sample(case)
        else:
            k, n = spec.get("part", 0), spec.get("parts", 1)
            sample_every = spec.get("sample_every", 1)
            total = 0
            for i, case in enumerate(shard_cases(spec)):
                if i % n != k:
                    continue
                if sample_every > 1:
                    # a seeded sample of a space too large for this tier
                    if zlib.crc32(("%s/%s/%d" % (spec["seed"], spec["name"], i)).encode("ascii")) % sample_every:
                        continue
                total += 1
                run_case(case, rec)
                if total <= 1:
                    rec.sample(case)
            rec.count("enumerated_cases", total)
            if sample_every == 1:
                rec.enumerated(spec["name"])
    finally:
        cleanup_root()


def replay(case, rec):
    quiet_logs()
    OT.memoize_pem_loading()
    OT.KEYS.rsa(0)
    case["stimuli"] = [list(s) for s in case["stimuli"]]
    try:
        run_case(case, rec)
    finally:
        cleanup_root()


def plan(tier, seed):
    specs = []
    if tier == "quick":
        # complete for <= 2 directories, seeded samples beyond (the thorough tier enumerates everything)
        specs.append({"mode": "own", "maxn": 2,
                      "name": "own orderings (up to renaming) over 1-2 directories x reply position x mode x 6 kinds"})
        for i in range(3):
            specs.append({"mode": "own", "maxn": 3, "minn": 3, "part": i, "parts": 3, "sample_every": 6,
                          "name": "sample of own orderings over 3 directories x reply position x mode x 6 kinds"})
        for i in range(4):
            specs.append({"mode": "foreign", "own_n": [1, 2], "foreign_m": [1], "kinds": ["eph3"], "part": i, "parts": 4,
                          "name": "own 1-2 dirs x foreign 1 dir (shared or not) x every interleaving x mode x reply first/just before own"})
        for i in range(2):
            specs.append({"mode": "foreign", "own_n": [1, 2], "foreign_m": [1], "kinds": ["fs3", "auth-key"], "sample_every": 9,
                          "part": i, "parts": 2,
                          "name": "sample of own 1-2 dirs x foreign 1 dir interleavings, filesystem / basic-auth kinds"})
        for i in range(2):
            specs.append({"mode": "foreign", "own_n": [2], "foreign_m": [2], "kinds": ["eph3"], "reply_modes": ["first"],
                          "part": i, "parts": 2, "sample_every": 300,
                          "name": "sample of own 2 dirs x foreign 2 dirs interleavings"})
        specs.append({"mode": "special", "name": "rejected creating command / discarded key of a basic-auth service / await_all_uploads=None"})
        specs.append({"mode": "retries", "maxn": 2, "sample_every": 3,
                      "name": "sample of own orderings over 1-2 directories with one directory tried again (second attempt pending / UPLOADED / FAILED at every position)"})
        specs.append({"mode": "clientside", "maxn": 2, "sample_every": 2,
                      "name": "sample of own 1-2 dirs x own-address events that are no upload reports (REQUESTED/RECEIVED/IGNORE/CREATED/fetch FAILED) x every interleaving"})
        specs.append({"mode": "unknownaddr", "maxn": 2, "sample_every": 2,
                      "name": "sample of own 1-2 dirs x events with the address token UNKNOWN (FAILED / REQUESTED) x every interleaving"})
        specs.append({"mode": "dups", "maxn": 2,
                      "name": "own orderings over 1-2 directories with one report repeated at every later position x mode x 3 kinds"})
        specs.append({"mode": "dups", "maxn": 3, "minn": 3, "sample_every": 12,
                      "name": "sample of own orderings over 3 directories with one report repeated"})
        specs.append({"mode": "prelude", "maxn": 2,
                      "name": "own orderings over 1-2 directories x reply position x mode, creation started while an unsubscribing SETEVENTS is unanswered"})
        specs.append({"mode": "applistener", "maxn": 2, "kinds": ["fs3", "fs2", "eph3", "auth-key"],
                      "name": "own orderings over 1-2 directories x reply position x mode with another HS_DESC listener registered"})
        for i in range(2):
            specs.append({"mode": "oneshot-applistener", "maxn": 2, "part": i, "parts": 2,
                      "name": "own orderings over 1-2 directories x reply position x mode x a one-shot application HS_DESC listener (registered first) unsubscribing during the dispatch of every event position"})
        specs.append({"mode": "concurrent", "na": [1, 2], "nb": [1, 2], "sample_every": 300,
                      "name": "sample of two services created concurrently on one connection (two real waits): histories over 1-2 shared directories each x every interleaving x both modes each x second reply first / just before its events"})
        specs.append({"mode": "random", "n": 900})
    else:
        for i in range(4):
            specs.append({"mode": "own", "maxn": 3, "part": i, "parts": 4,
                          "name": "own orderings (up to renaming) over 1-3 directories x reply position x mode x 6 kinds"})
        for i in range(24):
            specs.append({"mode": "own", "maxn": 4, "minn": 4, "part": i, "parts": 24, "timeout_s": 3000,
                          "name": "own orderings (up to renaming) over 4 directories x reply position x mode x 6 kinds"})
        for i in range(3):
            specs.append({"mode": "foreign", "own_n": [1, 2], "foreign_m": [1], "part": i, "parts": 3, "kinds": list(KINDS),
                          "name": "own 1-2 dirs x foreign 1 dir x every interleaving x mode x reply first/just before own x 6 kinds"})
        for i in range(16):
            specs.append({"mode": "foreign", "own_n": [1, 2], "foreign_m": [2], "kinds": ["eph3"], "reply_modes": ["first"],
                          "part": i, "parts": 16, "timeout_s": 3000,
                          "name": "own 1-2 dirs x foreign 2 dirs (shared or not) x every interleaving x mode"})
        for i in range(8):
            specs.append({"mode": "foreign", "own_n": [3], "foreign_m": [1], "kinds": ["fs3"], "reply_modes": ["first"],
                          "part": i, "parts": 8, "timeout_s": 3000,
                          "name": "own 3 dirs x foreign 1 dir x every interleaving x mode"})
        specs.append({"mode": "special", "name": "rejected creating command / discarded key of a basic-auth service / await_all_uploads=None"})
        for i in range(2):
            specs.append({"mode": "retries", "maxn": 2, "part": i, "parts": 2,
                          "name": "own orderings over 1-2 directories with one directory tried again (second attempt pending / UPLOADED / FAILED at every position) x mode x 3 kinds"})
        for i in range(4):
            specs.append({"mode": "retries", "maxn": 3, "minn": 3, "part": i, "parts": 4, "sample_every": 6, "timeout_s": 3000,
                          "name": "sample of own orderings over 3 directories with one directory tried again"})
        for i in range(2):
            specs.append({"mode": "clientside", "maxn": 2, "part": i, "parts": 2, "kinds": ["eph3", "fs3", "auth-key"],
                          "name": "own 1-2 dirs x own-address events that are no upload reports (REQUESTED/RECEIVED/IGNORE/CREATED/fetch FAILED) x every interleaving x mode x 3 kinds"})
        for i in range(2):
            specs.append({"mode": "unknownaddr", "maxn": 2, "part": i, "parts": 2, "kinds": ["eph3", "fs3", "auth-key"],
                          "name": "own 1-2 dirs x events with the address token UNKNOWN (FAILED / REQUESTED) x every interleaving x mode x 3 kinds"})
        for i in range(3):
            specs.append({"mode": "dups", "maxn": 3, "part": i, "parts": 3,
                          "name": "own orderings over 1-3 directories with one report repeated at every later position x mode x 3 kinds"})
        for i in range(2):
            specs.append({"mode": "prelude", "maxn": 3, "part": i, "parts": 2,
                          "retry_kinds": ["eph3", "eph2", "auth-gen", "auth-key"], "app_kinds": list(KINDS),
                          "name": "own orderings over 1-3 directories x reply position x mode, creation started while an unsubscribing SETEVENTS is unanswered"})
        for i in range(2):
            specs.append({"mode": "applistener", "maxn": 3, "part": i, "parts": 2,
                          "name": "own orderings over 1-3 directories x reply position x mode x 6 kinds with another HS_DESC listener registered"})
        for i in range(4):
            specs.append({"mode": "oneshot-applistener", "maxn": 3, "kinds": ["eph3", "fs3", "auth-key"], "timeout_s": 3000,
                      "part": i, "parts": 4,
                      "name": "own orderings over 1-3 directories x reply position x mode x 3 kinds x a one-shot application HS_DESC listener (registered first) unsubscribing during the dispatch of every event position"})
        for i in range(4):
            specs.append({"mode": "concurrent", "na": [1, 2], "nb": [1, 2], "part": i, "parts": 4, "sample_every": 8, "timeout_s": 3000,
                          "name": "sample of two services created concurrently on one connection (two real waits): histories over 1-2 shared directories each x every interleaving x both modes each x second reply first / just before its events"})
        for i in range(12):
            specs.append({"mode": "random", "n": 5000, "timeout_s": 3000})
    return specs
