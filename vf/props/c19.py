"""C19 - launch fires at most once; success only after full bootstrap; tempdir removed.

Monitor: the real ``txtorcon.launch()`` on ``vf.fakereactor.FakeReactor`` (fake process,
virtual clock, harness-resolved connection attempts) with the control connection wired to
a gated ``FakeTor`` (cookie authentication against a real cookie file in the data
directory) through ``Link``.  A case is one *schedule*: a causally possible order of coarse
stimuli

    lst   stdout chunk(s) with the "Opening Control listener ..." line (optionally split)
    lst2  a second stdout chunk containing the listener phrase (retry after a failed connect)
    out   stdout output ending in "Bootstrapped 100% (done): Done"  (NOT a control-port report)
    err   stderr output
          (both carry varied bytes, chosen per case: ASCII, Latin-1 / arbitrary binary (not UTF-8), NUL bytes,
          valid multi-byte UTF-8, > 1 KiB / > 8 KiB of it ending 0-2 bytes past a character boundary, a
          partial line, one text split over several writes - also in the middle of a character)
    cok / cfail, cok2 / cfail2   the pending control connection attempt succeeds / fails
    own+ / own- / own!   the held TAKEOWNERSHIP is answered 250 / 5xx / the control connection drops instead
    rst+ / rst- / rst!   the same for the held RESETCONF __OwningControllerProcess
    stl+ / stl-   (cases with "stall": k) the k-th command of the dialogue that follows the first SETEVENTS
                  acknowledgement - TAKEOWNERSHIP, RESETCONF, the TorConfig bootstrap's SETEVENTS / GETINFO
                  config/names / config/defaults / GETCONF ... / GETINFO onions/current - is held back until
                  answered normally / rejected with 552, so that events can arrive at every position of it
    (plo is, per case, a BOOTSTRAP event below 100 % - also PROGRESS=10, the WARN form with WARNING/REASON/
    COUNT/RECOMMENDATION/HOSTID/HOSTADDR fields - or one of Tor's other STATUS_CLIENT events: CIRCUIT_ESTABLISHED,
    CIRCUIT_NOT_ESTABLISHED, ENOUGH_DIR_INFO, NOT_ENOUGH_DIR_INFO, DANGEROUS_SOCKS, CONSENSUS_ARRIVED)
    plo / p100    650 STATUS_CLIENT NOTICE BOOTSTRAP PROGRESS=<n> / =100 from FakeTor (on every live,
                  subscribed control connection - each connection is its own FakeTor instance)
    tmo   the virtual clock reaches launch time + timeout exactly (every other stimulus happens "pace"
          seconds after the previous one - 0, 1, 2 or 3 s per case - always before that deadline)
    exit0 / exit1 / sig   the process ends (code 0 / code 1 / signal), control link drops; the killing signal is, per
                  case ("signo"), TERM or any other number the OS can report in a wait status: the classic 1..31
                  and the real-time range 32..64 (integers, as Twisted's ProcessTerminated.signal carries them)
    quit  ("direct" cases only - there the caller holds the TorProcessProtocol while the launch is pending)
          the caller calls TorProcessProtocol.quit(): TERM goes to the process, which ends later (or not) like in
          any other schedule; the pending result must still fail once the process has ended before 100 %
    xit / end     the process exits (processExited) while something still holds its stdio pipes / the pipes
                  close at last (processEnded); like in Twisted, loseConnection() on the exited process
                  also brings processEnded in the next reactor turn

The fake Tor has a bootstrap phase of its own (case "warm": 0, 50 or 100 % when the controller connects;
advanced by plo / p100) and reports it to GETINFO status/bootstrap-phase; such a reply with PROGRESS=100 counts
as Tor's 100 % report like the event does.  "reject" cases call launch() with arguments it refuses before
spawning (only the directory clauses are judged there).
A case also says how the code is entered ("mode"): launch() (default; the caller's directory given by the
data_directory= keyword, or only through TorConfig.DataDirectory of a passed-in config - launch(_tor_config=cfg)
or the legacy launch_tor(cfg, reactor, ...)), "direct" (TorProcessProtocol constructed and spawned by the
harness, nobody holding a when_connected() Deferred) or "noctl" (launch(control_port=0)); and from which
position on when_connected() is requested ("wc_from": late observers only),
plus a configuration variant (caller / temporary data directory, control-port form, default
or custom connection creator, ...).  ``TorProcessProtocol.when_connected()`` is requested at
every position of the schedule (and re-entrantly from the progress callback).  The oracle is
evaluated at the quiescent point after every stimulus, after firing the reactor's "shutdown"
triggers and after a final forced process end.  See DESIGN.md section 2 / C19.
"""
import os
import random
import re
import shutil
import stat
import tempfile

from twisted.internet import defer, error
from twisted.python import failure

from .. import audit, gen
from ..fakereactor import FakeReactor
from ..faketor.core import ConfigStore, FakeTor, Link
from ..refs import reply as R

PROPERTY = "C19"
READY = True
LEVEL = "fault_enumeration"
TECHNIQUE = ("runtime monitoring: complete enumeration of causal stimulus permutations driving the real launch() on a "
             "fake reactor/process/clock + gated reference Tor; Deferred, signal and filesystem monitors judged by an "
             "independent event-order oracle after every stimulus")
LEVEL_TEXT = ("Held on the executions observed: every causally possible order of up to 6 (quick) / 7 (thorough) coarse "
              "stimuli, each with a temporary and with a caller-supplied data directory; the listener output split at 7 "
              "offsets in and around the phrase (quick) / at every byte offset (thorough) for every order of up to 4 "
              "stimuli; every order of up to 2 (quick) / 3 (thorough) further stimuli after a retried control connection "
              "(first attempt refused, or rejected / dropped at TAKEOWNERSHIP or RESETCONF); ownership is judged per "
              "connection (TAKEOWNERSHIP on the connection that reported 100%, by event or by GETINFO status/bootstrap-phase "
              "reply, at the instant of the notification); TorProcessProtocol driven without launch() and "
              "launch(control_port=0) with late observers only; process exit with the stdio pipes still open in every "
              "order with deadline and pipe closure; launch() calls refused before spawning;"
              "the killing signal of a 'sig' stimulus drawn per case from classic (1..31) and real-time (32..64) signal "
              "numbers; quit() called by the holder of a directly driven TorProcessProtocol at every position of every "
              "order of up to 4 (quick) / 5 (thorough) stimuli; stdout/stderr with 10 kinds "
              "of byte content; virtual time advancing between stimuli; when_connected() requested at every position; oracle evaluated after every stimulus, after the "
              "reactor's shutdown triggers and after a final forced process end. Enumeration is complete for the stated "
              "alphabet and bound only; configuration variants other than the data directory are rotated by the seed, "
              "not multiplied. Not a proof.")
LEVEL_NOTE = ("Trusted: vf.fakereactor (process/clock/connection doubles), vf.faketor FakeTor + gating subclass, Link "
              "(no re-entrant delivery), the real filesystem under a per-shard scratch TMPDIR. Interpretation: a timeout "
              "elapsing after 100% is not a launch timeout, so TERM sent then is judged (clause "
              "term-signalled-after-bootstrap-complete); after a timeout-first the launch may fail as late as process "
              "end. For ControlPort=0 (no control connection by design) only the process protocol's when_connected() is judged.")
RULE = ("a case = (schedule, data-directory kind, configuration variant). Schedules are ALL sequences of length 1..N "
        "(N=6 quick, 7 thorough) over the stimulus alphabet (one atom per group: lst, lst2, out, err, cok|cfail, "
        "cok2|cfail2, own+|own-|own!, rst+|rst-|rst!, plo, p100, tmo, exit0|exit1|sig) that respect causality (connect outcome "
        "only after the listener line, replies/events only after a successful connect, RESETCONF only after an accepted "
        "TAKEOWNERSHIP, a retry only after a refused connect or a first connection that failed at the ownership commands "
        "(5xx, or dropped: own!/rst!) + second listener line, nothing from a dead process). Distinct = "
        "hash of the whole case. Non-trivial = launch() spawned the fake process and at least one stimulus was applied "
        "and judged.")
ASSUMPTIONS = [
    "stimuli are delivered one at a time, each followed by quiescence (Link pumped, zero-delay calls run); "
    "consecutive stimuli are 0-3 virtual seconds apart and all precede launch time + timeout except tmo, which lands "
    "exactly on it",
    "process end implies loss of the control connection (before or after processEnded, both orders explored)",
    "FakeTor emits STATUS_CLIENT events only after an authenticated SETEVENTS subscribed them; commands are answered "
    "at once unless the schedule holds TAKEOWNERSHIP / RESETCONF",
    "a launch that never completes (listener phrase split across stdout chunks, no stimulus) is counted, not judged",
    "exceptions documented or logged by design (stderr RuntimeError, log.err of the exit reason) and "
    "UnicodeDecodeError escaping outReceived/errReceived on undecodable process output are counted, not judged",
    "launch(control_port=0) returns at once by design: its launch Deferred is counted, not judged; its process "
    "protocol's when_connected() Deferreds are judged like any other",
    "a when_connected() Deferred that stays pending is judged only once the launch has failed and the process has ended",
]
TRUSTED_BASE = ["vf.fakereactor.FakeReactor/FakeProcess/ConnAttempt", "vf.faketor.core.FakeTor + Link",
                "Twisted Deferred/inlineCallbacks/endpoints wrapping factory", "os/tempfile on the scratch TMPDIR"]
ANCHORS = [
    "txtorcon.controller:launch",
    "txtorcon.controller:TorProcessProtocol.outReceived",
    "txtorcon.controller:TorProcessProtocol.errReceived",
    "txtorcon.controller:TorProcessProtocol._tor_connected",
    "txtorcon.controller:TorProcessProtocol._tor_connection_failed",
    "txtorcon.controller:TorProcessProtocol._status_client",
    "txtorcon.controller:TorProcessProtocol.when_connected",
    "txtorcon.controller:TorProcessProtocol._maybe_notify_connected",
    "txtorcon.controller:TorProcessProtocol._timeout_expired",
    "txtorcon.controller:TorProcessProtocol.processEnded",
    "txtorcon.controller:TorProcessProtocol.cleanup",
]
FLOORS = {
    "quick": {"evaluations": 3500, "steps_judged": 30000, "launch_outcomes_judged": 3500,
              "when_connected_outcomes_judged": 25000, "launch_success_judged": 500,
              "temp_dir_checks_after_exit": 2500, "caller_dir_checks": 15000,
              "timeouts_before_bootstrap_judged": 1500, "shutdown_firings": 3500, "split_listener_cases": 400,
              "control_connections_retried": 80, "control_connections_dropped_mid_ownership": 600,
              "dialogue_commands_stalled": 30, "late_observers_compared_with_first_outcome": 10000,
              "timeouts_judged_after_failed_attempts_at_later_instants": 300,
              "other_status_client_events": 2000, "rejected_launches_judged": 20, "process_exits_with_pipes_still_open": 100,
              "deadline_passed_after_exit_with_pipes_open": 100,
              "stderr_stimuli_undecodable": 1500, "stderr_stimuli_decodable": 1000,
              "caller_dir_supplied_via_torconfig": 400, "process_protocols_driven_directly": 120,
              "launch_without_control_port": 30, "observers_checked_for_pending_after_failure": 15000,
              "process_kills_by_realtime_signal": 100, "failures_due_after_kill_by_realtime_signal": 100,
              "quit_calls_while_result_pending": 60, "failures_due_after_quit_while_pending": 100,
              "reach:txtorcon.controller:TorProcessProtocol._maybe_notify_connected": 6000,
              "reach:txtorcon.controller:TorProcessProtocol.when_connected": 25000,
              "reach:txtorcon.controller:TorProcessProtocol.processEnded": 3500,
              "reach:txtorcon.controller:TorProcessProtocol.cleanup": 3500,
              "reach:txtorcon.controller:TorProcessProtocol._timeout_expired": 1500,
              "reach:txtorcon.controller:TorProcessProtocol._status_client": 1500,
              "reach:txtorcon.controller:TorProcessProtocol._tor_connected": 2500},
    "thorough": {"evaluations": 25000, "steps_judged": 200000, "launch_outcomes_judged": 25000,
                 "when_connected_outcomes_judged": 150000, "launch_success_judged": 4000,
                 "temp_dir_checks_after_exit": 20000, "caller_dir_checks": 100000,
                 "timeouts_before_bootstrap_judged": 10000, "shutdown_firings": 25000,
                 "split_listener_cases": 10000, "control_connections_retried": 800,
                 "timeouts_judged_after_failed_attempts_at_later_instants": 2000,
                 "caller_dir_supplied_via_torconfig": 3000, "process_protocols_driven_directly": 1500,
                 "launch_without_control_port": 200,
                 "process_kills_by_realtime_signal": 500, "failures_due_after_kill_by_realtime_signal": 500,
                 "quit_calls_while_result_pending": 300, "failures_due_after_quit_while_pending": 500,
                 "reach:txtorcon.controller:TorProcessProtocol._maybe_notify_connected": 40000,
                 "reach:txtorcon.controller:TorProcessProtocol.processEnded": 25000,
                 "reach:txtorcon.controller:TorProcessProtocol._timeout_expired": 10000,
                 "reach:txtorcon.controller:TorProcessProtocol._tor_connected": 15000},
}

TIMEOUT = 30
STAMP = b"Oct 03 12:00:00.000 [notice] "
PHRASE = b"Opening Control listener"
TCP_CONTROL_PORT = 9151


def listener_text(where):
    w = where.encode("ascii")
    return (STAMP + PHRASE + b" on " + w + b"\n" +
            STAMP + b"Opened Control listener connection (ready) on " + w + b"\n")


TCP_LISTENER_LEN = len(listener_text("127.0.0.1:%d" % TCP_CONTROL_PORT))
# split offsets around the phrase "Opening Control listener" (bytes 29..53 of the chunk), start, middle, end
BOUNDARY_OFFSETS = [1, len(STAMP) - 1, len(STAMP), len(STAMP) + 1, len(STAMP) + 12, len(STAMP) + len(PHRASE) - 1,
                    len(STAMP) + len(PHRASE), len(STAMP) + len(PHRASE) + 1, 60, TCP_LISTENER_LEN // 2,
                    TCP_LISTENER_LEN - 1]
# quick tier: first byte, phrase intact (cut right before / right after it), phrase broken (3 places), last byte
QUICK_OFFSETS = [1, len(STAMP), len(STAMP) + 1, len(STAMP) + 12, len(STAMP) + len(PHRASE) - 1,
                 len(STAMP) + len(PHRASE), TCP_LISTENER_LEN - 1]

# ---------------------------------------------------------------------------
# schedule enumeration (pure; the causal model of what can follow what)

GROUPS = [
    ("lst", ["lst"]), ("out", ["out"]), ("err", ["err"]),
    ("c1", ["cok", "cfail"]), ("own", ["own+", "own-", "own!"]), ("rst", ["rst+", "rst-", "rst!"]),
    ("plo", ["plo"]), ("p100", ["p100"]), ("tmo", ["tmo"]),
    ("exit", ["exit0", "exit1", "sig", "xit"]), ("end", ["end"]),
    ("lst2", ["lst2"]), ("c2", ["cok2", "cfail2"]),
    ("stl", ["stl+", "stl-"]),
    ("quit", ["quit"]),
]
GROUP_OF = {a: g for g, al in GROUPS for a in al}
# general alphabet (stl only in stall cases, xit / end only in the open-pipes family)
ATOMS = [a for g, al in GROUPS for a in al if g not in ("stl", "end", "quit") and a != "xit"]
PIPE_ATOMS = ["lst", "out", "err", "cok", "cfail", "p100", "plo", "tmo", "xit", "end"]
STALL_ATOMS = ["p100", "plo", "stl+", "stl-", "tmo", "exit1", "out", "err", "sig"]
REJECT_KINDS = ["nonanon+socks", "unix-dir-missing", "unix-dir-0755", "unknown-user", "stdout-not-filelike"]
# the caller holds the process protocol (direct mode) and calls quit() at any position
QUIT_ATOMS = ["lst", "out", "err", "cok", "cfail", "p100", "plo", "tmo", "exit0", "exit1", "sig", "xit", "end", "quit"]
# signal numbers a wait status can carry on Linux: classic ones and the real-time range (32, 33 are the
# threading library's, 34 = SIGRTMIN ... 64 = SIGRTMAX); TERM stays the most frequent
SIGNOS = [15, 15, 15, 15, 9, 11, 6, 1, 2, 13, 24, 31, 32, 33, 34, 35, 36, 41, 50, 57, 63, 64]
REALTIME_FROM = 32
NOCTL_ATOMS = ["out", "err", "tmo", "exit0", "exit1", "sig", "lst"]     # ControlPort=0: nothing to connect to
STALL_POSITIONS = 11        # commands txtorcon sends after the first SETEVENTS acknowledgement (0..10)
EXITS = ("exit0", "exit1", "sig")
GONE = EXITS + ("xit",)          # the process is gone (reaped); with xit its end is not reported yet
# the first control connection got past authentication and then failed while asking for ownership:
# txtorcon may retry when the listener line shows up again
POST_AUTH_FAILURES = ("own-", "own!", "rst-", "rst!")
DROPS = ("own!", "rst!")
# stimuli after which txtorcon gives up on a control connection attempt (it may try again)
FAILED_ATTEMPT_ATOMS = ("cfail", "cfail2", "own-", "own!", "rst-", "rst!", "stl-")


def connections_alive(prefix):
    """(first, second) control connection up?  A drop (own! / rst!) hits the connection on which the
    command is outstanding: TAKEOWNERSHIP on the first connection that got through, RESETCONF on the
    retried one once there is one (the first never got that far, or the rst atom would be used up)."""
    seen1 = seen2 = live1 = live2 = False
    for a in prefix:
        if a == "cok":
            seen1 = live1 = True
        elif a == "cok2":
            seen2 = live2 = True
        elif a == "own!":
            if seen1:
                live1 = False
            else:
                live2 = False
        elif a == "rst!":
            if seen2:
                live2 = False
            else:
                live1 = False
    return live1, live2


def allowed(prefix, atom):
    """may `atom` follow `prefix` in the model of a launched Tor?"""
    g = GROUP_OF[atom]
    if any(GROUP_OF[a] == g for a in prefix):
        return False
    s = set(prefix)
    exited = any(a in s for a in GONE)
    if g == "end":
        return "xit" in s
    if g == "quit":
        return True                   # a caller action: possible whenever the caller holds the protocol
    live1, live2 = connections_alive(prefix)
    connected = live1 or live2
    retry_open = "lst2" in s and any(a in s and prefix.index(a) < prefix.index("lst2")
                                     for a in ("cfail",) + POST_AUTH_FAILURES)
    if exited:
        # a dead process writes nothing and answers nothing; a pending connect can still be refused
        if atom == "tmo":
            return True
        if atom == "cfail":
            return "lst" in s
        if atom == "cfail2":
            return retry_open
        return False
    if g in ("lst", "out", "err", "tmo", "exit"):
        return True
    if g in ("lst2", "c1"):
        return "lst" in s
    if g == "c2":
        return retry_open
    if g in ("plo", "p100", "stl"):
        return connected
    # the ownership commands are held on the first connection that gets as far as sending them
    on_conn = live1 if "cok" in s else live2
    if g == "own":
        # TAKEOWNERSHIP precedes RESETCONF: once RESETCONF was answered, TAKEOWNERSHIP is not held any more
        return on_conn and not any(GROUP_OF[a] == "rst" for a in prefix)
    if g == "rst":
        if "cok" in s and "cok2" in s:
            return live2              # a retried connection sends both commands (again)
        if "cok2" in s:               # the retry is the only connection that got through
            return live2 and "own-" not in s
        return live1 and "own-" not in s
    return False


def enumerate_schedules(maxlen, atoms=None):
    atoms = atoms or ATOMS
    out = []

    def rec(prefix):
        if prefix:
            out.append(tuple(prefix))
        if len(prefix) == maxlen:
            return
        for a in atoms:
            if allowed(prefix, a):
                prefix.append(a)
                rec(prefix)
                prefix.pop()
    rec([])
    return out


def enumerate_retry_schedules(extra):
    """schedules that go through a RETRIED control connection: the first attempt is refused, or
    gets past authentication and fails at the ownership commands (5xx / dropped); the listener
    line shows up again; the second attempt succeeds; then every causal continuation of up to
    `extra` further stimuli"""
    out = []

    def rec(prefix, left):
        out.append(tuple(prefix))
        if not left:
            return
        for a in ATOMS:
            if allowed(prefix, a):
                prefix.append(a)
                rec(prefix, left - 1)
                prefix.pop()
    for first in (["cfail"],) + tuple(["cok", f] for f in POST_AUTH_FAILURES):
        rec(["lst"] + first + ["lst2", "cok2"], extra)
    return out


def enumerate_stall_schedules(extra, atoms=None):
    """lst, cok, then every causal order of up to `extra` stimuli among p100/plo, the release (stl+) or
    rejection (stl-) of the held dialogue command, timeout, exit, stdout/stderr"""
    atoms = atoms or STALL_ATOMS
    out = []

    def rec(prefix, left):
        if len(prefix) > 2:
            out.append(tuple(prefix))
        if not left:
            return
        for a in atoms:
            if allowed(prefix, a):
                prefix.append(a)
                rec(prefix, left - 1)
                prefix.pop()
    rec(["lst", "cok"], extra)
    return out


# ---------------------------------------------------------------------------
# byte content of the stdout / stderr stimuli (pure)

# kinds whose bytes (or whose last 2^n bytes, or whose single writes) are not valid UTF-8
UNDECODABLE_KINDS = ("latin1", "binary", "long-utf8", "huge-utf8", "split-mid-char")
BYTE_KINDS = ["ascii", "latin1", "binary", "nul", "utf8", "long-utf8", "huge-utf8", "partial-line",
              "split-writes", "split-mid-char"]


def payload(kind, pad=0, tail=b""):
    """the writes (list of byte strings) one out / err stimulus consists of; `tail` is appended as the
    last line (stdout: the Bootstrapped-100% line)"""
    pad_b = b"a" * pad
    if kind == "latin1":
        chunks = [b"[warn] R\xe9pertoire de donn\xe9es /tmp/donn\xe9es introuvable\n"]
    elif kind == "binary":
        chunks = [b"[err] " + bytes(range(256)) + b"\xff\xfe\n"]
    elif kind == "nul":
        chunks = [b"[warn] nul\x00inside\x00\n"]
    elif kind == "utf8":
        chunks = ["[warn] données déplacées \u2713 \u20ac \U0001f9c5\n".encode("utf8")]
    elif kind == "long-utf8":
        # > 1 KiB of 3-byte characters; a tail of 2^n bytes starts `pad` bytes off a character boundary
        chunks = [("\u20ac" * 700).encode("utf8") + pad_b + b"\n"]
    elif kind == "huge-utf8":
        chunks = [("[warn] " + "\u20ac\u00e9x" * 3000).encode("utf8") + pad_b + b"\n"]
    elif kind == "partial-line":
        chunks = [b"[warn] no newline at the end of this"]
    elif kind == "split-writes":
        text = b"[warn] one message that arrives in several small writes\n"
        chunks = [text[i:i + 7] for i in range(0, len(text), 7)]
    elif kind == "split-mid-char":
        text = "[warn] coup\u00e9 au milieu d'un caract\u00e8re \u20ac\n".encode("utf8")
        cut = text.index(b"\xc3") + 1
        cut2 = text.index(b"\xe2") + 2
        chunks = [text[:cut], text[cut:cut2], text[cut2:]]
    else:
        chunks = [b"[warn] Something happened\n"]
    if tail:
        if len(chunks) == 1 and chunks[0].endswith(b"\n"):
            chunks = [chunks[0] + tail]
        else:
            chunks = chunks + [(b"" if chunks[-1].endswith(b"\n") else b"\n") + tail]
    return chunks


# what "plo" can be besides BOOTSTRAP PROGRESS=<case plo>: other STATUS_CLIENT events a bootstrapping Tor
# really sends (control-spec 4.1.10) and BOOTSTRAP forms that are not a 100 % report
OTHER_STATUS_CLIENT = [
    "NOTICE CIRCUIT_ESTABLISHED",
    "NOTICE CIRCUIT_NOT_ESTABLISHED REASON=CLOCK_JUMPED",
    "NOTICE ENOUGH_DIR_INFO",
    "NOTICE NOT_ENOUGH_DIR_INFO",
    "WARN DANGEROUS_SOCKS PROTOCOL=SOCKS5 ADDRESS=93.184.216.34:80",
    "NOTICE CONSENSUS_ARRIVED",
    'NOTICE BOOTSTRAP PROGRESS=10 TAG=conn_done SUMMARY="Connected to a relay"',
    'NOTICE BOOTSTRAP PROGRESS=85 TAG=ap_conn_done SUMMARY="Connected to a relay to build circuits"',
    'WARN BOOTSTRAP PROGRESS=80 TAG=conn_or SUMMARY="Connecting to the Tor network" WARNING="Connection refused" '
    'REASON=CONNECTREFUSED COUNT=5 RECOMMENDATION=warn HOSTID="0000000000000000000000000000000000000000" '
    'HOSTADDR="192.0.2.1:9001"',
]


# configuration variants (rotated over the schedules, chosen by the seeded rnd)
CTL = ["default-unix", "tcp", "unix-explicit"]
CREATOR = ["reactor", "custom"]
SOCKS = ["auto", "fixed"]
PLO = [90, 50, 99, 5, 90, 85]
CHUNK = [0, 0, 0, 1, 7]
EXIT_CONN = ["after", "before"]
FAILS = ["refused", "timeout", "nosuch"]


def variant(rnd, dd, **fixed):
    v = {
        "dd": dd,
        "ctl": rnd.choice(CTL),
        "creator": rnd.choice(CREATOR),
        "socks": rnd.choice(SOCKS),
        "kos": rnd.random() < 0.7,
        "io": rnd.random() < 0.5,
        "prog": rnd.random() < 0.7,
        "plo": rnd.choice(PLO),
        "chunk": rnd.choice(CHUNK),
        "exit_conn": rnd.choice(EXIT_CONN),
        "fail_exc": rnd.choice(FAILS),
        "wc": rnd.random() < 0.85,
        "evt_order": rnd.choice(["old-first", "new-first"]),
        "split": None,
        "stall": None,
        "pace": rnd.choice([0, 1, 2, 3, 3]),
        "mode": "launch",
        "wc_from": 0,
        "outb": rnd.choice(BYTE_KINDS[:3] + BYTE_KINDS),
        "errb": rnd.choice(BYTE_KINDS + ["latin1", "long-utf8", "binary"]),
        "pad": rnd.choice([0, 1, 2]),
        "warm": rnd.choice([0, 0, 0, 50, 100]),
        "plo_kind": rnd.choice([None, None, None] + list(range(len(OTHER_STATUS_CLIENT)))),
        "reject": None,
        "via": rnd.choice(["launch", "launch", "launch_tor"]),     # route used when dd == "config"
    }
    side = random.Random()
    side.setstate(rnd.getstate())     # a fork: the draws above (and of later variants) are not shifted
    v["signo"] = side.choice(SIGNOS)
    v.update(fixed)
    return v


# ---------------------------------------------------------------------------
# monitors

TRACED = []
PATHS = re.compile(r"/[^\s'\"]+")


class TracedDeferred(defer.Deferred):
    """stands in for the name ``Deferred`` inside txtorcon.controller: counts how often each
    Deferred made there (when_connected(), quit()) is asked to fire"""

    def __init__(self, *a, **kw):
        defer.Deferred.__init__(self, *a, **kw)
        self.vf_attempts = 0
        TRACED.append(self)

    def callback(self, result):
        self.vf_attempts += 1
        return defer.Deferred.callback(self, result)

    def errback(self, fail=None):
        self.vf_attempts += 1
        return defer.Deferred.errback(self, fail)


_installed = False


def install():
    global _installed
    if _installed:
        return
    _installed = True
    import txtorcon.controller as C
    if getattr(C, "Deferred", None) is defer.Deferred:
        C.Deferred = TracedDeferred
    try:
        from twisted.logger import globalLogBeginner
        globalLogBeginner.beginLoggingTo([lambda ev: None], redirectStandardIO=False, discardBuffer=True)
    except Exception:
        pass


class Sink(object):
    def __init__(self):
        self.data = []

    def write(self, x):
        self.data.append(x)


class GatedTor(FakeTor):
    """FakeTor that holds the reply to chosen commands until the schedule releases it"""

    def __init__(self, hold=(), **kw):
        FakeTor.__init__(self, **kw)
        self.hold = hold if isinstance(hold, set) else set(hold)   # a set object may be shared by connections
        self.held = None
        self.held_is_stall = False
        self.stall = None           # shared {"at": k|None}: hold the k-th command after the first SETEVENTS ack
        self.post_sub = 0
        self._stash = b""

    def receive(self, data):
        if self.held is not None:
            self._stash += data
        else:
            FakeTor.receive(self, data)

    def dispatch(self, line):
        w = line.split(" ", 1)[0].upper()
        if self.authenticated and self.held is None and w in self.hold:
            self.hold.discard(w)
            self.held = line
            self.held_is_stall = False
            self._stash, self.inbox = self.inbox, b""
            return None
        if self.authenticated and self.setevents_log and w != "QUIT":
            idx = self.post_sub
            self.post_sub += 1
            if self.stall is not None and self.stall.get("at") == idx and self.held is None:
                self.stall["at"] = None
                self.stall["line"] = line
                self.held = line
                self.held_is_stall = True
                self._stash, self.inbox = self.inbox, b""
                return None
        return FakeTor.dispatch(self, line)

    def release(self, rep=None):
        line, self.held = self.held, None
        if rep is None:
            rep = FakeTor.dispatch(self, line)
        code, parts = rep
        self.replies.append((line, code, parts))
        self.outbox += R.encode(code, parts)
        self.inbox, self._stash = self._stash + self.inbox, b""


class Tap(object):
    """between Link and the control protocol: notes when a complete PROGRESS=100 event line
    has been handed over (set *before* the completing chunk is delivered)"""
    P100 = re.compile(rb"(?:650 STATUS_CLIENT |250[-+ ]status/bootstrap-phase=)NOTICE BOOTSTRAP PROGRESS=100 [^\r\n]*\r\n")

    def __init__(self, run, proto, link):
        self.run = run
        self.proto = proto
        self.link = link
        self.rx = b""

    def makeConnection(self, transport):
        self.proto.makeConnection(transport)

    def dataReceived(self, data):
        run = self.run
        if run.t100 is None:
            self.rx = (self.rx + data)[-400:]
            if self.P100.search(self.rx):
                run.t100 = run.step_no
                run.t100_link = self.link
                if b"status/bootstrap-phase=" in self.rx:
                    run.rec.count("bootstrap_100_reported_by_getinfo_reply")
                run.timeout_before_100 = run.timeout_elapsed_at is not None
        self.proto.dataReceived(data)

    def connectionLost(self, reason):
        self.proto.connectionLost(reason)


class Obs(object):
    __slots__ = ("label", "kind", "req_step", "req_after_failure", "fired", "ok", "value", "step", "snap", "judged", "d")

    def __init__(self, label, kind, req_step, req_after_failure):
        self.label = label
        self.kind = kind
        self.req_step = req_step
        self.req_after_failure = req_after_failure
        self.fired = 0
        self.ok = None
        self.value = None
        self.step = None
        self.snap = None
        self.judged = False
        self.d = None


CONF_OPTIONS = {"DataDirectory": "Filename", "SocksPort": "LineList", "ControlPort": "LineList",
                "CookieAuthentication": "Boolean", "Log": "LineList", "__OwningControllerProcess": "String"}
CONF_NAMES = ["DataDirectory Filename", "SocksPort LineList", "ControlPort LineList",
              "CookieAuthentication Boolean", "Log LineList"]


class Run(object):
    """one execution of one case"""

    def __init__(self, case, rec):
        self.case = case
        self.rec = rec
        self.sched = list(case["sched"])
        self.step_no = 0            # 0 = before the first stimulus
        self.applied = []           # atoms that were applicable, in order
        self.skipped = []
        self.t100 = None            # step at which a complete PROGRESS=100 event was delivered
        self.timeout_before_100 = False
        self.timeout_elapsed_at = None
        self.exited_at = None       # step at which the end of the process was reported (processEnded)
        self.gone_at = None         # step at which the process exited (processExited)
        self.phase = (case.get("warm", 0), "starting", "Starting")
        self.rejected = False
        self.launch_failed_due = None   # "exit" | "timeout": came before any delivered 100 %
        self.obs = []
        self.L = None
        self.links = []             # one Link (with its own GatedTor) per control connection made, in order
        self.t100_link = None       # the connection over which the first complete PROGRESS=100 arrived
        self.tor_kw = None
        self.stall = {"at": case.get("stall")}
        self.deadline = None
        self.mode = case.get("mode", "launch")
        self.pending_flagged = False
        self.observers_at_failure = None
        self.failed_attempt_times = []     # clock instants at which a control connection attempt failed
        self.proc = None
        self.pp = None
        self.custom_attempts = []   # Deferreds handed out by the custom connection creator
        self.escaped = []           # (atom, exception) escaping a harness call
        self.log = audit.LogCapture()
        self.bad = []
        self.root = None
        self.temp_dir = None
        self.caller_dir = None
        self.data_dir = None
        self.already_called_seen = 0
        self.signals_before = 0
        self.caller_dir_seen = False
        self.link_exc_seen = {}
        self.launch_fired_before_tmo = False
        self.killed_by = None              # signal number of an applied "sig"
        self.quit_while_pending = False    # quit() was called before 100 % / exit / timeout

    # -- plumbing ---------------------------------------------------------------
    def V(self, clause, cls, detail):
        self.bad.append(clause)
        d = {"step": self.step_no, "applied": list(self.applied)}
        d.update(detail)
        self.rec.violation(clause, cls, d, self.case)

    def order_class(self):
        """structural class of the schedule as applied so far: which terminal event came first"""
        first = []
        if self.t100 is not None:
            first.append((self.t100, 0, "bootstrap-first"))
        if self.timeout_elapsed_at is not None:
            first.append((self.timeout_elapsed_at, 1, "timeout-first"))
        if self.gone_at is not None:
            first.append((self.gone_at, 2, "exit-first"))
        return min(first)[2] if first else "no-terminal-event"

    def snapshot(self):
        # ownership must have been requested on the authenticated connection that reported 100 %
        own = False
        conn = None
        if self.t100_link is not None:
            link = self.t100_link
            conn = self.links.index(link)
            own = link.tor.authenticated and b"\r\nTAKEOWNERSHIP\r\n" in link.transport.value()
        return {"t100": self.t100, "t100_connection": conn, "connections": len(self.links),
                "own_written": own, "exited_at": self.exited_at,
                "timeout_elapsed_at": self.timeout_elapsed_at, "timeout_before_100": self.timeout_before_100,
                "failed_due": self.launch_failed_due}

    def watch(self, d, label, kind):
        o = Obs(label, kind, self.step_no, self.launch_failed_due)
        o.d = d
        self.obs.append(o)

        def both(res, o=o):
            o.fired += 1
            o.step = self.step_no
            o.snap = self.snapshot()
            if isinstance(res, failure.Failure):
                o.ok = False
                o.value = res.value
            else:
                o.ok = True
                o.value = res
            return None
        if isinstance(d, defer.Deferred):
            d.addBoth(both)
        else:
            both(d)
        return o

    def guard(self, what, fn, *a, **kw):
        try:
            return fn(*a, **kw)
        except Exception as e:       # what a reactor would log
            self.escaped.append((what, e))
            return None

    # -- set-up -------------------------------------------------------------------
    def start(self):
        import txtorcon
        case = self.case
        TRACED[:] = []
        self.root = tempfile.mkdtemp(prefix="vfc19-")
        self.reactor = r = FakeReactor()
        kw = {"tor_binary": os.path.join(self.root, "no-such-tor"), "timeout": TIMEOUT,
              "kill_on_stderr": case["kos"]}
        self.progress_seen = []
        r.spawn_hook = self.spawned
        if self.mode == "direct":
            return self.start_direct(kw["tor_binary"])
        cfg = None
        if case["dd"] != "temp":
            self.caller_dir = os.path.join(self.root, "data")
            if case["dd"] in ("caller", "config"):
                os.mkdir(self.caller_dir, 0o700)
                with open(os.path.join(self.caller_dir, "keep.me"), "w") as f:
                    f.write("caller state")
            if case["dd"] == "config":
                # the caller's directory is supplied only through the TorConfig handed to launch
                cfg = txtorcon.TorConfig()
                cfg.DataDirectory = self.caller_dir
                self.rec.count("caller_dir_supplied_via_torconfig")
            else:
                kw["data_directory"] = self.caller_dir
        legacy = cfg is not None and case.get("via") == "launch_tor"
        self.where = None
        if self.mode == "noctl":
            kw["control_port"] = 0
            self.where = "nowhere"
        elif case["ctl"] == "tcp":
            kw["control_port"] = TCP_CONTROL_PORT
            self.where = "127.0.0.1:%d" % TCP_CONTROL_PORT
        elif case["ctl"] == "unix-explicit":
            sd = os.path.join(self.root, "sock")
            os.mkdir(sd, 0o700)
            self.where = os.path.join(sd, "ctl.sock")
            kw["control_port"] = "unix:" + self.where
        if case["socks"] == "fixed":
            kw["socks_port"] = 9150
        rj = case.get("reject")
        if rj == "nonanon+socks":
            kw["non_anonymous_mode"] = True
            kw["socks_port"] = 9150
        elif rj == "unix-dir-missing":
            kw["control_port"] = "unix:" + os.path.join(self.root, "no", "such", "dir", "ctl.sock")
        elif rj == "unix-dir-0755":
            sd = os.path.join(self.root, "open-sock")
            os.mkdir(sd, 0o755)
            os.chmod(sd, 0o755)
            kw["control_port"] = "unix:" + os.path.join(sd, "ctl.sock")
        elif rj == "unknown-user":
            kw["user"] = "no-such-user-vf-c19"       # rejected (KeyError from pwd) only when running as root
        elif rj == "stdout-not-filelike":
            kw["stdout"] = object()
        if case["creator"] == "custom":
            kw["connection_creator"] = self.creator
        if case["io"] and rj != "stdout-not-filelike":
            self.out_sink, self.err_sink = Sink(), Sink()
            kw["stdout"], kw["stderr"] = self.out_sink, self.err_sink
        if case["prog"]:
            kw["progress_updates"] = self.on_progress
        self.log.start()
        self.deadline = r.seconds() + TIMEOUT          # launch time + timeout, on the virtual clock
        if rj:
            legacy = False
        if legacy:
            # launch_tor(config, reactor, ...) takes ports from the config
            for k_, name in (("control_port", "ControlPort"), ("socks_port", "SocksPort")):
                if k_ in kw:
                    setattr(cfg, name, kw.pop(k_))
            self.rec.count("launched_via_launch_tor")
            d = self.guard("launch", txtorcon.launch_tor, cfg, r, **kw)
        else:
            if cfg is not None:
                kw["_tor_config"] = cfg
            d = self.guard("launch", txtorcon.launch, r, **kw)
        self.L = self.watch(d, "launch", "launch")
        self.guard("flush", r.flush)
        return self.proc is not None

    def start_direct(self, binary):
        """TorProcessProtocol used without launch(): constructed and spawned by the harness, so nobody
        holds a when_connected() Deferred unless the schedule asks for one"""
        import functools
        import txtorcon
        from twisted.internet.endpoints import TCP4ClientEndpoint
        case, r = self.case, self.reactor
        self.caller_dir = os.path.join(self.root, "data")
        os.mkdir(self.caller_dir, 0o700)
        with open(os.path.join(self.caller_dir, "keep.me"), "w") as f:
            f.write("caller state")
        self.where = "127.0.0.1:%d" % TCP_CONTROL_PORT
        if case["creator"] == "custom":
            creator = self.creator
        else:
            creator = functools.partial(TCP4ClientEndpoint(r, "localhost", TCP_CONTROL_PORT).connect,
                                        txtorcon.TorProtocolFactory())
        out = err = None
        if case["io"]:
            self.out_sink, self.err_sink = out, err = Sink(), Sink()
        self.log.start()
        self.deadline = r.seconds() + TIMEOUT
        cfg = txtorcon.TorConfig()
        pp = self.guard("ctor", txtorcon.TorProcessProtocol, creator,
                        self.on_progress if case["prog"] else None, cfg, r, TIMEOUT, case["kos"], out, err)
        if pp is None:
            return False
        args = [binary, "-f", "/dev/null/non-existant-on-purpose", "--ignore-missing-torrc",
                "DataDirectory", self.caller_dir, "SOCKSPort", "9150", "ControlPort", str(TCP_CONTROL_PORT),
                "CookieAuthentication", "1", "__OwningControllerProcess", str(os.getpid())]
        self.guard("spawn", r.spawnProcess, pp, binary, args=args, env={"HOME": self.caller_dir},
                   path=self.caller_dir)
        self.rec.count("process_protocols_driven_directly")
        return self.proc is not None

    def spawned(self, proc):
        """the fake Tor 'starts': learn the data directory from its command line, write the cookie"""
        self.proc = proc
        self.pp = proc.proto
        args = proc.args
        conf = ConfigStore(options=CONF_OPTIONS)
        pairs = []
        i = 1
        while i < len(args):
            a = args[i]
            if a == "-f":
                i += 2
                continue
            if a.startswith("--") and a[2:] not in CONF_OPTIONS and conf.canon(a[2:]) is None:
                i += 1
                continue
            if i + 1 < len(args):
                pairs.append((a.lstrip("-"), args[i + 1]))
            i += 2
        self.torrc = pairs
        known = [(k, v) for (k, v) in pairs if conf.canon(k) is not None]
        conf.apply(known)
        dd = [v for (k, v) in pairs if k.lower() == "datadirectory"]
        self.data_dir = dd[-1] if dd else None
        if self.data_dir and (self.caller_dir is None or
                              os.path.realpath(self.data_dir) != os.path.realpath(self.caller_dir)):
            self.temp_dir = self.data_dir      # a directory launch() made up itself
        if self.where is None:
            cp = [v for (k, v) in pairs if k.lower() == "controlport"]
            self.where = cp[-1][5:] if cp and cp[-1].startswith("unix:") else "127.0.0.1:%s" % (cp[-1] if cp else "?")
        cookie = os.urandom(32)
        cookiefile = None
        if self.data_dir and os.path.isdir(self.data_dir):
            cookiefile = os.path.join(self.data_dir, "control_auth_cookie")
            with open(cookiefile, "wb") as f:
                f.write(cookie)
            with open(os.path.join(self.data_dir, "state"), "w") as f:
                f.write("# Tor state file\n")
        hold = set()
        if any(GROUP_OF.get(a) == "own" for a in self.sched):
            hold.add("TAKEOWNERSHIP")
        if any(GROUP_OF.get(a) == "rst" for a in self.sched):
            hold.add("RESETCONF")
        # every control connection gets its own FakeTor (authentication, subscriptions and the command
        # log are per connection); configuration, cookie and the set of commands to hold are the process's
        self.tor_kw = dict(hold=hold, auth_methods=("COOKIE", "SAFECOOKIE"), cookie=cookie,
                           cookiefile=cookiefile or "/nonexistent/control_auth_cookie", conf=conf)

    def phase_text(self, key=None):
        n, tag, summ = self.phase
        return 'NOTICE BOOTSTRAP PROGRESS=%d TAG=%s SUMMARY="%s"' % (n, tag, summ)

    def new_tor(self):
        tor = GatedTor(**self.tor_kw)
        # queries txtorcon does not make today are answered from the state the process really has
        tor.info["status/bootstrap-phase"] = self.phase_text
        tor.info["status/circuit-established"] = lambda k: "1" if self.phase[0] == 100 else "0"
        tor.info["status/enough-dir-info"] = lambda k: "1" if self.phase[0] >= 80 else "0"
        tor.info["net/listeners/control"] = lambda k: '"%s"' % self.where
        tor.stall = self.stall
        tor.info["config/names"] = list(CONF_NAMES)
        return tor

    def live_links(self):
        return [l for l in self.links if not l.lost]

    def held_link(self, word):
        for l in self.live_links():
            if l.tor.held is not None and l.tor.held.upper().startswith(word):
                return l
        return None

    def creator(self):
        d = defer.Deferred()
        self.custom_attempts.append(d)
        return d

    def on_progress(self, percent, tag, summary):
        self.progress_seen.append(percent)
        if self.case["wc"] and self.pp is not None and self.step_no >= self.case.get("wc_from", 0):
            self.watch(self.pp.when_connected(), "wc-in-progress-callback@%d" % self.step_no, "wc")
            self.rec.count("when_connected_requests_reentrant")

    # -- stimuli ----------------------------------------------------------------------
    def pending_attempt(self):
        if self.case["creator"] == "custom":
            for d in self.custom_attempts:
                if not d.called:
                    return d
            return None
        p = self.reactor.pending_connections()
        return p[0] if p else None

    def connect_ok(self, att):
        import txtorcon
        chunk = self.case["chunk"]
        link = Link(None, self.new_tor(), chunking=(chunk,) if chunk else (1 << 30,))
        self.links.append(link)
        self.rec.count("control_connections_made")
        if len(self.links) > 1:
            self.rec.count("control_connections_retried")
        if self.case["creator"] == "custom":
            proto = txtorcon.TorProtocolFactory().buildProtocol(None)
            link.proto = Tap(self, proto, link)
            link.connect()
            att.callback(proto)
        else:
            proto = att.succeed(link.transport)
            link.proto = Tap(self, proto, link)
            # makeConnection already happened inside succeed(); Tap only forwards from now on

    def connect_fail(self, att):
        kind = self.case["fail_exc"]
        if kind == "timeout":
            exc = error.TimeoutError()
        elif kind == "nosuch":
            exc = error.ConnectError("No such file or directory")
        else:
            exc = error.ConnectionRefusedError()
        if self.case["creator"] == "custom":
            att.errback(failure.Failure(exc))
        else:
            att.fail(exc)

    def emit_out(self, data, split=None):
        chunks = [data]
        if split is not None and 0 < split < len(data):
            chunks = [data[:split], data[split:]]
            self.rec.count("listener_line_split_deliveries")
        for c in chunks:
            e = self.proc.emit_out(c)
            if e is not None:
                self.escaped.append(("stdout", e))

    def apply(self, atom):
        """deliver one stimulus; False if it is not applicable in the current state"""
        proc = self.proc
        live = proc is not None and proc.alive
        pace = self.case.get("pace", 0)
        if pace and atom != "tmo":
            # time passes between stimuli; before the deadline only "tmo" crosses it
            now = self.reactor.seconds()
            if self.timeout_elapsed_at is not None or now + pace < self.deadline:
                self.guard("pace", self.reactor.advance, pace)
        if atom in ("lst", "lst2"):
            if not live:
                return False
            self.emit_out(listener_text(self.where), self.case.get("split") if atom == "lst" else None)
        elif atom == "out":
            if not live:
                return False
            kind = self.case.get("outb", "ascii")
            self.rec.seen("stdout_byte_kinds", kind)
            for chunk in payload(kind, self.case.get("pad", 0), STAMP + b"Bootstrapped 100% (done): Done\n"):
                e = proc.emit_out(chunk)
                if e is not None:
                    if isinstance(e, UnicodeDecodeError):
                        self.rec.count("stdout_undecodable_exceptions")     # counted, not judged
                    else:
                        self.escaped.append(("stdout", e))
        elif atom == "err":
            if not live:
                return False
            kind = self.case.get("errb", "ascii")
            self.rec.seen("stderr_byte_kinds", kind)
            self.rec.count("stderr_stimuli_%s" % ("undecodable" if kind in UNDECODABLE_KINDS else "decodable"))
            for chunk in payload(kind, self.case.get("pad", 0)):
                e = proc.emit_err(chunk)
                if e is None:
                    continue
                if isinstance(e, RuntimeError) and self.case["kos"] and "stderr" in str(e):
                    self.rec.count("documented_stderr_exceptions")
                elif isinstance(e, UnicodeDecodeError):
                    self.rec.count("stderr_undecodable_exceptions")         # counted, not judged
                else:
                    self.escaped.append(("stderr", e))
        elif atom in ("cok", "cok2"):
            att = self.pending_attempt()
            if att is None or not live:
                return False
            self.guard(atom, self.connect_ok, att)
        elif atom in ("cfail", "cfail2"):
            att = self.pending_attempt()
            if att is None:
                return False
            self.guard(atom, self.connect_fail, att)
        elif atom in ("own+", "own-", "own!", "rst+", "rst-", "rst!"):
            word = "TAKEOWNERSHIP" if atom.startswith("own") else "RESETCONF"
            link = self.held_link(word) if live else None
            if link is None:
                return False
            tor = link.tor
            if atom.endswith("+"):
                tor.release()
            elif atom.endswith("!"):
                # the control connection goes away while the command is outstanding; Tor keeps running
                tor.closed = True
                link.lose(failure.Failure(error.ConnectionLost()))
                self.rec.count("control_connections_dropped_mid_ownership")
            elif word == "TAKEOWNERSHIP":
                tor.release((510, [("end", 'Unrecognized command "TAKEOWNERSHIP"')]))
            else:
                tor.release((552, [("end", "Unrecognized option: Unknown option '__OwningControllerProcess'.  Failing.")]))
        elif atom in ("stl+", "stl-"):
            link = None
            for l in self.live_links():
                if l.tor.held is not None and l.tor.held_is_stall:
                    link = l
            if link is None or not live:
                return False
            self.rec.seen("stalled_commands", " ".join(link.tor.held.split(" ")[:2])[:40])
            self.rec.count("dialogue_commands_stalled")
            if atom == "stl+":
                link.tor.release()
            else:
                link.tor.release((552, [("end", "Unrecognized key, option or event (rejected by the schedule)")]))
        elif atom in ("plo", "p100"):
            if not live:
                return False
            n = 100 if atom == "p100" else self.case["plo"]
            tag, summ = ("done", "Done") if n == 100 else ("loading_descriptors", "Loading relay descriptors")
            text = 'NOTICE BOOTSTRAP PROGRESS=%d TAG=%s SUMMARY="%s"' % (n, tag, summ)
            kind = self.case.get("plo_kind")
            if atom == "plo" and kind is not None:
                text = OTHER_STATUS_CLIENT[kind]
                m = re.search(r"BOOTSTRAP PROGRESS=(\d+) TAG=(\S+)", text)
                n = int(m.group(1)) if m else self.phase[0]
                tag = m.group(2) if m else self.phase[1]
                self.rec.count("other_status_client_events")
                self.rec.seen("status_client_event_kinds", " ".join(text.split(" ")[:2]) + (
                    " PROGRESS=%d" % n if m else ""))
            if n >= self.phase[0]:
                self.phase = (n, tag, summ)
            # Tor reports on every control connection that subscribed
            links = self.live_links()
            if self.case.get("evt_order") == "new-first":
                links.reverse()
            sent = 0
            for link in links:
                if link.tor.emit("STATUS_CLIENT", text):
                    sent += 1
                    link.pump()
            if not sent:
                return False
            if sent > 1:
                self.rec.count("events_on_two_connections")
        elif atom == "quit":
            # the caller gives up / shuts down: only whoever constructed the protocol can do that before the
            # result is known
            if self.mode != "direct" or self.pp is None:
                return False
            pending = self.t100 is None and self.launch_failed_due is None
            if pending:
                self.quit_while_pending = True
            self.rec.count("quit_calls_while_result_pending" if pending else "quit_calls_after_result_known")
            if not live:
                self.rec.count("quit_calls_on_exited_process")
            d = self.guard("quit", self.pp.quit)
            if isinstance(d, defer.Deferred):
                d.addErrback(lambda f: None)      # the quit() Deferred is not part of the property
        elif atom == "tmo":
            first = self.timeout_elapsed_at is None
            self.signals_before = len(proc.signals) if proc else 0
            self.launch_fired_before_tmo = bool(self.L is not None and self.L.fired and self.mode == "launch")
            if first:
                self.timeout_elapsed_at = self.step_no
                if self.t100 is None and self.launch_failed_due is None:
                    self.launch_failed_due = "timeout"
            # exactly the deadline: launch time + timeout, whatever happened to connection attempts
            self.guard("tmo", self.reactor.advance, max(0, self.deadline - self.reactor.seconds()))
        elif atom in ("end", "final-end"):
            if proc is None or proc.alive:
                return False
            if proc.ended:
                self.rec.count("pipes_closed_after_end_already_reported")   # loseConnection() got there first
            else:
                for e in proc.pipes_closed():
                    self.escaped.append((atom, e))
        elif atom in GONE or atom == "final-exit":
            if not live:
                return False
            self.gone_at = self.step_no
            if atom != "xit":
                self.exited_at = self.step_no
            if self.t100 is None and self.launch_failed_due is None:
                self.launch_failed_due = "exit"
            order = self.case["exit_conn"]
            if order == "before":
                self.drop_link()
            if atom == "xit":
                errs = proc.exit(code=1, pipes_open=True)
                self.rec.count("process_exits_with_pipes_still_open")
            elif atom == "exit0":
                errs = proc.exit(code=0)
            elif atom == "exit1":
                errs = proc.exit(code=1)
            elif atom == "sig":
                signo = self.case.get("signo", 15)
                self.killed_by = signo
                self.rec.count("process_kills_by_%s_signal" % ("realtime" if signo >= REALTIME_FROM else "classic"))
                self.rec.seen("kill_signals", signo)
                errs = proc.exit(signal=signo)
            else:
                errs = proc.exit(signal=15)
            for e in errs:
                self.escaped.append((atom, e))
            if order != "before":
                self.drop_link()
        else:
            raise ValueError(atom)
        for link in self.live_links():
            link.pump()
        self.guard("flush", self.reactor.flush)
        if atom in FAILED_ATTEMPT_ATOMS and self.timeout_elapsed_at is None:
            self.failed_attempt_times.append(self.reactor.seconds())
        if proc is not None and proc.ended and self.exited_at is None:
            self.exited_at = self.step_no          # the end was reported during this step
        return True

    def drop_link(self):
        for link in self.live_links():
            link.tor.closed = True
            link.lose(failure.Failure(error.ConnectionDone()))

    # -- oracle ---------------------------------------------------------------------------
    def request_wc(self):
        if self.case["wc"] and self.pp is not None and self.step_no >= self.case.get("wc_from", 0):
            d = self.guard("when_connected", self.pp.when_connected)
            if d is not None:
                self.watch(d, "wc@%d" % self.step_no, "wc")
                self.rec.count("when_connected_requests")

    def dir_checks(self, phase):
        rec = self.rec
        if self.caller_dir is not None:
            rec.count("caller_dir_checks")
            if not os.path.isdir(self.caller_dir):
                # a directory that launch() was to create is only demanded once it has been there
                if self.case["dd"] in ("caller", "config") or self.mode == "direct" or self.caller_dir_seen:
                    self.V("caller-dir-removed", "caller-dir%s/%s" % (
                        "-via-torconfig" if self.case["dd"] == "config" else "", phase), {"dir": self.case["dd"]})
            else:
                self.caller_dir_seen = True
                want = ["keep.me"] if self.case["dd"] in ("caller", "config") or self.mode == "direct" else []
                if self.data_dir and os.path.realpath(self.data_dir) == os.path.realpath(self.caller_dir):
                    want += ["control_auth_cookie", "state"]       # what Tor wrote there
                missing = [n for n in want if not os.path.exists(os.path.join(self.caller_dir, n))]
                if missing and self.proc is not None:
                    self.V("caller-dir-contents-removed", "caller-dir/" + phase, {"missing": missing})
        if self.temp_dir is not None:
            exists = os.path.exists(self.temp_dir)
            if self.exited_at is not None:
                rec.count("temp_dir_checks_after_exit")
                if exists:
                    self.V("temp-dir-survives-process-end", "temp-dir/" + phase,
                           {"listing": sorted(os.listdir(self.temp_dir)) if os.path.isdir(self.temp_dir) else None})
            else:
                rec.count("temp_dir_alive_process_%s" % ("present" if exists else "gone"))

    def judge(self, atom, phase="after-stimulus"):
        rec = self.rec
        rec.count("steps_judged")
        ocls = self.order_class()
        # (1) at most once
        for e in self.log.take():
            rec.seen("logged_errors", e[0] + ": " + PATHS.sub("<path>", e[1])[:70])
            if e[0] == "AlreadyCalledError":
                self.already_called_seen += 1
                self.escaped.append(("logged", defer.AlreadyCalledError(e[1])))
        for i, link in enumerate(self.links):
            seen = self.link_exc_seen.get(i, 0)
            for (what, text) in link.exceptions[seen:]:
                # raised out of dataReceived / connectionLost of the control protocol
                e = defer.AlreadyCalledError(text) if "AlreadyCalledError" in text else RuntimeError(text)
                self.escaped.append(("control-" + what, e))
            self.link_exc_seen[i] = len(link.exceptions)
        for (what, e) in self.escaped:
            rec.seen("escaped_exceptions", "%s: %s" % (type(e).__name__, PATHS.sub("<path>", str(e))[:60]))
            rec.count("escaped_exceptions")
            if isinstance(e, defer.AlreadyCalledError):
                refired = [t for t in TRACED if t.vf_attempts > 1]
                self.V("fired-twice", ocls + ("/connected-listener" if refired else "/other-deferred"),
                       {"during": what, "atom": atom, "refired_listeners": len(refired)})
        self.escaped = []
        for t in TRACED:
            if t.vf_attempts > 1 and "fired-twice" not in self.bad:
                self.V("fired-twice", ocls + "/connected-listener", {"atom": atom, "attempts": t.vf_attempts})
        # (2) outcomes
        for o in self.obs:
            if o.judged or not o.fired:
                continue
            o.judged = True
            snap = o.snap
            if o.kind == "launch":
                rec.count("launch_outcomes_judged")
                rec.seen("launch_outcomes", "%s/%s%s" % (ocls, "ok" if o.ok else type(o.value).__name__,
                                                         "/control-port-0" if self.mode == "noctl" else ""))
                if o.ok and self.mode == "noctl":
                    # ControlPort=0: no control connection by design, launch() returns at once (not judged)
                    rec.count("launch_without_control_port")
                elif o.ok:
                    rec.count("launch_success_judged")
                    if snap["t100"] is None:
                        self.V("launch-success-before-bootstrap-100", ocls, {"snapshot": snap, "atom": atom})
                    elif snap["timeout_before_100"]:
                        self.V("launch-success-after-timeout", ocls, {"snapshot": snap, "atom": atom})
                    if snap["t100"] is not None and not snap["own_written"]:
                        # class: which connection reported 100 % without having been asked for ownership
                        cls = ocls + ("/retried-connection" if snap["t100_connection"] else "") + (
                            "/dialogue-command-held" if self.case.get("stall") is not None else "")
                        self.V("launch-success-without-takeownership", cls,
                               {"snapshot": snap,
                                "commands_per_connection": [list(l.tor.lines)[-5:] for l in self.links]})
            else:
                rec.count("when_connected_outcomes_judged")
                if o.ok:
                    rec.count("when_connected_success_judged")
                    if snap["t100"] is not None and not snap["own_written"] and not snap["failed_due"]:
                        # the notification went out on a 100 % report over a connection on which
                        # TAKEOWNERSHIP had not been written at that instant
                        self.V("when-connected-success-without-takeownership",
                               ocls + ("/retried-connection" if snap["t100_connection"] else ""),
                               {"requested_at_step": o.req_step, "fired_at_step": o.step, "snapshot": snap,
                                "commands_per_connection": [list(l.tor.lines)[-5:] for l in self.links]})
                    if snap["t100"] is None:
                        cls = ("requested-after-failed-launch" if o.req_after_failure
                               else "requested-before-any-failure")
                        if o.label.startswith("wc-in-progress") and not o.req_after_failure:
                            cls += "+from-progress-callback"
                        self.V("when-connected-success-before-bootstrap-100", cls,
                               {"requested_at_step": o.req_step, "fired_at_step": o.step,
                                "failed_due": o.req_after_failure, "snapshot": snap})
                    elif snap["failed_due"]:
                        # the launch had failed (exit / timeout came before any 100 %); a 100 % event that
                        # arrived later does not change the one result every observer gets
                        rec.count("late_observers_compared_with_first_outcome")
                        self.V("when-connected-contradicts-launch-result",
                               "launch-failed-by-%s/told-success/%s" % (
                                   snap["failed_due"], "requested-after-late-100" if o.req_step >= snap["t100"]
                                   else "requested-before-late-100"),
                               {"requested_at_step": o.req_step, "fired_at_step": o.step, "snapshot": snap})
                    else:
                        rec.count("late_observers_compared_with_first_outcome")
                elif snap["failed_due"] is None and snap["t100"] is not None:
                    # 100 % came first: the connected-notification is a success, whatever happens to Tor later
                    rec.count("late_observers_compared_with_first_outcome")
                    after = ("exit" if snap["exited_at"] is not None else
                             "timeout" if snap["timeout_elapsed_at"] is not None else "bootstrap")
                    self.V("when-connected-contradicts-launch-result",
                           "bootstrap-completed-first/told-failure/requested-after-%s" % after,
                           {"requested_at_step": o.req_step, "fired_at_step": o.step, "snapshot": snap,
                            "got": "%s: %s" % (type(o.value).__name__, PATHS.sub("<path>", str(o.value))[:80])})
                elif snap["failed_due"]:
                    rec.count("late_observers_compared_with_first_outcome")
        # (3) timeout: TERM while the launch was still under way, none once bootstrap had completed
        if atom == "tmo" and self.proc is not None:
            new = list(self.proc.signals[self.signals_before:])
            if self.timeout_elapsed_at == self.step_no and (self.gone_at is None or self.gone_at == self.step_no):
                rec.count("timeouts_elapsed_judged")
                if self.t100 is None and not self.launch_fired_before_tmo:
                    rec.count("timeouts_before_bootstrap_judged")
                    # the deadline is launch time + timeout whatever became of connection attempts
                    later = [t for t in self.failed_attempt_times if t > self.deadline - TIMEOUT]
                    if self.failed_attempt_times:
                        rec.count("timeouts_judged_after_failed_connection_attempts")
                    if later:
                        rec.count("timeouts_judged_after_failed_attempts_at_later_instants")
                        rec.seen("failed_attempt_instants", ",".join("%g" % t for t in self.failed_attempt_times))
                    if "TERM" not in new:
                        self.V("timeout-without-term-signal",
                               ocls + ("+connection-attempt-failed-after-launch-instant" if later else ""),
                               {"signals_sent_on_timeout": new, "clock": self.reactor.seconds(),
                                "deadline": self.deadline, "failed_attempts_at": list(self.failed_attempt_times),
                                "launch_fired": bool(self.L is not None and self.L.fired)})
                elif self.t100 is not None and new:
                    self.V("term-signalled-after-bootstrap-complete", ocls, {"signals_sent_on_timeout": new})
        # (4) failure is due
        # the process exited before any 100 %: the failure is due once its end has been reported, or - while
        # something still holds its pipes - by the time the launch deadline has passed (bounded progress)
        exit_due = self.launch_failed_due == "exit" and (self.exited_at is not None or
                                                          self.timeout_elapsed_at is not None)
        open_pipes = self.gone_at is not None and "xit" in self.applied and "end" not in self.applied
        if open_pipes and self.launch_failed_due == "exit" and self.timeout_elapsed_at is not None:
            rec.count("deadline_passed_after_exit_with_pipes_open")
        if exit_due and self.L is not None and not self.L.fired:
            self.V("launch-not-failed-after-process-end",
                   ocls + ("+undecodable-stderr-before-exit" if "err" in self.applied
                           and self.case.get("errb") in UNDECODABLE_KINDS else "")
                   + ("+pipes-still-open-at-deadline" if open_pipes else "") + self.end_class(),
                   {"atom": atom, "signo": self.killed_by})
        if self.launch_failed_due == "timeout" and self.exited_at is not None and self.L is not None \
                and not self.L.fired:
            self.V("launch-not-failed-after-timeout", ocls, {"atom": atom})
        # (4b) an observer must learn of the failure: once the process has ended before any 100 % (or the
        # timeout elapsed first and the process has ended since), no when_connected() Deferred may still
        # be pending at quiescence - whether it was requested before or after, with or without company
        due = exit_due or (self.launch_failed_due == "timeout" and self.exited_at is not None)
        if self.launch_failed_due and self.observers_at_failure is None:
            self.observers_at_failure = (1 if self.mode == "launch" else 0) + len(
                [o for o in self.obs if o.kind == "wc" and not o.req_after_failure])
        if due:
            if self.killed_by is not None and self.killed_by >= REALTIME_FROM:
                rec.count("failures_due_after_kill_by_realtime_signal")
            if self.quit_while_pending:
                rec.count("failures_due_after_quit_while_pending")
            pend = [o for o in self.obs if o.kind == "wc" and not o.fired]
            rec.count("observers_checked_for_pending_after_failure",
                      len([o for o in self.obs if o.kind == "wc"]))
            if pend and not self.pending_flagged:
                self.pending_flagged = True
                o = pend[0]
                self.V("when-connected-pending-after-launch-failed",
                       "%s/%s%s" % ("requested-after-failed-launch" if o.req_after_failure else "requested-before-failure",
                                    "no-observer-registered-at-failure" if not self.observers_at_failure
                                    else "observers-registered-at-failure",
                                    ("+pipes-still-open-at-deadline" if open_pipes else "") + self.end_class()),
                       {"failed_due": self.launch_failed_due, "signo": self.killed_by, "pending": [x.label for x in pend][:6],
                        "mode": self.mode, "atom": atom})
        # (5) directories
        self.dir_checks(phase)

    def end_class(self):
        """structural class of how the process came to its end, for the clauses about a due failure"""
        c = ""
        if self.killed_by is not None and self.killed_by >= REALTIME_FROM:
            c += "+killed-by-realtime-signal"
        if self.quit_while_pending:
            c += "+quit-called-while-result-pending"
        return c

    # -- driver ------------------------------------------------------------------------------
    def run(self):
        rec = self.rec
        try:
            spawned = self.start()
            if not spawned:
                rec.count("launch_did_not_spawn")
                self.judge(None, "no-spawn")
                if self.case.get("reject"):
                    # launch() refused its arguments: whatever the outcome, the caller's directory stays
                    self.rejected = True
                    rec.count("rejected_launches_judged")
                    rec.seen("rejected_launch_outcomes", "%s: %s" % (
                        self.case["reject"], "pending" if not (self.L and self.L.fired) else
                        ("ok" if self.L.ok else type(self.L.value).__name__)))
                    self.step_no += 1
                    self.guard("shutdown", self.reactor.fireSystemEvent, "shutdown")
                    self.judge(None, "no-spawn-after-shutdown")
                return False
            self.request_wc()
            self.judge(None, "after-launch-call")
            for atom in self.sched:
                self.step_no += 1
                if self.apply(atom):
                    self.applied.append(atom)
                    rec.count("stimuli_applied")
                else:
                    self.skipped.append(atom)
                    rec.count("stimuli_inapplicable")
                    rec.seen("inapplicable", atom)
                    continue
                self.request_wc()
                self.judge(atom)
            # the reactor shuts down
            self.step_no += 1
            res = self.guard("shutdown", self.reactor.fireSystemEvent, "shutdown") or []
            rec.count("shutdown_firings")
            rec.count("shutdown_triggers_run", len(res))
            for (phase, fn, exc) in res:
                if exc is not None:
                    self.V("shutdown-trigger-raised", "%s-dir" % ("caller" if self.caller_dir else "temp"),
                           {"exc": repr(exc)})
            self.request_wc()
            self.judge(None, "after-shutdown")
            # whatever is left of the process ends
            if self.proc.alive:
                self.step_no += 1
                self.apply("final-exit")
                self.applied.append("final-exit")
                self.request_wc()
                self.judge("final-exit", "after-final-exit")
            elif not self.proc.ended:
                self.step_no += 1
                self.apply("final-end")
                self.applied.append("final-end")
                self.request_wc()
                self.judge("final-end", "after-final-end")
            # counted, not judged
            if self.L is not None and not self.L.fired:
                rec.count("launch_never_completed")
            if "lst" in self.applied and not (self.custom_attempts or self.reactor.connections):
                rec.count("listener_seen_but_no_connect_attempt")
            rec.seen("applied_signature", " ".join(self.applied)[:100])
            return True
        finally:
            self.cleanup()

    def cleanup(self):
        self.log.stop()
        for o in self.obs:
            o.d = None
        base = os.path.realpath(tempfile.gettempdir()) + os.sep
        for p in (self.temp_dir, self.root):
            # only ever remove what lies inside the scratch TMPDIR of this shard
            if p and os.path.exists(p) and os.path.realpath(p).startswith(base) and len(base) > 5:
                try:
                    os.chmod(p, stat.S_IRWXU)
                except OSError:
                    pass
                shutil.rmtree(p, ignore_errors=True)


def run_case(case, rec):
    install()
    run = Run(case, rec)
    ok = run.run()
    rec.case(case, nontrivial=bool((ok and run.applied) or run.rejected))
    if case.get("split") is not None:
        rec.count("split_listener_cases")
    return run


# ---------------------------------------------------------------------------
# shards

def shard_cases(spec):
    mode = spec["mode"]
    k, n = spec["k"], spec["of"]
    if mode == "perm":
        scheds = enumerate_schedules(spec["maxlen"])
        for i, s in enumerate(scheds):
            if i % n != k:
                continue
            rnd = gen.rnd_for(spec["seed"], PROPERTY, "perm", i)
            for dd in ("temp", rnd.choice(["caller", "caller", "caller-new", "config"])):
                yield variant(rnd, dd, sched=list(s))
    elif mode == "late":
        # nobody (direct) / nothing but launch()'s early return (noctl) listens when the decisive event
        # happens; when_connected() is asked for only from position wc_from on
        j = 0
        for i, s in enumerate(enumerate_schedules(spec["maxlen"])):
            ks = range(1, len(s) + 2) if spec.get("all_positions") else (len(s), len(s) + 1)
            for wf in ks:
                j += 1
                if j % n != k:
                    continue
                rnd = gen.rnd_for(spec["seed"], PROPERTY, "late", i, wf)
                yield variant(rnd, "caller", sched=list(s), mode="direct", wc_from=wf, wc=True, ctl="tcp")
        # the process exits while its pipes stay open; the deadline passes / the pipes close in every order
        for i, s in enumerate(x for x in enumerate_schedules(spec.get("pipes_maxlen", 5), PIPE_ATOMS) if "xit" in x):
            j += 1
            if j % n != k:
                continue
            rnd = gen.rnd_for(spec["seed"], PROPERTY, "pipes", i)
            for dd in ("temp", "caller"):
                yield variant(rnd, dd, sched=list(s))
        # the caller (holding the process protocol) calls quit() at every position of a schedule; an
        # observer is there from the start, or asks only at the end
        for i, s in enumerate(x for x in enumerate_schedules(spec.get("quit_maxlen", 4), QUIT_ATOMS) if "quit" in x):
            for wf in (0, len(s) + 1):
                j += 1
                if j % n != k:
                    continue
                rnd = gen.rnd_for(spec["seed"], PROPERTY, "quit", i, wf)
                yield variant(rnd, "caller", sched=list(s), mode="direct", wc_from=wf, wc=True, ctl="tcp")
        # launch() refuses its arguments before spawning anything
        for kind in REJECT_KINDS:
            for dd in ("caller", "caller-new", "config", "temp"):
                for rep_ in range(spec.get("reject_reps", 2)):
                    j += 1
                    if j % n != k:
                        continue
                    rnd = gen.rnd_for(spec["seed"], PROPERTY, "reject", kind, dd, rep_)
                    yield variant(rnd, dd, sched=[], reject=kind, via="launch")
        for i, s in enumerate(enumerate_schedules(spec.get("noctl_maxlen", 3), NOCTL_ATOMS)):
            for wf in range(0, len(s) + 2):
                j += 1
                if j % n != k:
                    continue
                rnd = gen.rnd_for(spec["seed"], PROPERTY, "noctl", i, wf)
                yield variant(rnd, rnd.choice(["temp", "caller", "config"]), sched=list(s), mode="noctl",
                              wc_from=wf, wc=True)
    elif mode == "split":
        scheds = [s for s in enumerate_schedules(spec["maxlen"])
                  if "lst" in s and len(s) >= spec.get("minlen", 1)]
        offsets = spec["offsets"]
        j = 0
        for i, s in enumerate(scheds):
            for off in offsets:
                j += 1
                if j % n != k:
                    continue
                rnd = gen.rnd_for(spec["seed"], PROPERTY, "split", i, off)
                yield variant(rnd, rnd.choice(["temp", "caller"]), sched=list(s), split=off, ctl="tcp")
        # ... and the stalled-dialogue family: every position k of the post-subscription dialogue held
        if "stall_extra" in spec:
            j = 0
            for i, s in enumerate(enumerate_stall_schedules(spec["stall_extra"], spec.get("stall_atoms"))):
                for kpos in range(STALL_POSITIONS):
                    j += 1
                    if j % n != k:
                        continue
                    rnd = gen.rnd_for(spec["seed"], PROPERTY, "stall", i, kpos)
                    yield variant(rnd, rnd.choice(["temp", "caller"]), sched=list(s), stall=kpos)
        # the same shards also carry the schedules through a retried control connection
        for i, s in enumerate(enumerate_retry_schedules(spec.get("retry_extra", 0)) if "retry_extra" in spec else ()):
            if i % n != k:
                continue
            rnd = gen.rnd_for(spec["seed"], PROPERTY, "retry", i)
            for dd in ("temp", "caller"):
                yield variant(rnd, dd, sched=list(s))


def run_shard(spec, rec):
    install()
    scratch = tempfile.mkdtemp(prefix="vfc19-shard-")
    old = tempfile.tempdir
    tempfile.tempdir = scratch
    try:
        n = 0
        for case in shard_cases(spec):
            run = run_case(case, rec)
            n += 1
            if n <= 2 or (run.L is not None and run.L.ok and len(rec.samples) < 4):
                rec.sample({"case": case, "applied": run.applied,
                            "launch": None if run.L is None else ("pending" if not run.L.fired else
                                                                   ("ok" if run.L.ok else repr(run.L.value)))})
        if spec["mode"] == "late":
            rec.enumerated("process exit with stdio pipes still open (xit) x all causal permutations of length <= %d of %s "
                           "containing it" % (spec.get("pipes_maxlen", 5), ",".join(PIPE_ATOMS)))
            rec.enumerated("TorProcessProtocol driven directly, quit() called by its holder x all causal permutations of "
                           "length <= %d of %s containing it x observer from the start / only at the end"
                           % (spec.get("quit_maxlen", 4), ",".join(QUIT_ATOMS)))
            rec.enumerated("launch() with arguments it refuses before spawning (%s) x temp/caller/caller-new/"
                           "TorConfig data directory" % ",".join(REJECT_KINDS))
            rec.enumerated("TorProcessProtocol driven directly x all causal permutations of length <= %d x when_connected() "
                           "requested only from %s on; launch(control_port=0) x permutations <= %d of %s x every first "
                           "request position" % (spec["maxlen"], "every position" if spec.get("all_positions")
                                                  else "the last stimulus / the end phase", spec.get("noctl_maxlen", 3),
                                                  ",".join(NOCTL_ATOMS)))
        elif spec["mode"] == "perm":
            rec.enumerated("all causal stimulus permutations of length <= %d (x temp/caller data directory)"
                           % spec["maxlen"])
        else:
            offs = spec["offsets"]
            rec.enumerated("listener output split at %s x all causal permutations of length %d..%d containing lst" % (
                "every offset 1..%d" % max(offs) if offs == list(range(1, max(offs) + 1))
                else "offsets %s" % ",".join(str(o) for o in offs), spec.get("minlen", 1), spec["maxlen"]))
            if "stall_extra" in spec:
                rec.enumerated("each of the %d commands after the first SETEVENTS acknowledgement held back x all "
                               "causal orders of <= %d stimuli among %s after lst, cok" % (
                                   STALL_POSITIONS, spec["stall_extra"], ",".join(spec.get("stall_atoms") or STALL_ATOMS)))
            if "retry_extra" in spec:
                rec.enumerated("retried control connection (refused / 5xx / dropped at TAKEOWNERSHIP or RESETCONF, then "
                               "lst2 + cok2) followed by all causal continuations of <= %d stimuli" % spec["retry_extra"])
    finally:
        tempfile.tempdir = old
        shutil.rmtree(scratch, ignore_errors=True)


def replay(case, rec):
    install()
    scratch = tempfile.mkdtemp(prefix="vfc19-replay-")
    old = tempfile.tempdir
    tempfile.tempdir = scratch
    try:
        run_case(case, rec)
    finally:
        tempfile.tempdir = old
        shutil.rmtree(scratch, ignore_errors=True)


def plan(tier, seed):
    specs = []
    if tier == "quick":
        for k in range(13):
            specs.append({"mode": "perm", "maxlen": 6, "k": k, "of": 13})
        specs.append({"mode": "late", "maxlen": 4, "pipes_maxlen": 5, "k": 0, "of": 1})
        for k in range(2):
            specs.append({"mode": "split", "maxlen": 4, "offsets": QUICK_OFFSETS, "k": k, "of": 2, "retry_extra": 2,
                          "stall_extra": 2, "stall_atoms": ["p100", "stl+", "stl-", "tmo", "exit1", "plo"]})
    else:
        for k in range(32):
            specs.append({"mode": "perm", "maxlen": 7, "k": k, "of": 32, "timeout_s": 3000})
        for k in range(3):
            specs.append({"mode": "late", "maxlen": 5, "noctl_maxlen": 4, "pipes_maxlen": 6, "reject_reps": 6, "quit_maxlen": 5,
                          "all_positions": True, "k": k, "of": 3, "timeout_s": 3000})
        # every byte offset of the listener output x all permutations <= 4; the offsets around the
        # phrase boundaries also with all permutations <= 5
        for k in range(12):
            specs.append({"mode": "split", "maxlen": 4, "offsets": list(range(1, TCP_LISTENER_LEN)),
                          "k": k, "of": 12, "timeout_s": 3000})
        for k in range(4):
            specs.append({"mode": "split", "maxlen": 5, "minlen": 5, "offsets": BOUNDARY_OFFSETS, "k": k, "of": 4,
                          "retry_extra": 3, "stall_extra": 3, "timeout_s": 3000})
    return specs
