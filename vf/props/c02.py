"""C02 - 650 events reach exactly their listeners, in order, and never touch replies.

Monitor: C01 sessions with 650 events (three wire forms) spliced between replies by the
causal scripted server; listener doubles registered through the real
add_event_listener/remove_event_listener, some of which misbehave DURING delivery (raise,
unsubscribe themselves / another listener, add a listener, submit a command).  A purely
observational wrapper around the protocol's lineReceived (the boundary between Twisted's
framing and txtorcon) tells the harness which stream item each line belongs to, so the
expected listener set is snapshotted exactly when an event completes.
Oracle: reference listener model + C01's reply oracle + SETEVENTS bookkeeping.
"""
from .. import contracts, ctl, gen
from ..refs import reply as R
from . import c01

PROPERTY = "C02"
READY = True
LEVEL = "exploration"
TECHNIQUE = ("runtime monitoring: listener doubles + wire recorder on the real TorControlProtocol, events spliced between "
             "replies by a causal scripted server, in-delivery listener operations; reference listener model, C01 reply "
             "oracle and SETEVENTS bookkeeping as oracles")
LEVEL_TEXT = ("Held on the executions observed: thousands (quick) to hundreds of thousands (thorough) of generated sessions "
              "mixing commands (plain / per-line) with 650 events in single-line, multi-line and data-block form for "
              "subscribed and unsubscribed names (incl. names that are prefixes of each other), 0-4 listeners per name, "
              "listener operations before and during delivery, several segmentations; the listener-call multiset is checked "
              "when each event's last line has been processed, replies by the C01 oracle, SETEVENTS against the model.")
LEVEL_NOTE = ("Trusted: vf.refs.reply encoder, vf.ctl.Session, the lineReceived observation wrapper (does not alter arguments "
              "or results). Tor never interleaves an event inside a reply: events are only placed between replies.")
RULE = ("a case = session (commands + replies) x events (name, form, text, position) x listener population and behaviours "
        "x between-chunk listener operations x segmentation; distinct = hash of all of it; non-trivial = at least one event "
        "completed while at least one listener was registered for some name and the call log was compared")
ASSUMPTIONS = [
    "a listener unsubscribed by ANOTHER listener during a delivery was registered when the event arrived, so it still receives that event (exactly once) and none afterwards",
    "a listener added during the delivery of an event was not registered when that event arrived, so it must not receive it ('and to nobody else'); it must receive later ones",
    "payload = text after the event name, further lines joined by newline; a trailing '\\nOK' on multi-line/data forms and the absence of the separator after a bare event name are tolerated",
    "order among the listeners of one event is not specified; order across events is arrival order",
    "events for names without listeners are sent by the scripted server although Tor would only do so in the unsubscribe window; they are judged only on 'nobody is called, replies unaffected'",
]
TRUSTED_BASE = ["vf.refs.reply", "vf.ctl.Session"]
ANCHORS = ["txtorcon.torcontrolprotocol:TorControlProtocol._handle_notify",
           "txtorcon.torcontrolprotocol:Event.got_update",
           "txtorcon.torcontrolprotocol:Event.listen", "txtorcon.torcontrolprotocol:Event.unlisten",
           "txtorcon.torcontrolprotocol:TorControlProtocol.add_event_listener",
           "txtorcon.torcontrolprotocol:TorControlProtocol.remove_event_listener",
           "txtorcon.torcontrolprotocol:TorControlProtocol._broadcast_response",
           "txtorcon.torcontrolprotocol:TorControlProtocol._start_command"]
FLOORS = {"quick": {"evaluations": 1500, "events_completed": 4000, "listener_calls": 3000,
                    "in_delivery_operations": 300, "setevents_compared": 1500, "listeners_registered_as_bound_methods": 1000, "setevents_refused_by_tor": 100, "equal_but_distinct_listener_pairs": 300, "twice_registered_listener_deliveries_judged": 150,
                    "reach:txtorcon.torcontrolprotocol:Event.got_update": 2000},
          "thorough": {"evaluations": 40000, "events_completed": 100000, "listener_calls": 80000,
                       "in_delivery_operations": 8000}}

NAMES = ["STREAM", "STREAM_BW", "CIRC", "CIRC_MINOR", "CIRC_BW", "NS", "NEWCONSENSUS", "CONF_CHANGED",
         "HS_DESC", "HS_DESC_CONTENT", "ADDRMAP", "BW", "STATUS_CLIENT", "GUARD", "INFO", "NOTICE"]
BEHAVIOURS = ["ok", "ok", "ok", "raise", "unsub-self", "unsub-other", "add", "submit"]


class Listener(object):
    def __init__(self, h, lid, name, behaviour, arg=0):
        self.h = h
        self.lid = lid
        self.name = name
        self.behaviour = behaviour
        self.arg = arg
        self.done = False
        # 'eq': a distinct listener object that compares equal to its twin (dataclass-style callables)
        self.eq_group = name if behaviour == "eq" else None

    def __eq__(self, other):
        if self.eq_group is not None and getattr(other, "eq_group", None) == self.eq_group:
            return True
        return self is other

    def __ne__(self, other):
        return not self.__eq__(other)

    def __hash__(self):
        return hash(self.eq_group) if self.eq_group is not None else id(self)

    def __call__(self, payload):
        return self.h.on_call(self, payload)

    def handle(self, payload):
        """the same listener registered as a bound method (a fresh, equal object on every access)"""
        return self.h.on_call(self, payload)

    def cb(self):
        return self.handle if (self.lid % 3 == 1 and self.eq_group is None) else self

    def __repr__(self):
        return "<L%d %s %s>" % (self.lid, self.name, self.behaviour)


class Harness(ctl.Session):
    def __init__(self, case):
        cmds = [dict(c) for c in case["cmds"]]
        self.case = case
        self.evspecs = case["events"]
        events = []
        for j, e in enumerate(self.evspecs):
            events.append({"after": e["after"],
                           "bytes": R.encode_event(e["name"], e["form"], self.ev_text(j), e.get("more", ()))})
        ctl.Session.__init__(self, cmds, events=events, chunking=case.get("chunking") or (1 << 30,))
        self.refuse_setevents = set(case.get("refuse_setevents") or ())
        self.model = {}                 # name -> [Listener] in registration order
        self.expected_setevents = []
        self.calls = []                 # (lid, event index or None, payload, t)
        self.next_lid = 0
        self.line_no = 0
        self.cur_event = None           # event index being delivered
        self.removed_by_other = set()
        self.added_during = set()
        self.self_unsub = set()
        self.snap = {}                  # event idx -> (list of lids expected, flags)
        self.problems = []              # (clause, icls, detail)
        self.desync = False
        self.in_delivery_ops = 0
        self.held = [r for r in self.commands if tuple(r.spec.get("when", ("start",)))[0] == "listener"]
        for r in self.held:
            self.pending_when.remove(r)
        self.ops = sorted(case.get("ops", []), key=lambda o: o["at"])
        self.listeners = {}
        self.flags_seen = set()
        self.was_dup = set()            # lids registered twice (same callable, same name)
        self.dup_max_calls = {}         # lid -> most calls seen for one event while registered twice
        self.dup_checks = 0

    def ev_text(self, j):
        e = self.evspecs[j]
        t = e.get("text", "")
        if e.get("bare"):
            return ""
        return ("#e%d# " % j) + t if t else "#e%d#" % j

    # ---- listener model ------------------------------------------------------
    def subscribed(self):
        return frozenset(n for n, ls in self.model.items() if ls)

    def add(self, name, behaviour="ok", arg=0):
        l = Listener(self, self.next_lid, name, behaviour, arg)
        self.next_lid += 1
        self.listeners[l.lid] = l
        before = self.subscribed()
        self.model.setdefault(name, []).append(l)
        if self.subscribed() != before:
            self.expected_setevents.append(self.subscribed())
        try:
            d = self.proto.add_event_listener(name, l.cb())
            self.aud.watch(d, "add-listener")
            if l.cb() is not l:
                self.bound_method_listeners = getattr(self, "bound_method_listeners", 0) + 1
        except Exception as e:
            self.exceptions.append(("add_event_listener", self.chunk_no, repr(e)))
        if behaviour == "dup":
            # the very same callable is registered a second time for the name ("may be called
            # multiple times for the same event"): two registrations, removed one at a time
            self.model[name].append(l)
            self.was_dup.add(l.lid)
            try:
                self.aud.watch(self.proto.add_event_listener(name, l.cb()), "add-listener")
            except Exception as e:
                self.exceptions.append(("add_event_listener", self.chunk_no, repr(e)))
        return l

    def remove(self, l):
        if l not in self.model.get(l.name, []):
            return
        before = self.subscribed()
        self.model[l.name].remove(l)
        if self.subscribed() != before:
            self.expected_setevents.append(self.subscribed())
        try:
            d = self.proto.remove_event_listener(l.name, l.cb())
            self.aud.watch(d, "remove-listener")
        except Exception as e:
            self.exceptions.append(("remove_event_listener", self.chunk_no, repr(e)))

    def on_call(self, l, payload):
        j = None
        if payload.startswith("#e"):
            try:
                j = int(payload[2:payload.index("#", 2)])
            except ValueError:
                j = None
        if j is None and self.cur_event is not None and self.evspecs[self.cur_event].get("bare"):
            j = self.cur_event
        self.calls.append((l.lid, j, payload, self.clock.tick()))
        if l.behaviour == "raise":
            raise RuntimeError("listener %d raises" % l.lid)
        if l.done:
            return
        if l.behaviour == "unsub-self":
            l.done = True
            self.in_delivery_ops += 1
            self.self_unsub.add(l.lid)
            self.remove(l)
        elif l.behaviour == "unsub-other":
            others = [o for o in self.model.get(l.name, []) if o is not l and o.eq_group is None]
            if others:
                l.done = True
                self.in_delivery_ops += 1
                o = others[l.arg % len(others)]
                self.removed_by_other.add(o.lid)
                self.remove(o)
        elif l.behaviour == "add":
            l.done = True
            self.in_delivery_ops += 1
            n = self.add(l.name if l.arg % 2 == 0 else NAMES[l.arg % len(NAMES)], "ok")
            self.added_during.add(n.lid)
        elif l.behaviour == "submit":
            if self.held:
                l.done = True
                self.in_delivery_ops += 1
                self.submit(self.held.pop(0), "listener")

    # ---- schedule hooks ------------------------------------------------------
    def submit_due(self):
        ctl.Session.submit_due(self)
        pos = self.delivered - self.post_boot_offset
        while self.ops and self.ops[0]["at"] <= pos:
            op = self.ops.pop(0)
            if op["op"] == "add":
                self.add(op["name"], op.get("behaviour", "ok"), op.get("arg", 0))
            elif op["op"] == "remove-dup":
                for l in [l for ls in self.model.values() for l in ls if l.lid in self.was_dup][:1]:
                    self.remove(l)
            else:
                live = [l for ls in self.model.values() for l in ls if l.eq_group is None]
                if live:
                    self.remove(live[op.get("arg", 0) % len(live)])

    def item_of_line(self, n):
        acc = 0
        for (kind, idx, nl) in self.items:
            if n < acc + nl:
                return kind, idx, n - acc, nl
            acc += nl
        return None

    def install_observer(self):
        orig = self.proto.lineReceived

        def line_received(line):
            n = self.line_no
            self.line_no += 1
            it = None if self.desync else self.item_of_line(n)
            ev = None
            if it is not None and it[0] == "event":
                ev = it[1]
                if it[2] == 0:
                    self.event_begin(ev)
                if it[2] == it[3] - 1:
                    self.event_last_line(ev)
            try:
                return orig(line)
            except Exception:
                self.desync = True
                raise
            finally:
                if ev is not None and it[2] == it[3] - 1 and not self.desync:
                    self.event_done(ev)
        self.proto.lineReceived = line_received

    def event_begin(self, j):
        e = self.evspecs[j]
        flags = set()
        # which command is in flight right now?  = the line whose reply has not been fully processed
        replies_done = 0
        acc = 0
        for (kind, idx, nl) in self.items:
            if acc + nl <= self.line_no - 1 + 0 and kind == "reply":
                replies_done += 1
            acc += nl
        inflight = None
        if replies_done < len(self.server_lines):
            line = self.server_lines[replies_done]
            for r in self.commands:
                c = r.spec["cmd"]
                if (c if isinstance(c, bytes) else c.encode("ascii")) == line:
                    inflight = r
        if inflight is not None:
            flags.add("perline-in-flight" if inflight.spec.get("perline") else "plain-in-flight")
        else:
            flags.add("idle" if replies_done >= len(self.server_lines) else "protocol-command-in-flight")
        self.snap[j] = {"flags": flags}
        self.flags_seen.add("%s/%s" % (e["form"], sorted(flags)[0]))

    def event_last_line(self, j):
        e = self.evspecs[j]
        self.cur_event = j
        self.removed_by_other = set()
        self.added_during = set()
        self.self_unsub = set()
        self.snap.setdefault(j, {"flags": set()})
        self.snap[j]["expected"] = [l.lid for l in self.model.get(e["name"], [])]
        self.snap[j]["calls_before"] = len(self.calls)

    def event_done(self, j):
        e = self.evspecs[j]
        sn = self.snap[j]
        self.cur_event = None
        new_calls = self.calls[sn["calls_before"]:]
        sn["done"] = True
        sn["removed_by_other"] = set(self.removed_by_other)
        sn["added_during"] = set(self.added_during)
        sn["self_unsub"] = set(self.self_unsub)
        sn["calls"] = new_calls
        # classify
        flags = sn["flags"]
        if e["form"] != "single" and "perline-in-flight" in flags:
            icls = "multiline-event-while-perline-command-in-flight"
        elif sn["self_unsub"]:
            icls = "listener-unsubscribes-itself-during-delivery"
        elif sn["removed_by_other"]:
            icls = "listener-unsubscribes-another-during-delivery"
        elif e.get("bare") and e["form"] == "single":
            icls = "single-line-event-without-arguments"
        elif any(self.listeners[l].behaviour == "raise" for l in sn["expected"]):
            icls = "listener-raises"
        elif any(l in self.was_dup for l in sn["expected"]):
            icls = "same-callable-registered-twice"
        else:
            icls = "%s-form" % e["form"]
        sn["icls"] = icls
        accept = R.event_payloads(e["name"], e["form"], self.ev_text(j), e.get("more", ()))
        if self.ev_text(j) == "" and e["form"] != "single":
            accept |= {p[1:] for p in accept if p.startswith("\n")}
        per = {}
        for (lid, jj, payload, t) in new_calls:
            per.setdefault(lid, []).append((jj, payload))
        handled = set()
        for lid in sn["expected"]:
            if lid in handled:
                continue
            handled.add(lid)
            got = per.pop(lid, [])
            k = sn["expected"].count(lid)
            if k > 1:
                # registered k times: whether that means k deliveries or one is not stated; at least
                # one and at most k, each with the exact payload
                self.dup_checks += 1
                self.dup_max_calls[lid] = max(self.dup_max_calls.get(lid, 0), len(got))
                if not 1 <= len(got) <= k:
                    self.problems.append(("listener-missed-event" if not got else "listener-called-twice", icls,
                                          {"event": j, "listener": lid, "calls": len(got), "registrations": k}))
                elif any(g[1] not in accept for g in got):
                    self.problems.append(("payload-mismatch", icls, {"event": j, "got": got[0][1], "want": sorted(accept)[0]}))
                continue
            if lid in self.was_dup:
                self.dup_checks += 1
                if len(got) == 0 and self.dup_max_calls.get(lid, 0) <= 1:
                    # one of two registrations was removed and no event was ever delivered twice:
                    # consistent with registrations being a set - not judged
                    continue
            if lid in sn["removed_by_other"] and len(got) == 0:
                # it WAS registered when the event arrived ("to every listener registered for that
                # event name at that moment"): being unsubscribed by another listener during the
                # same delivery must not make it miss this event
                self.problems.append(("listener-removed-by-another-missed-that-event", icls,
                                      {"event": j, "listener": lid, "listeners_registered": sn["expected"]}))
                continue
            if len(got) != 1:
                self.problems.append(("listener-missed-event" if not got else "listener-called-twice", icls,
                                      {"event": j, "event_spec": e, "listener": lid, "calls": len(got),
                                       "listeners_registered": sn["expected"]}))
                continue
            if got[0][1] not in accept:
                self.problems.append(("payload-mismatch", icls, {"event": j, "got": got[0][1], "want": sorted(accept)[0]}))
        for lid, got in per.items():
            if lid in sn["added_during"]:
                # it was not registered when the event arrived: "and to nobody else"
                self.problems.append(("listener-added-during-delivery-received-that-event", icls,
                                      {"event": j, "listener": lid, "payload": got[0][1]}))
                continue
            self.problems.append(("unregistered-listener-called", icls,
                                  {"event": j, "event_name": e["name"], "listener": lid,
                                   "listener_name": self.listeners[lid].name, "payload": got[0][1]}))


def gen_case(rnd, edge=False):
    cmds = c01.gen_session(rnd, max_cmds=5)
    for c in cmds:
        # the open C01 finding (get_info_incremental drops lines that are 'OK') is C01's business:
        # such replies go through the plain per-line API here
        if c.get("api") == "incremental" and c01.input_class([c]) == "incremental+line-is-OK":
            c.pop("api")
    ncmd = len(cmds)
    # a few commands are submitted from inside listener callbacks
    for k in range(rnd.choice([0, 0, 1, 2])):
        cmds.append({"cmd": "LCMD%d x" % k, "perline": rnd.random() < 0.3, "reply": gen.reply(rnd),
                     "when": ("listener",)})
    dup_name = None
    names = rnd.sample(NAMES, rnd.randint(1, 4))
    if rnd.random() < 0.4:
        names = rnd.choice([["STREAM", "STREAM_BW"], ["CIRC", "CIRC_MINOR", "CIRC_BW"], ["HS_DESC", "HS_DESC_CONTENT"],
                            ["NS", "NEWCONSENSUS", "NOTICE"]])
    initial = []
    for n in names:
        for _ in range(rnd.choice([0, 1, 1, 2, 3, 4])):
            initial.append({"name": n, "behaviour": rnd.choice(BEHAVIOURS), "arg": rnd.randint(0, 7)})
    if rnd.random() < 0.25:
        # two distinct listener objects that compare equal, both registered for one name (never removed)
        n = rnd.choice(names)
        initial += [{"name": n, "behaviour": "eq", "arg": 0}, {"name": n, "behaviour": "eq", "arg": 1}]
        if rnd.random() < 0.5:
            # ... and one callable registered twice for that name (the pair keeps the name subscribed
            # whatever happens to the two registrations)
            initial.append({"name": n, "behaviour": "dup", "arg": 0})
            dup_name = n
    rnd.shuffle(initial)
    events = []
    nev = rnd.choice([1, 2, 3, 4, 6, 8])
    nlines = ncmd + 3
    for _ in range(nev):
        form = rnd.choice(["single", "single", "multi", "data"])
        name = rnd.choice(names) if rnd.random() < 0.8 else rnd.choice(NAMES)
        e = {"name": name, "form": form, "after": rnd.randint(-1, nlines),
             "text": gen.first_text(rnd, maxlen=30)}
        if form != "single":
            e["more"] = [gen.text(rnd, maxlen=20, dots=(form == "data")) if form == "data" else gen.first_text(rnd, maxlen=20)
                         for _ in range(rnd.choice([0, 1, 2, 4]))]
        if edge and rnd.random() < 0.15:
            e["bare"] = True
        events.append(e)
    total = sum(len(R.encode(*c["reply"])) for c in cmds) + 60 * nev
    ops = []
    for _ in range(rnd.choice([0, 0, 1, 2, 3])):
        if rnd.random() < 0.5:
            ops.append({"op": "add", "name": rnd.choice(names), "behaviour": rnd.choice(BEHAVIOURS),
                        "arg": rnd.randint(0, 7), "at": rnd.randint(0, total)})
        else:
            ops.append({"op": "remove", "arg": rnd.randint(0, 7), "at": rnd.randint(0, total)})
    if dup_name is not None:
        for e in events:
            if rnd.random() < 0.5:
                e["name"] = dup_name
        for _ in range(rnd.choice([1, 1, 2, 3])):
            ops.append({"op": "remove-dup", "at": rnd.randint(0, total)})
    refuse = sorted({rnd.randint(1, 6) for _ in range(rnd.choice([1, 1, 2]))}) if rnd.random() < 0.2 else []
    return {"cmds": cmds, "events": events, "initial": initial, "ops": ops, "chunking": gen.chunking(rnd),
            "refuse_setevents": refuse}


def run_case(case, rec):
    for c in case["cmds"]:
        c["when"] = tuple(c["when"])
        c["reply"] = (c["reply"][0], [tuple(p) for p in c["reply"][1]])
    h = Harness(case)
    h.install_observer()
    h.start()
    if h.boot_failed:
        rec.violation("bootstrap-failed", "bootstrap", {"exc": h.exceptions}, case)
        rec.case(case, nontrivial=False)
        return
    for l in case["initial"]:
        h.add(l["name"], l["behaviour"], l.get("arg", 0))
    h.run()
    h.finish()
    # -------- verdicts
    done = [j for j, sn in h.snap.items() if sn.get("done")]
    rec.count("events_completed", len(done))
    rec.count("listener_calls", len(h.calls))
    rec.count("in_delivery_operations", h.in_delivery_ops)
    rec.count("listeners_registered_as_bound_methods", getattr(h, "bound_method_listeners", 0))
    rec.count("setevents_refused_by_tor", getattr(h, "setevents_refused", 0))
    rec.count("twice_registered_listener_deliveries_judged", h.dup_checks)
    rec.count("equal_but_distinct_listener_pairs", sum(1 for l in h.listeners.values() if l.eq_group is not None) // 2)
    for f in h.flags_seen:
        rec.seen("event_form_x_queue_state", f)
    risk = None
    for j in sorted(h.snap):
        sn = h.snap[j]
        if sn.get("icls") == "multiline-event-while-perline-command-in-flight":
            risk = sn["icls"]
    seen = set()
    for (clause, icls, detail) in h.problems:
        if (clause, icls) not in seen:
            seen.add((clause, icls))
            rec.violation(clause, icls, detail, case)
    # an event whose delivery never completed (exception in the line machine)
    for e in h.exceptions:
        rec.violation("exception-escaped", risk or "general", {"where": e[0], "exc": e[2]}, case)
        break
    # per-listener order across events = arrival order
    if not h.desync:
        rank = {}
        for (kind, idx, nl) in h.items:
            if kind == "event":
                rank[idx] = len(rank)
        last = {}
        for (lid, j, payload, t) in h.calls:
            if j is None or j not in rank:
                continue
            if lid in last and rank[j] < last[lid]:
                rec.violation("events-out-of-order", "general", {"listener": lid, "saw_ranks": [last[lid], rank[j]]}, case)
            last[lid] = rank[j]
        # calls outside any event delivery window
        in_windows = sum(len(sn.get("calls", [])) for sn in h.snap.values())
        if in_windows != len(h.calls):
            rec.violation("listener-called-outside-event-delivery", risk or "general",
                          {"calls": len(h.calls), "in_windows": in_windows}, case)
    # replies unaffected (C01 oracle), only for commands that were submitted
    if not h.desync:
        cmds_for = case["cmds"]
        c01.check(h, cmds_for, rec, case, icls=risk or "general", ignore_prefixes=(b"SETEVENTS",))
    # SETEVENTS bookkeeping
    lines = [l for l in h.server_lines[h.post_boot_rx:] if l.startswith(b"SETEVENTS")]
    got = [frozenset(l.decode("ascii").split()[1:]) for l in lines]
    rec.count("setevents_compared", len(got))
    if not h.desync and got != h.expected_setevents:
        rec.violation("setevents-mismatch", "general",
                      {"written": [sorted(x) for x in got], "expected": [sorted(x) for x in h.expected_setevents]}, case)
    contracts.drain(rec, case)
    rec.case(case, nontrivial=any(h.snap[j].get("expected") for j in done))
    rec.seen("interleaving_signatures", "".join(t[0] for t in h.trace)[:100])


def run_shard(spec, rec):
    if int(spec.get("shard", 0)) % 4 == 0:      # contracts on a quarter of the shards (cost ~3x)
        contracts.install_protocol()
    try:
        _run_shard(spec, rec)
    finally:
        contracts.report(rec)


def _run_shard(spec, rec):
    c01.install_fsm_tracer(rec)
    for i in range(spec["n"]):
        rnd = gen.rnd_for(spec["seed"], "C02", spec["shard"], i)
        case = gen_case(rnd, edge=spec.get("edge", False))
        run_case(case, rec)
        if i < 2:
            rec.sample(case)


def replay(case, rec):
    contracts.install_protocol()
    run_case(case, rec)


def plan(tier, seed):
    if tier == "quick":
        return [{"n": 330, "edge": i % 4 == 0} for i in range(16)]
    return [{"n": 12000, "edge": i % 4 == 0, "timeout_s": 3000} for i in range(32)]
