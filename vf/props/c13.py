"""C13 - GETINFO/GETCONF results map each key to exactly the value Tor sent.

Monitor: results of the real get_info / get_info_single / get_conf / get_conf_single on a
bootstrapped TorControlProtocol fed by the reference reply encoder (vf.refs.reply) through
the causal scripted server (vf.ctl.Session).  Oracle: the encoder's input.
"""
import itertools

from .. import ctl, gen
from ..refs import reply as R

PROPERTY = "C13"
READY = True
LEVEL = "exploration"
TECHNIQUE = ("runtime monitoring: Deferred-result recorder on the real get_info/get_conf wrappers, replies produced by an "
             "independent control-spec encoder whose input is the oracle; exhaustive short values over a critical alphabet "
             "+ random values, data-block values, repeated options")
LEVEL_TEXT = ("Held on the executions observed: every value of length <=3 (quick) / <=4 (thorough) over "
              "{a,=,SP,\",',2,5,0,.,O,K} returned for GETINFO (1-4 keys), get_info_single, GETCONF single/multi-valued, "
              "plus random printable values, data-block values with dot-stuffed / key=value-looking / status-looking lines, "
              "options reported 0..5 times; each result compared with the encoder input under several segmentations.")
LEVEL_NOTE = ("Trusted: vf.refs.reply encoder, vf.ctl.Session. Tor's reply shapes assumed: GETINFO single-line values as "
              "'250-key=value', multi-line as '250+key=' data block, GETCONF as 'Key=value' lines / bare 'Key' for unset.")
RULE = ("a case = one API call (get_info with 1-4 keys / get_info_single / get_conf / get_conf_single) with generated values "
        "x one segmentation; distinct = (call, keys, values, chunking); non-trivial = the Deferred fired and its value was "
        "compared with the reference")
ASSUMPTIONS = [
    "a multi-line (data block) value is accepted as lines joined by newline with or without one leading newline "
    "(the '250+key=' line carries an empty first line)",
    "GETINFO keys are distinct within a call and never contain '=' or white space",
    "multi-line values are mostly requested alone (statement: 'of a single requested key'); 6% of calls request 2-4 keys of which some are answered with a data block whose lines cannot be mistaken for a requested key or the final status line",
    "in the input classes with a recorded mechanism (quotes stripped / OK line dropped / key-like line splits the value) a result that the mechanism does not predict is reported under a clause of its own",
    "in 20% of the random cases one or two earlier calls (plain / per-line / incremental, answered 2xx or 5xx) were made and answered on the same connection first; they must not change the result",
    "'pipelined' cases make 2-4 calls back to back so that all are outstanding at once; each must get exactly its own result",
    "in 30% of the random cases an unsubscribed 650 event (single / multi-line / data form) is delivered between the command and its reply; it must not change the result",
]
TRUSTED_BASE = ["vf.refs.reply", "vf.ctl.Session"]
ANCHORS = ["txtorcon.torcontrolprotocol:parse_keywords", "txtorcon.torcontrolprotocol:unquote",
           "txtorcon.torcontrolprotocol:TorControlProtocol.get_info",
           "txtorcon.torcontrolprotocol:TorControlProtocol.get_info_single",
           "txtorcon.torcontrolprotocol:TorControlProtocol.get_conf",
           "txtorcon.torcontrolprotocol:TorControlProtocol.get_conf_single",
           "txtorcon.torcontrolprotocol:TorControlProtocol._accumulate_multi_response"]
FLOORS = {"quick": {"evaluations": 3000, "results_compared": 3000, "earlier_calls_on_same_connection": 800, "results_of_calls_outstanding_together": 1000, "earlier_call_cancelled_while_in_flight": 80, "calls_made_while_a_multiline_event_was_half_received": 100, "replies_with_several_keys_and_data_blocks": 150, "long_value_cases": 12, "reach:txtorcon.torcontrolprotocol:parse_keywords": 3000},
          "thorough": {"evaluations": 40000, "results_compared": 40000}}

ALPHA = ["a", "=", " ", '"', "'", "2", "5", "0", ".", "O", "K"]
INFO_KEYS = ["version", "config-file", "ns/all", "circuit-status", "net/listeners/socks", "a/b", "info/names",
             "address-mappings/all", "ip-to-country/1.2.3.4", "status/bootstrap-phase"]
CONF_KEYS = ["SocksPort", "Log", "ContactInfo", "HiddenServiceDir", "MyFamily", "ORPort"]


KNOWN_CLASSES = ("value-wrapped-in-matching-quotes", "data-line-is-OK", "data-line-looks-like-requested-key")


def wrapped(v):
    return len(v) >= 2 and v[0] == v[-1] and v[0] in "\"'"


def value_class(values):
    """structural class of the values of a case"""
    flat = []
    for v in values:
        flat.extend(v if isinstance(v, list) else [v])
    if any(wrapped(v) for v in flat if isinstance(v, str)):
        return "value-wrapped-in-matching-quotes"
    return "general"


def lines_class(lines, key):
    """structural class of a data-block value (first applicable)"""
    if any("=" in l and l.split("=", 1)[0] == key for l in lines):
        return "data-line-looks-like-requested-key"
    if any(l.strip() == "OK" for l in lines):
        return "data-line-is-OK"
    return "general"


def _map_values(res, f):
    if isinstance(res, dict):
        return {k: _map_values(v, f) for k, v in res.items()}
    if isinstance(res, list):
        return [_map_values(v, f) for v in res]
    if isinstance(res, str):
        return f(res)
    return res


def explained_by_recorded_mechanism(case, icls, want_ok, got):
    """the three recorded C13 mechanisms predict a definite wrong result; anything else reported in
    those input classes is something new and gets a clause of its own"""
    cands = []
    for w in want_ok:
        if icls.startswith("value-wrapped-in-matching-quotes"):
            cands.append(_map_values(w, lambda v: v[1:-1] if wrapped(v) else v))
        if case.get("multiline"):
            key = case["keys"][0]
            lines = [l for l in case["values"][0]]
            if "data-line-is-OK" in icls or "data-line-looks-like-requested-key" in icls:
                kept = [l for l in lines if l.strip() != "OK"]
                segs, cur = [], []
                for l in kept:
                    if l.startswith(key + "="):
                        segs.append("\n".join(cur))
                        cur = [l[len(key) + 1:]]
                    else:
                        cur.append(l)
                segs.append("\n".join(cur))
                for lead in ("", "\n"):
                    first = lead + segs[0] if (segs[0] or lead == "") else lead.rstrip("\n") if False else lead + segs[0]
                    val = first if len(segs) == 1 else [first] + segs[1:]
                    cands.append(val if case["api"] == "get_info_single" else {key: val})
                    # an empty leading segment collapses
                    if len(segs) > 1 and segs[0] == "":
                        val2 = [lead] + segs[1:] if lead else segs[1:] if len(segs) > 2 else segs[1]
                        cands.append(val2 if case["api"] == "get_info_single" else {key: val2})
    return any(got == c for c in cands)


def report_mismatch(rec, case, icls, want_ok, got, errs, replay_case=None):
    clause = "value-mismatch"
    if icls.split("+")[0] in KNOWN_CLASSES and not explained_by_recorded_mechanism(case, icls, want_ok, got):
        clause = "value-mismatch-not-explained-by-the-recorded-mechanism"
    rec.violation(clause, icls, {"want": want_ok[0], "got": got, "logged": errs}, replay_case or case)


class Ctx(object):
    def __init__(self):
        self.s = None
        self.n = 0

    def session(self, chunking):
        if self.s is None or self.n > 200 or self.s.exceptions:
            if self.s is not None:
                self.s.finish()
            self.s = ctl.Session([], boot=True)
            self.s.start()
            self.n = 0
        self.n += 1
        self.s.chunking = list(chunking)
        return self.s


def call(s, api, keys, reply, cmdline, event=None):
    s.set_reply(cmdline.encode("ascii"), reply)
    if event is not None:
        # an asynchronous event reaches the client between the command and its reply
        data = R.encode_event(event["name"], event["form"], event["text"], event.get("more", ()))
        s.out += data
        s.items.append(("event", -1, data.count(b"\r\n")))
        if event.get("partial"):
            # the first line(s) of a multi-line event have already arrived when the application
            # makes the call; the rest of the event and then the reply follow
            ends = [i + 2 for i in range(len(data)) if data.startswith(b"\r\n", i)][:-1]
            cut = ends[event["partial"] % len(ends)] if ends else 0
            if cut:
                chunk = s.out[s.delivered:s.delivered + cut]
                s.chunks.append((s.delivered, s.delivered + cut))
                s.delivered += cut
                s.chunk_no += 1
                try:
                    s.proto.dataReceived(chunk)
                except Exception as e:
                    s.exceptions.append(("deliver", s.chunk_no, repr(e)))
    try:
        d = getattr(s.proto, api)(*keys)
    except Exception as e:
        return None, e
    o = s.aud.watch(d, api)
    s.run()
    return o, None


PRIOR = {
    # earlier traffic on the same connection: (api, args-maker, command line, reply)
    "incremental-5xx": ("get_info_incremental", "GETINFO bad/key", (552, [("end", 'Unrecognized key "bad/key"')])),
    "incremental-2xx": ("get_info_incremental", "GETINFO ns/name/x", (250, [("data", "ns/name/x=", ["r x", "s Fast"]), ("end", "OK")])),
    "perline-5xx": ("queue_command", "GETINFO foo/bar", (551, [("mid", "first"), ("end", "Internal error")])),
    "get_info-5xx": ("get_info", "GETINFO no/such", (552, [("end", 'Unrecognized key "no/such"')])),
    "get_conf-5xx": ("get_conf", "GETCONF NoSuchOption", (552, [("end", 'Unrecognized configuration key "NoSuchOption"')])),
    "set_conf-5xx": ("set_conf", "SETCONF ORPort=bogus", (513, [("end", "Unacceptable option value")])),
    "get_info-2xx": ("get_info", "GETINFO traffic/read", (250, [("mid", "traffic/read=5"), ("end", "OK")])),
}


def do_prior(s, kind, rec):
    if kind == "cancelled-in-flight":
        # the caller gives up (cancel / addTimeout) on a command that is already on the wire; Tor
        # still answers it, late
        line = "GETINFO slow/key"
        s.set_reply(line.encode("ascii"), (250, [("mid", "slow/key=late answer"), ("end", "OK")]))
        try:
            d = s.proto.get_info("slow/key")
        except Exception as e:
            return repr(e)
        o = s.aud.watch(d, "prior:cancelled")
        d.cancel()
        rec.count("earlier_calls_on_same_connection")
        rec.count("earlier_call_cancelled_while_in_flight")
        if rec is not None and o.fired != 1:
            return "cancelled call fired %d times" % o.fired
        return None         # its (late) reply is delivered together with the next call's traffic
    api, line, reply = PRIOR[kind]
    s.set_reply(line.encode("ascii"), reply)
    sink = []
    arg = line.split(" ", 1)[1]
    try:
        if api == "get_info_incremental":
            d = s.proto.get_info_incremental(arg, sink.append)
        elif api == "queue_command":
            d = s.proto.queue_command(line, sink.append)
        elif api == "set_conf":
            d = s.proto.set_conf(*arg.split("=", 1))
        else:
            d = getattr(s.proto, api)(arg)
    except Exception as e:
        return repr(e)
    o = s.aud.watch(d, "prior:" + kind)
    s.run()
    rec.count("earlier_calls_on_same_connection")
    # only that it was resolved is asked here (get_conf logs and swallows a 5xx; not C13's subject)
    if o.fired != 1:
        return "earlier call %s: %r" % (kind, o.describe())
    return None


def prepare(case):
    """-> (api, call arguments, command line, reply, acceptable results, input class)"""
    api = case["api"]
    if case.get("mixed"):
        # several requested keys, some answered with a data block ('250+key=' ... '.'), in request order
        keys = case["keys"]
        vals = case["values"]
        parts = []
        wants = [{}]
        for k, v in zip(keys, vals):
            if isinstance(v, list):
                parts.append(("data", k + "=", list(v)))
                joined = "\n".join(v)
                wants = [dict(w, **{k: j}) for w in wants for j in ((joined, "\n" + joined) if v else ("", "\n"))]
            else:
                parts.append(("mid", "%s=%s" % (k, v)))
                wants = [dict(w, **{k: v}) for w in wants]
        parts.append(("end", "OK"))
        icls = value_class([v for v in vals if isinstance(v, str)])
        if icls == "general":
            icls = "general+several-keys-with-data-blocks"
        return api, keys, "GETINFO " + " ".join(keys), (250, parts), wants, icls
    if api in ("get_info", "get_info_single"):
        keys = case["keys"]
        vals = case["values"]
        parts = []
        if case.get("multiline"):
            parts.append(("data", keys[0] + "=", list(vals[0])))
            icls = lines_class(vals[0], keys[0])
            joined = "\n".join(vals[0])
            want_ok = [{keys[0]: joined}, {keys[0]: "\n" + joined}]
        else:
            for k, v in zip(keys, vals):
                parts.append(("mid", "%s=%s" % (k, v)))
            icls = value_class(vals)
            want_ok = [dict(zip(keys, vals))]
        parts.append(("end", "OK"))
        cmd = "GETINFO " + " ".join(keys)
        callkeys = keys
        if api == "get_info_single":
            want_ok = [w[keys[0]] for w in want_ok]
    elif case.get("grouped"):
        # one virtual option whose reply interleaves several real keys (GETCONF HiddenServiceOptions:
        # HiddenServiceDir / HiddenServicePort ... per service); every key keeps all its values in order
        key = case["keys"][0]
        pairs = [tuple(p) for p in case["values"]]
        ls = ["%s=%s" % (k, v) for (k, v) in pairs]
        parts = [("mid", l) for l in ls[:-1]] + [("end", ls[-1])]
        want = {}
        for k, v in pairs:
            want.setdefault(k, []).append(v)
        want = {k: (v[0] if len(v) == 1 else v) for k, v in want.items()}
        icls = value_class([v for (_, v) in pairs])
        if icls == "general":
            icls = "general+keys-interleaved"
        cmd = "GETCONF " + key
        callkeys = [key]
        want_ok = [want]
    else:
        key = case["keys"][0]
        vals = case["values"]          # None = unset, else list of str (>=1)
        if vals is None:
            parts = [("end", key)]
            want = "DEFAULT"
        else:
            ls = ["%s=%s" % (key, v) for v in vals]
            parts = [("mid", l) for l in ls[:-1]] + [("end", ls[-1])]
            want = vals[0] if len(vals) == 1 else list(vals)
        icls = value_class(vals or [])
        if vals is None:
            icls = "unset"
        cmd = "GETCONF " + key
        callkeys = [key]
        want_ok = [want] if api == "get_conf_single" else [{key: want}]
    return api, callkeys, cmd, (250, parts), want_ok, icls


def run_case(case, rec, ctx):
    api = case["api"]
    chunking = case.get("chunking") or [1 << 30]
    s = ctx.session(chunking)
    if s.boot_failed:
        rec.violation("bootstrap-failed", "bootstrap", {"exc": s.exceptions}, case)
        rec.case(case)
        ctx.s = None
        return
    nexc = len(s.exceptions)
    s.log.take()
    for kind in case.get("before", ()):
        problem = do_prior(s, kind, rec)
        if problem:
            rec.violation("earlier-call-not-resolved", "after-" + kind, {"problem": problem}, case)
            rec.case(case)
            ctx.s = None
            return
    api, callkeys, cmd, reply, want_ok, icls = prepare(case)
    o, exc = call(s, api, callkeys, reply, cmd, case.get("event"))
    rec.case(case)
    errs = s.log.take()
    if exc is not None or len(s.exceptions) > nexc:
        rec.violation("exception", icls, {"exc": repr(exc), "escaped": s.exceptions[nexc:]}, case)
        ctx.s = None
        return
    if not o.fired:
        rec.violation("result-never-delivered", icls, {"logged": errs}, case)
        ctx.s = None
        return
    rec.count("results_compared")
    if case.get("grouped"):
        rec.count("replies_with_interleaved_keys")
    if case.get("mixed"):
        rec.count("replies_with_several_keys_and_data_blocks")
    if not o.ok:
        rec.violation("call-failed", icls, {"got": o.describe(), "logged": errs}, case)
        return
    if o.value not in want_ok:
        report_mismatch(rec, case, icls, want_ok, o.value, errs)


def run_pipelined(case, rec, ctx):
    """several calls made back to back, all outstanding at once, answered in order"""
    s = ctx.session(case.get("chunking") or [1 << 30])
    rec.case(case)
    if s.boot_failed:
        rec.violation("bootstrap-failed", "bootstrap", {"exc": s.exceptions}, case)
        ctx.s = None
        return
    nexc = len(s.exceptions)
    s.log.take()
    prepared = [prepare(c) for c in case["calls"]]
    for line in {p[2] for p in prepared}:
        s.replies.pop(line.encode("ascii"), None)
        s.served.pop(line.encode("ascii"), None)
    outs = []
    for (api, callkeys, cmd, reply, want_ok, icls) in prepared:
        s.set_reply(cmd.encode("ascii"), reply, append=True)
        try:
            outs.append(s.aud.watch(getattr(s.proto, api)(*callkeys), api))
        except Exception as e:
            rec.violation("exception", icls + "+calls-outstanding-together", {"exc": repr(e)}, case)
            ctx.s = None
            return
    s.run()
    errs = s.log.take()
    if len(s.exceptions) > nexc:
        rec.violation("exception", "general+calls-outstanding-together", {"escaped": s.exceptions[nexc:]}, case)
        ctx.s = None
        return
    for o, (api, callkeys, cmd, reply, want_ok, icls), sub in zip(outs, prepared, case["calls"]):
        if icls in ("general", "unset"):
            icls += "+calls-outstanding-together"     # structural classes with a recorded mechanism keep their key
        if not o.fired:
            rec.violation("result-never-delivered", icls, {"logged": errs}, case)
            ctx.s = None
            return
        rec.count("results_compared")
        rec.count("results_of_calls_outstanding_together")
        if not o.ok:
            rec.violation("call-failed", icls, {"got": o.describe(), "logged": errs}, case)
        elif o.value not in want_ok:
            report_mismatch(rec, sub, icls, want_ok, o.value, errs, case)


def short_values(maxlen):
    out = [""]
    for n in range(1, maxlen + 1):
        out.extend("".join(t) for t in itertools.product(ALPHA, repeat=n))
    return out


def gen_call(rnd, edge=False):
    if rnd.random() < 0.06:
        pairs = []
        for svc in range(rnd.choice([2, 2, 3, 4])):
            pairs.append(("HiddenServiceDir", "/var/lib/tor/hs%d" % svc))
            for _ in range(rnd.choice([1, 1, 2])):
                pairs.append(("HiddenServicePort", "%d 127.0.0.1:%d" % (rnd.choice([80, 443, 22]), rnd.randint(1024, 65000))))
            if rnd.random() < 0.3:
                pairs.append(("HiddenServiceVersion", rnd.choice(["2", "3"])))
        return {"api": "get_conf", "keys": ["HiddenServiceOptions"], "values": pairs, "grouped": True}
    if rnd.random() < 0.06:
        n = rnd.randint(2, 4)
        keys = rnd.sample(INFO_KEYS, n)
        vals = []
        for _ in keys:
            if rnd.random() < 0.5:
                # lines that cannot be mistaken for '<requested key>=...' or the final status line
                vals.append([rnd.choice(["r relay 1.2.3.4", "s Fast Running", "x y", "", "250 OK", "other=1", "a=b=c", ".x"])
                             for _ in range(rnd.randint(0, 4))])
            else:
                vals.append(gen.text(rnd, maxlen=30, dots=False))
        return {"api": "get_info", "keys": keys, "values": vals, "mixed": True}
    r = rnd.random()
    txt = lambda: gen.text(rnd, maxlen=40, edge=False, dots=True)    # noqa
    if r < 0.3:
        n = rnd.randint(1, 4)
        case = {"api": "get_info", "keys": rnd.sample(INFO_KEYS, n),
                "values": [gen.text(rnd, maxlen=40, dots=False) for _ in range(n)]}
    elif r < 0.4:
        case = {"api": "get_info_single", "keys": [rnd.choice(INFO_KEYS)],
                "values": [gen.text(rnd, maxlen=60, dots=False)]}
    elif r < 0.65:
        k = rnd.choice(INFO_KEYS)
        nl = rnd.choice([1, 2, 3, 5, rnd.randint(1, 12)])
        lines = []
        for _ in range(nl):
            q = rnd.random()
            if q < 0.15:
                lines.append(rnd.choice(["other=1", "x/y=z", "k v=w", "250 OK", "650 X", "=", ".", "..", "...", "", ".x"]))
            elif q < 0.18 and edge:
                lines.append(rnd.choice([k + "=again", "OK", " ."]))
            elif q < 0.21:
                lines.append(rnd.choice([k, k + " ", k.upper(), k + "x=1", "x" + k + "=1"]))     # the key's own name as text
            else:
                lines.append(txt())
        case = {"api": rnd.choice(["get_info", "get_info_single"]), "keys": [k],
                "values": [lines], "multiline": True}
    else:
        k = rnd.choice(CONF_KEYS)
        q = rnd.random()
        if q < 0.2:
            vals = None
        elif q < 0.35:
            vals = [""]
        else:
            vals = [gen.text(rnd, maxlen=30, dots=False) for _ in range(rnd.choice([1, 1, 2, 3, 4, 5]))]
        case = {"api": rnd.choice(["get_conf", "get_conf_single"]), "keys": [k], "values": vals}
    if not case.get("multiline") and case["values"] and rnd.random() < 0.06:
        # quoted text with backslashes inside (Windows paths, escaped quotes): returned as Tor sent it
        q = rnd.choice(['"', "'"])
        body = rnd.choice(['"x y"', "'x y'", '""', "''", '"a=b"', "C:\\tor\\new\\relay", "a\\tb", "x\\\\y", "say \\" + q + "hi\\" + q, "\\101\\x41", "end\\"])
        case["values"][rnd.randrange(len(case["values"]))] = q + body + q
    return case


def run_shard(spec, rec):
    ctx = Ctx()
    mode = spec["mode"]
    if mode == "exhaustive":
        vals = short_values(spec["maxlen"])
        part = [v for i, v in enumerate(vals) if i % spec["of"] == spec["part"]]
        for i, v in enumerate(part):
            rnd = gen.rnd_for(spec["seed"], "C13x", spec["shard"], i)
            shape = i % 5
            if shape == 0:
                case = {"api": "get_info_single", "keys": [rnd.choice(INFO_KEYS)], "values": [v]}
            elif shape == 1:
                ks = rnd.sample(INFO_KEYS, 2)
                case = {"api": "get_info", "keys": ks, "values": [v, rnd.choice(["x", "1 2", ""])]}
            elif shape == 2:
                ks = rnd.sample(INFO_KEYS, 3)
                case = {"api": "get_info", "keys": ks, "values": ["0.4.8", v, "z"]}
            elif shape == 3:
                case = {"api": "get_conf_single", "keys": [rnd.choice(CONF_KEYS)], "values": [v]}
            else:
                case = {"api": "get_conf", "keys": [rnd.choice(CONF_KEYS)], "values": [v, "second"]}
            case["chunking"] = [1 << 30] if i % 3 else [1]
            run_case(case, rec, ctx)
            if i < 3:
                rec.sample(case)
        rec.enumerated("all values of length <=%d over {a,=,SP,\",',2,5,0,.,O,K}" % spec["maxlen"])
    elif mode == "long":
        # values far longer than LineReceiver's default 16 KiB line limit (descriptors, ns/all on one line)
        for n in spec["sizes"]:
            big = "".join("abcdefghij"[i % 10] for i in range(n))
            for case in ({"api": "get_info_single", "keys": ["config-text"], "values": [big]},
                         {"api": "get_info", "keys": ["version", "ns/all"], "values": ["0.4.8.12", big]},
                         {"api": "get_info", "keys": ["ns/all"], "multiline": True, "values": [["r x", big, "s Fast"]]},
                         {"api": "get_conf", "keys": ["ContactInfo"], "values": [big]}):
                case["chunking"] = [1 << 30] if n % 2 else [4096]
                run_case(case, rec, ctx)
                rec.count("long_value_cases")
    elif mode == "pipelined":
        for i in range(spec["n"]):
            rnd = gen.rnd_for(spec["seed"], "C13p", spec["shard"], i)
            case = {"pipelined": True, "calls": [gen_call(rnd) for _ in range(rnd.choice([2, 2, 3, 4]))],
                    "chunking": gen.chunking(rnd)}
            run_pipelined(case, rec, ctx)
            if i < 2:
                rec.sample(case)
    elif mode == "random":
        for i in range(spec["n"]):
            rnd = gen.rnd_for(spec["seed"], "C13", spec["shard"], i)
            case = gen_call(rnd, spec.get("edge"))
            case["chunking"] = gen.chunking(rnd)
            if rnd.random() < 0.2:
                case["before"] = [rnd.choice(sorted(PRIOR) + ["cancelled-in-flight"]) for _ in range(rnd.choice([1, 1, 2]))]
            if rnd.random() < 0.3:
                form = rnd.choice(["single", "multi", "data"])
                case["event"] = {"name": rnd.choice(["CONF_CHANGED", "NS", "STREAM", "BW"]), "form": form,
                                 "text": gen.first_text(rnd, maxlen=20),
                                 "more": [] if form == "single" else
                                 [rnd.choice(["SocksPort=9999", "Log=notice", "k=v", "x"]) for _ in range(rnd.randint(0, 3))]}
                rec.count("cases_with_event_before_reply")
                if form != "single" and rnd.random() < 0.5:
                    case["event"]["partial"] = rnd.randint(1, 4)
                    rec.count("calls_made_while_a_multiline_event_was_half_received")
            run_case(case, rec, ctx)
            if i < 2:
                rec.sample(case)


def replay(case, rec):
    if case.get("pipelined"):
        return run_pipelined(case, rec, Ctx())
    run_case(case, rec, Ctx())


def plan(tier, seed):
    if tier == "quick":
        sp = [{"mode": "exhaustive", "maxlen": 3, "part": i, "of": 5} for i in range(5)]
        sp += [{"mode": "random", "n": 700, "edge": i == 0} for i in range(9)]
        sp += [{"mode": "pipelined", "n": 300} for _ in range(2)]
        sp += [{"mode": "long", "sizes": [16500, 70001, 300000]}]
    else:
        sp = [{"mode": "exhaustive", "maxlen": 4, "part": i, "of": 8} for i in range(8)]
        sp += [{"mode": "random", "n": 20000, "edge": i < 3} for i in range(12)]
        sp += [{"mode": "pipelined", "n": 8000} for _ in range(4)]
        sp += [{"mode": "long", "sizes": [16383, 16384, 16385, 16500, 70001, 300000, 1000001]}]
    return sp
