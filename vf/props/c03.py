"""C03 - connection loss fails every unanswered command once; nothing is left pending.

Crash-point enumeration: C01-style sessions (optionally including the authentication /
bootstrap prefix) are cut by connectionLost(reason) at every byte offset of the server
stream; afterwards further commands are submitted (also re-entrantly from the errbacks of
the failed ones) and when_disconnected() is requested before and after the loss.
Oracle at quiescence: every Deferred fired exactly once (answered-before-the-cut keep their
result, all others TorDisconnectError), every when_disconnected() notified exactly once,
nothing written after the loss, no exception escapes.
"""
from .. import contracts, ctl, gen
from ..refs import reply as R

PROPERTY = "C03"
READY = True
LEVEL = "fault_enumeration"
TECHNIQUE = ("runtime monitoring with fault injection: connectionLost injected at every byte offset of generated sessions "
             "on the real TorControlProtocol; Deferred auditor (exactly-once), write-after-loss recorder")
LEVEL_TEXT = ("Held on the executions observed: every byte offset (thorough; quick: every offset of short sessions + sampled "
              "offsets of longer ones) of generated sessions incl. the auth/bootstrap prefix, x 3 close reasons x 0-6 queued "
              "commands x 0-5 post-loss submissions (plain, per-line, re-entrant from errbacks) x 0-3 disconnect-notification "
              "requests before/after. Exactly-once is audited on every Deferred at quiescence.")
LEVEL_NOTE = ("Trusted: vf.ctl.Session scheduler, vf.audit (counts firings via addBoth; a second firing raises AlreadyCalledError "
              "inside txtorcon which is captured as an escaped exception). Quiescence = all deliverable bytes delivered or cut, "
              "all scheduled submissions made.")
RULE = ("a case = session (1-6 commands, C01 generator) x cut offset x close reason x post-loss actions x when_disconnected "
        "requests; distinct = hash of all of it; non-trivial = the cut left at least one obligation (an unanswered command, a "
        "post-loss submission or a disconnect-notification request) that the auditor then checked")
ASSUMPTIONS = [
    "a command whose complete reply was delivered before the cut keeps its result (judged like C01); all others must fail with TorDisconnectError",
    "when_disconnected() 'notified' = its Deferred fired (callback or errback) exactly once",
    "post_bootstrap's outcome when the cut precedes the end of bootstrap is C04's concern and is not judged here",
]
TRUSTED_BASE = ["vf.ctl.Session", "vf.audit.Auditor", "vf.refs.reply"]
ANCHORS = ["txtorcon.torcontrolprotocol:TorControlProtocol.connectionLost",
           "txtorcon.torcontrolprotocol:TorControlProtocol._maybe_issue_command",
           "txtorcon.torcontrolprotocol:TorControlProtocol.queue_command",
           "txtorcon.torcontrolprotocol:TorControlProtocol.when_disconnected",
           "txtorcon.util:SingleObserver.fire", "txtorcon.util:SingleObserver.already_fired",
           "txtorcon.util:SingleObserver.when_fired"]
FLOORS = {"quick": {"evaluations": 3000, "deferreds_audited": 8000, "postloss_submissions": 2000,
                    "disconnect_notifications_audited": 2000, "unanswered_quit_or_signal_audited": 300, "losses_from_inside_a_reply_callback": 300, "submissions_from_on_disconnect_callback": 100,
                    "cases_with_debug_log_on": 300, "nonascii_commands_refused_at_submission": 150,
                    "losses_with_1000_or_more_commands_queued": 2,
                    "reach:txtorcon.torcontrolprotocol:TorControlProtocol.connectionLost": 3000},
          "thorough": {"evaluations": 60000, "deferreds_audited": 150000, "postloss_submissions": 40000}}


def gen_case(rnd, boot_in_run=False, max_cmds=6):
    from .c01 import gen_session
    cmds = gen_session(rnd, max_cmds=max_cmds, dups=True)
    for c in cmds:
        c.pop("api", None)          # C03 judges firing/exactly-once, not line content
    # commands of the public API whose meaning invites special treatment at a disconnect
    if rnd.random() < 0.3:
        for c in rnd.sample(cmds, min(len(cmds), rnd.choice([1, 1, 2]))):
            if rnd.random() < 0.7:
                c.update({"cmd": "QUIT", "api": "quit", "perline": False, "reply": (250, [("end", "closing connection")])})
            else:
                c.update({"cmd": "SIGNAL " + rnd.choice(["HALT", "SHUTDOWN", "NEWNYM"]), "api": "signal",
                          "perline": False, "reply": (250, [("end", "OK")])})
    if boot_in_run:
        for c in cmds:
            if c["when"][0] == "bytes":
                c["when"] = ("start",)
    n = len(cmds)
    triggers = {c["when"][1] for c in cmds if c["when"][0] in ("fire", "line")}
    cancels = []
    for i, c in enumerate(cmds):
        if i in triggers:
            continue
        r = rnd.random()
        if r < 0.2:
            c["late_watch"] = True          # nobody attaches a callback until after the loss
        elif r < 0.35:
            cancels.append(i)               # the caller gives up on it (timeout / cancel) before the loss
    post = rnd.choice([0, 0, 1, 1, 2, 2, 3, 5])
    for j in range(post):
        perline = rnd.random() < 0.3
        when = ("postloss",)
        if rnd.random() < 0.3:
            when = ("fire", rnd.randrange(0, n + j))      # re-entrant from an earlier command's (err)back
        cmds.append({"cmd": "POST%d x" % j, "perline": perline, "reply": (250, [("end", "OK")]),
                     "when": when, "post": True, "late_watch": when == ("postloss",) and rnd.random() < 0.2})
        if rnd.random() < 0.1:
            cmds[-1].update({"cmd": "QUIT", "api": "quit", "perline": False})
    total = sum(len(R.encode(*c["reply"])) for c in cmds if not c.get("post"))
    if rnd.random() < 0.12:
        # free-text option values are not always ASCII: the API may refuse such a text when it
        # is submitted, or accept it - in which case the loss must fail it like any other command
        txt = rnd.choice(["SETCONF ContactInfo=\"Zo\u00eb <zoe@example.invalid>\"", "SETCONF Nickname=caf\u00e9",
                          "GETINFO \u00fc", "SETCONF ContactInfo=\u65e5\u672c"])
        when = rnd.choice([("start",), ("start",), ("postloss",)] + [("fire", k) for k in range(n)])
        cmds.append({"cmd": txt, "perline": rnd.random() < 0.2, "reply": (250, [("end", "OK")]), "when": when,
                     "may_refuse": True, "post": when == ("postloss",), "nonascii": True,
                     "late_watch": False})
    return {"cmds": cmds, "total": total + (ctl_boot_len() if boot_in_run else 0),
            "boot_in_run": boot_in_run,
            "reason": rnd.choice(["done", "lost", "boom"]),
            "wd_before": rnd.choice([0, 0, 1, 2, 3]), "wd_after": rnd.choice([0, 1, 1, 2, 3]),
            "wd_behaviours": [rnd.choice(["none", "none", "again", "submit"]) for _ in range(3)],
            "local_close": rnd.choice([0, 0, 0, 1]),
            "od_submit": rnd.random() < 0.15,
            "debug": rnd.random() < 0.12,
            "cancels": cancels,
            "chunking": gen.chunking(rnd)}


_boot_len = []
_scratch = []


def _scratch_cwd():
    """chdir once per shard process into a scratch directory that is removed at exit"""
    if not _scratch:
        import atexit, os, shutil, tempfile
        d = tempfile.mkdtemp(prefix="vf-c03-")
        _scratch.append(d)
        old = os.getcwd()
        os.chdir(d)

        def cleanup():
            os.chdir(old)
            shutil.rmtree(d, ignore_errors=True)
        atexit.register(cleanup)


def ctl_boot_len():
    if not _boot_len:
        _boot_len.append(sum(len(R.encode(c, p)) for (_, c, p) in ctl.BOOT_SCRIPT))
    return _boot_len[0]


def run_case(case, rec):
    cmds = [dict(c) for c in case["cmds"]]
    for c in cmds:
        c["when"] = tuple(c["when"])
        c["reply"] = (c["reply"][0], [tuple(p) for p in c["reply"][1]])
    s = ctl.Session(cmds, chunking=case["chunking"], boot_in_run=case["boot_in_run"])
    # post-loss commands must not be submitted by the normal scheduler
    held = [r for r in s.commands if r.spec["when"][0] == "postloss"]
    for r in held:
        s.pending_when.remove(r)
    if case["boot_in_run"]:
        # a user submits commands only once the connection reported ready
        waiting = list(s.pending_when)
        s.pending_when[:] = []

        def ready(p):
            s.pending_when.extend(waiting)
            s.submit_due()
            return p
        s.proto.post_bootstrap.addCallback(ready)
    if case.get("debug"):
        # the application switched the protocol's debug log on (public start_debug(); it writes
        # 'txtorcon-debug.log' in the working directory, which is a scratch directory here)
        _scratch_cwd()
        try:
            s.proto.start_debug()
            rec.count("cases_with_debug_log_on")
        except Exception as e:
            s.exceptions.append(("submit", -1, repr(e)))
    s.start()
    if s.boot_failed:
        rec.violation("bootstrap-failed", "bootstrap", {"exc": s.exceptions}, case)
        rec.case(case, nontrivial=False)
        return
    wds = []
    reentrant_cmds = []
    behaviours = case.get("wd_behaviours") or []
    for i in range(case["wd_before"]):
        try:
            d = s.proto.when_disconnected()
        except Exception as e:
            s.exceptions.append(("when_disconnected", -1, repr(e)))
            continue
        b = behaviours[i] if i < len(behaviours) else "none"
        if b == "again":
            # the notification handler asks again (e.g. generic "run on disconnect" helper)
            def again(res, i=i):
                try:
                    wds.append(s.aud.watch(s.proto.when_disconnected(), "wd-reentrant-%d" % i))
                except Exception as e:
                    s.exceptions.append(("when_disconnected", -1, repr(e)))
                return res
            d.addBoth(again)
        elif b == "submit":
            # the notification handler submits a command (e.g. tries to send QUIT / a retry)
            def resubmit(res, i=i):
                rr = ctl.CmdRec(1000 + i, {"cmd": "FROMWD%d x" % i, "perline": False, "when": ("wd",),
                                           "reply": (250, [("end", "OK")]), "post": True})
                s.commands.append(rr)
                reentrant_cmds.append(rr)
                s.submit(rr, "wd-callback")
                return res
            d.addBoth(resubmit)
        wds.append(s.aud.watch(d, "wd-before-%d" % i))
    if case.get("od_submit"):
        # the deprecated on_disconnect Deferred: callbacks added by the application, one of which
        # submits a command synchronously
        def od_resubmit(res):
            rr = ctl.CmdRec(2000, {"cmd": "FROMOD x", "perline": False, "when": ("od",),
                                   "reply": (250, [("end", "OK")]), "post": True})
            s.commands.append(rr)
            reentrant_cmds.append(rr)
            s.submit(rr, "on_disconnect-callback")
            rec.count("submissions_from_on_disconnect_callback")
            return None         # swallow the failure like an application's errback would
        try:
            s.proto.on_disconnect.addBoth(od_resubmit)
        except Exception as e:
            s.exceptions.append(("on_disconnect", -1, repr(e)))
    reason = {"done": None, "lost": "lost", "boom": "boom"}[case["reason"]]
    if case.get("local_close"):
        # the application hangs up itself (transport.loseConnection(), e.g. after QUIT): the
        # transport is 'disconnecting' when the connection then goes away
        orig_lose = s.lose

        def lose_after_local_close(r=None):
            s.transport.loseConnection()
            rec.count("local_close_before_loss")
            return orig_lose(r)
        s.lose = lose_after_local_close
    cancelled = set()
    if case.get("cancels"):
        inner_lose = s.lose

        def cancel_then_lose(r=None):
            # caller-side timeouts fire for some still unanswered commands, then the connection goes
            for i in case["cancels"]:
                rr = s.commands[i]
                if rr.deferred is not None and not rr.deferred.called:
                    rr.cancelled = True
                    cancelled.add(i)
                    rec.count("commands_cancelled_by_caller_before_loss")
                    rr.deferred.cancel()
            return inner_lose(r)
        s.lose = cancel_then_lose
    if case.get("lose_in_callback") is not None:
        # the application's own reply callback hangs up and the transport reports the loss at
        # once: connectionLost() runs re-entrantly, inside the delivery of that reply
        orig_fired = s._fired

        def fired(r):
            orig_fired(r)
            if r.idx == case["lose_in_callback"] and not s.lost and s.stage == "run":
                rec.count("losses_from_inside_a_reply_callback")
                s.transport.loseConnection()
                s.lose(reason)
        s._fired = fired
    s.run(cut_at=case["cut"], reason=reason)
    if not s.lost:
        s.lose(reason)
    delivered_at_cut = s.delivered
    queued_at_cut = 0
    for r in s.commands:
        if r.outcome is not None and r.fired_stage in ("loss", None) and not r.spec.get("post"):
            queued_at_cut += 1
    npost = 0
    for r in held:
        s.submit(r, "postloss")
    for r in s.commands:
        if r.spec.get("post") and r.submitted_t is not None:
            npost += 1
    for i in range(case["wd_after"]):
        try:
            wds.append(s.aud.watch(s.proto.when_disconnected(), "wd-after-%d" % i))
        except Exception as e:
            s.exceptions.append(("when_disconnected", -1, repr(e)))
    s.watch_late()
    s.finish()
    # consume post_bootstrap's failure (not judged here)
    s.proto.post_bootstrap.addErrback(lambda f: None)

    # ---- classification of the input
    if case["boot_in_run"] and delivered_at_cut < ctl_boot_len():
        pos = "during-bootstrap"
    elif delivered_at_cut in ([0] + s.reply_ends) or delivered_at_cut >= len(s.out):
        pos = "between-replies"
    else:
        pos = "mid-reply"
    if case.get("lose_in_callback") is not None and s.transport.lose_calls:
        pos = "inside-reply-callback"
    unanswered = 0
    icls_q = None
    # ---- oracle
    obligations = 0
    bad = []

    def V(clause, detail):
        icls = "%s/unanswered=%s/postloss=%s" % (pos, icls_q, "0" if npost == 0 else ("1" if npost == 1 else "2+"))
        bad.append((clause, icls, detail))

    verdicts = []
    for r in s.commands:
        if r.submitted_t is None:
            continue            # trigger never happened (e.g. per-line trigger after the cut)
        o = r.outcome
        li = s.line_index(r.spec["cmd"], r.occ)
        answered = (li is not None and li < len(s.reply_ends)
                    and s.reply_ends[li] <= delivered_at_cut)
        if not answered:
            unanswered += 1
        verdicts.append((r, o, answered))
    icls_q = "0" if unanswered == 0 else ("1" if unanswered == 1 else "2+")
    for (r, o, answered) in verdicts:
        rec.count("deferreds_audited")
        if o is None and r.refused:
            # refused synchronously: no Deferred exists, nothing can be left pending
            rec.count("nonascii_commands_refused_at_submission")
            continue
        if r.spec.get("nonascii"):
            rec.count("nonascii_commands_accepted_and_audited")
        if o is None:
            V("submit-raised", {"cmd": r.idx, "exc": repr(r.submit_exc), "post": bool(r.spec.get("post"))})
            continue
        obligations += 0 if answered else 1
        if o.fired == 0:
            V("command-left-pending", {"cmd": r.idx, "post": bool(r.spec.get("post")), "when": r.spec["when"]})
            continue
        if o.fired > 1:
            V("command-fired-twice", {"cmd": r.idx})
            continue
        code = r.spec["reply"][0]
        if r.cancelled:
            rec.count("cancelled_commands_audited")
            continue        # fired exactly once (checked above); its value is the caller's CancelledError
        if r.spec.get("late_watch"):
            rec.count("late_watched_commands_audited")
        if answered:
            if (200 <= code < 300) != bool(o.ok):
                V("answered-command-lost-its-result", {"cmd": r.idx, "got": o.describe()})
            elif not o.ok and type(o.value).__name__ != "TorProtocolError":
                V("answered-command-lost-its-result", {"cmd": r.idx, "got": o.describe()})
        else:
            if r.spec.get("api") in ("quit", "signal"):
                rec.count("unanswered_quit_or_signal_audited")
            if o.ok or type(o.value).__name__ != "TorDisconnectError":
                V("unanswered-command-not-failed-with-disconnect", {"cmd": r.idx, "got": o.describe(),
                                                                     "post": bool(r.spec.get("post"))})
    for o in wds:
        rec.count("disconnect_notifications_audited")
        obligations += 1
        if o.fired != 1:
            V("when-disconnected-fired-%d-times" % o.fired, {"label": o.label})
        elif o.ok or type(o.value).__name__ != "TorDisconnectError":
            # each request is told about the loss itself, not what an earlier requester's handler left behind
            V("when-disconnected-not-told-about-the-loss", {"label": o.label, "got": o.describe()})
    if s.transport.writes_after_loss:
        V("write-after-loss", {"writes": [d for (_, d) in s.transport.writes_after_loss]})
    for e in s.exceptions:
        if e[0] in ("loss", "submit", "when_disconnected", "deliver"):
            V("exception-escaped-" + e[0], {"exc": e[2]})
    rec.count("postloss_submissions", npost)
    rec.seen("cut_positions", pos)
    rec.seen("classes", "%s/unanswered=%s/postloss=%d" % (pos, icls_q, min(npost, 2)))
    seen = set()
    for (clause, icls, detail) in bad:
        if (clause, icls) not in seen:
            seen.add((clause, icls))
            rec.violation(clause, icls, detail, case)
    contracts.drain(rec, case)
    rec.case(case, nontrivial=obligations > 0)


def run_shard(spec, rec):
    if int(spec.get("shard", 0)) % 4 == 0:      # contracts on a quarter of the shards (cost ~3x)
        contracts.install_protocol()
    try:
        _run_shard(spec, rec)
    finally:
        contracts.report(rec)


def _run_shard(spec, rec):
    mode = spec["mode"]
    if mode == "every-offset":
        i = 0
        done = 0
        while done < spec["n"]:
            rnd = gen.rnd_for(spec["seed"], "C03", spec["shard"], i)
            i += 1
            case = gen_case(rnd, boot_in_run=spec.get("boot", False), max_cmds=spec.get("max_cmds", 4))
            if case["total"] > spec.get("maxlen", 400):
                continue
            for cut in range(0, case["total"] + 1):
                c = dict(case, cut=cut)
                run_case(c, rec)
                done += 1
                if done < 3:
                    rec.sample(c)
            rec.count("sessions_cut_at_every_offset")
        rec.enumerated("every byte offset of each session's server stream as the loss point")
    elif mode == "callback-loss":
        # the connection goes away from inside the reply callback of one of the commands
        for i in range(spec["n"]):
            rnd = gen.rnd_for(spec["seed"], "C03cb", spec["shard"], i)
            case = gen_case(rnd, boot_in_run=False)
            cands = [k for k, c in enumerate(case["cmds"]) if not c.get("post") and not c.get("late_watch")]
            if not cands:
                continue
            case["lose_in_callback"] = rnd.choice(cands)
            case["cancels"] = [k for k in case["cancels"] if k != case["lose_in_callback"]]
            case["cut"] = case["total"] + 2
            case["chunking"] = [1]      # the triggering reply ends its chunk: 'answered' is decided by offsets
            run_case(case, rec)
            if i < 2:
                rec.sample(case)
    elif mode == "many-queued":
        # thousands of commands queued behind a silent Tor when the connection goes
        for n in spec["sizes"]:
            rnd = gen.rnd_for(spec["seed"], "C03many", n)
            cmds = [{"cmd": "BULK%d x" % i, "perline": False, "reply": (250, [("end", "OK")]), "when": ("start",)}
                    for i in range(n)]
            cmds.append({"cmd": "POST0 x", "perline": False, "reply": (250, [("end", "OK")]), "when": ("postloss",),
                         "post": True, "late_watch": False})
            case = {"cmds": cmds, "total": 0, "boot_in_run": False, "reason": rnd.choice(["done", "lost"]),
                    "wd_before": 1, "wd_after": 1, "wd_behaviours": ["none"], "local_close": 0, "cancels": [],
                    "chunking": [1 << 30], "cut": 0}
            run_case(case, rec)
            rec.count("losses_with_1000_or_more_commands_queued")
    elif mode == "random":
        for i in range(spec["n"]):
            rnd = gen.rnd_for(spec["seed"], "C03r", spec["shard"], i)
            case = gen_case(rnd, boot_in_run=rnd.random() < 0.3)
            case["cut"] = rnd.randint(0, case["total"] + 2)
            run_case(case, rec)
            if i < 2:
                rec.sample(case)


def replay(case, rec):
    contracts.install_protocol()
    run_case(case, rec)


def plan(tier, seed):
    if tier == "quick":
        sp = [{"mode": "every-offset", "n": 500, "maxlen": 150, "max_cmds": 3} for _ in range(6)]
        sp += [{"mode": "every-offset", "n": 700, "maxlen": 800, "max_cmds": 2, "boot": True} for _ in range(3)]
        sp += [{"mode": "random", "n": 500} for _ in range(5)]
        sp += [{"mode": "callback-loss", "n": 400} for _ in range(2)]
        sp += [{"mode": "many-queued", "sizes": [1200, 3000]}]
    else:
        sp = [{"mode": "every-offset", "n": 15000, "maxlen": 600, "max_cmds": 6} for _ in range(10)]
        sp += [{"mode": "every-offset", "n": 12000, "maxlen": 1400, "max_cmds": 4, "boot": True} for _ in range(4)]
        sp += [{"mode": "random", "n": 10000} for _ in range(6)]
        sp += [{"mode": "callback-loss", "n": 8000} for _ in range(3)]
        sp += [{"mode": "many-queued", "sizes": [1000, 1200, 3000, 10000]}]
    return sp
