"""C10 - config changes reach Tor only on save(), as one SETCONF naming exactly the changes.

Monitor: the real ``TorConfig.from_protocol`` over the real ``TorControlProtocol`` attached to
``vf.faketor.conftor.ConfTor`` (option table of every declared type).  A case is a sequence of
attribute assignments (any-case names), in-place list operations and ``save()`` calls that the
fake Tor accepts or rejects (513 / 552).  The transport is watched after every step; every
SETCONF line is decoded by the independent kvline reference and compared with a reference model
of "what is pending"; after the ack the config store (ground truth of what Tor now holds) is
compared with attribute reads.  See DESIGN.md section 2 / C10.
"""
from .. import gen
from ..refs import kvline
from ..faketor import conftor as CT

PROPERTY = "C10"
READY = True
LEVEL = "exploration"
TECHNIQUE = ("runtime monitoring: transport recorder + kvline reference decoder + reference pending-set model + "
             "simulated Tor config store, on the real TorConfig/TorControlProtocol under generated edit/save/"
             "reject histories")
LEVEL_TEXT = ("Held on the executions observed: thousands (quick) to tens of thousands (thorough) of generated histories "
              "of <= 12 assignments / in-place list operations / accepted and rejected saves over option tables holding "
              "every declared type; after every step the transport was inspected, every SETCONF decoded by the reference "
              "kvline parser and compared with the reference pending set, and after every ack reads were compared with "
              "the simulated Tor store. Sampling; not a proof for unexplored histories or values.")
LEVEL_NOTE = ("Trusted: vf.refs.kvline (Tor's SETCONF grammar), ConfTor/ConfigStore SETCONF semantics (scalar = last value, "
              "line list = all values in order, bare key / empty value = clear), the reference pending-set model in this file.")
RULE = ("a case = one option table (>= 1 option of every declared type + 1-2 *PortLines families, random initial values) "
        "x one history of <= 12 steps (assign / append / extend / insert / remove / pop / setitem / slice-setitem / "
        "save accepted / save rejected 513|552), option names spelled in random case (Boolean options named HiddenService* in "
        "6 tables of 10; integer-typed options also assigned bools, integral floats, padded / signed / zero-padded numeric "
        "strings); class 'midack' additionally makes "
        "one edit between save() and its ack; class 'alias' assigns to a list option the object read from ANOTHER list "
        "option of this or of a second TorConfig, saves, then edits target and source in place; class 'overlap' has 2-3 "
        "save() calls outstanding at once (edits between them and after the last), answered in order, each accepted or "
        "rejected independently. Distinct = hash of (table, steps). Non-trivial = at least one SETCONF line "
        "was decoded and compared with the reference pending set.")
ASSUMPTIONS = [
    "String / Filename values and LineList elements include double quotes, backslashes, tabs and leading/trailing blanks "
    "and control characters 0x01-0x1f/0x7f followed by digits or letters (decoded from the wire by the kvline "
    "reference), and CR / LF at the end of or inside String, Filename, LineList and comma-list values: such a value "
    "is either refused with an error and nothing is sent, or goes out as one line that decodes to exactly the value",
    "a SETCONF written while an earlier one is unanswered may or may not repeat the options the earlier one carries",
    "in half of the 'seq' cases Tor announces the controller's own accepted SETCONFs (CONF_CHANGED echo, after the 250 OK "
    "or - like Tor versions that send events synchronously - before it); 'seq' cases also contain CONF_CHANGED events for "
    "changes by another controller: the view then follows Tor, a pending local change stays as the application left it and "
    "is what the next save delivers; further in-place edits of such an option are made only through the list object the "
    "application already holds from its pending edit (that object is the pending value); edits through a fresh read are "
    "not generated (it returns Tor's list, so the target would be unspecified, like leniency L)",
    "in-place mutation of an option that also has a pending whole-value assignment is not generated (DESIGN C10 L)",
    "comma-list options are judged on the wire form only: one joined value or one item per element (DESIGN C10 L)",
    "an option whose pending value equals what Tor already holds may or may not be named by the SETCONF",
    "list elements and String/Filename values may equal marker-like strings ('DEFAULT', 'default', 'NEVER', 'auto', '0'), "
    "built at run time (fresh objects) in two steps of three and as interned literals in the third: they are ordinary "
    "values and go out like any other",
    "list elements may be ints (incl. 0), booleans or the empty string: each goes out as str(element); a list holding an "
    "empty-string element is judged on the wire only ('Key=' is a clear in Tor's grammar)",
    "assignments that the declared type cannot validate (Integer-like = 'seven' / None, Boolean+Auto = 'auto', LineList = "
    "a str / tuple / int) must raise and leave value and pending change untouched; Boolean, Float, String-like, comma and "
    "*Port options validate nothing and get no such step",
    "integer-typed options (Integer, SignedInteger, Port, TimeInterval, DataSize) are assigned, in 3 of 10 assignments, a "
    "value int() accepts whose str() is not the canonical decimal text: True / False, an integral float, a numeric string "
    "with blanks or tabs around it, a plus sign or leading zeros; the validated value is the integer, so the SETCONF must "
    "carry str(int(value)) - or the assignment is refused with ValueError / TypeError and nothing changes (counted); "
    "non-integral floats and digit-group underscores are not generated",
    "in 6 of 10 tables the Boolean options carry the names of Tor's stand-alone Boolean options that start with "
    "'HiddenService' (HiddenServiceStatistics, HiddenServiceSingleHopMode, HiddenServiceNonAnonymousMode): ordinary "
    "options, judged like every other Boolean; the per-service HiddenServiceDir/Port/... family (txtorcon's HiddenServices pseudo-option) is not in the tables",
    "valid scalars are never assigned the empty string; list options are otherwise only assigned lists; Port-family options that "
    "bootstrap from neither a value nor a default only get append/extend/insert(0)/assignment (their base view is "
    "txtorcon's [DEFAULT] marker list, outside the model)",
    "option tables avoid the bootstrap shapes C11 reports as broken (multi-valued *Port, single-valued list default) "
    "and empty comma lists (viewed as [''], which C11 tolerates)",
    "reads are compared modulo str() of list elements and without the DEFAULT marker; value types are C11's subject",
]
TRUSTED_BASE = ["vf.refs.kvline", "vf.faketor.core.ConfigStore / vf.faketor.conftor.ConfTor", "reference pending-set model (c10.Model)"]
ANCHORS = [
    "txtorcon.torconfig:TorConfig.__setattr__",
    "txtorcon.torconfig:TorConfig.__getattr__",
    "txtorcon.torconfig:TorConfig.mark_unsaved",
    "txtorcon.torconfig:TorConfig.save",
    "txtorcon.torconfig:TorConfig._save_completed",
    "txtorcon.torconfig:TorConfig.needs_save",
    "txtorcon.torconfig:_ListWrapper.append",
    "txtorcon.torconfig:LineList.validate",
    "txtorcon.torconfig:Boolean.validate",
    "txtorcon.torconfig:Boolean_Auto.validate",
    "txtorcon.torconfig:Integer.validate",
    "txtorcon.torcontrolprotocol:TorControlProtocol.set_conf",
]
FLOORS = {
    "quick": {"evaluations": 450, "setconf_lines_decoded": 800, "quiet_checks": 2000, "saves_rejected": 130,
              "reads_compared": 1300, "second_save_checks": 600, "midack_edits": 80, "midack_same_length_edits_of_a_list_in_flight": 10, "inplace_ops": 500,
              "escaped_values_decoded": 80, "assigned_from_other_option": 150, "overlapping_saves": 120,
              "overlap_outcomes_checked": 50, "invalid_assignments": 100, "invalid_assignments_on_pending_option": 25,
              "foreign_events": 150, "foreign_events_on_pending_option": 40, "crlf_values_decoded": 40, "held_object_edits": 20, "marker_like_values_runtime": 60,
              "odd_int_spellings_decoded": 120, "hiddenservice_prefixed_options_decoded": 60,
              "reach:txtorcon.torconfig:TorConfig.save": 1500,
              "reach:txtorcon.torconfig:TorConfig.mark_unsaved": 500,
              "reach:txtorcon.torconfig:TorConfig._save_completed": 650,
              "reach:txtorcon.torcontrolprotocol:TorControlProtocol.set_conf": 800},
    "thorough": {"evaluations": 9000, "setconf_lines_decoded": 15000, "quiet_checks": 40000, "saves_rejected": 2500,
                 "reads_compared": 25000, "second_save_checks": 10000, "midack_edits": 1500, "inplace_ops": 9000,
                 "escaped_values_decoded": 1500, "assigned_from_other_option": 1500, "overlapping_saves": 2500,
                 "odd_int_spellings_decoded": 1500, "hiddenservice_prefixed_options_decoded": 700,
                 "reach:txtorcon.torconfig:TorConfig.save": 30000,
                 "reach:txtorcon.torcontrolprotocol:TorControlProtocol.set_conf": 15000},
}

REJECTIONS = {
    513: "Unacceptable option value: Failed to parse/validate config: value rejected by the fake Tor",
    552: "Unrecognized option: Unknown option 'x'.  Failing.",
}


# ---------------------------------------------------------------------------
# reference model of the pending set

def validated(typ, v):
    """wire text of the validated value of a scalar option (reference, from the type's meaning)"""
    if typ == CT.BOOL:
        return "1" if v else "0"
    if typ == CT.BOOLAUTO:
        i = int(v)
        return "auto" if i < 0 else ("1" if i else "0")
    if typ in CT.INT_TYPES:
        return str(int(v))
    return str(v)


def apply_listop(lst, method, args):
    """perform the in-place operation on a plain list; -> exception or None"""
    try:
        if method == "append":
            lst.append(args[0])
        elif method == "extend":
            lst.extend(args[0])
        elif method == "insert":
            lst.insert(args[0], args[1])
        elif method == "remove":
            lst.remove(args[0])
        elif method == "pop":
            lst.pop(*args)
        elif method == "setitem":
            lst[args[0]] = args[1]
        elif method == "setslice":
            lst[args[0]:args[1]] = args[2]
        else:
            raise AssertionError(method)
    except (ValueError, IndexError) as e:
        return e
    return None


def wire(v):
    """what a value looks like on the wire / in Tor: list elements as text"""
    return [str(x) for x in v] if isinstance(v, list) else v


def tor_list(w):
    """what Tor holds after 'K=w0 K=w1 ...' for a line-list option: an empty value clears what came before"""
    if "" in w:
        w = w[len(w) - w[::-1].index(""):]
    return list(w)


class Model(object):
    def __init__(self, table, echo=False):
        self.echo = echo          # Tor announces the controller's own accepted SETCONFs (CONF_CHANGED)
        self.shadow = set()       # options whose view was replaced by a CONF_CHANGED while a local change is pending
        self.types = {}
        self.view = {}        # what Tor holds as the client should see it: str | None | [str]
        self.fuzzy = set()
        self.pending = {}     # name -> (how, value)
        self.order = []
        self.serial = 0
        self.defaults = {}
        for o in table:
            n, t = o["name"], o["type"]
            self.defaults[n] = o["default"]
            self.types[n] = t
            self.order.append(n)
            if CT.is_listy(t):
                self.view[n] = CT.ref_read(t, o["init"], o["default"])
                if t == CT.PORTLINES and not o["init"] and not o["default"]:
                    self.fuzzy.add(n)
            else:
                self.view[n] = o["init"][-1] if o["init"] else (o["default"][-1] if o["default"] else None)
        self.initial = {n: (list(v) if isinstance(v, list) else v) for n, v in self.view.items()}

    def kind(self, n):
        return CT.kind_of(self.types[n])

    def klass(self, n):
        k = self.kind(n)
        return k if k != "scalar" else "scalar:" + self.types[n]

    def base(self, n):
        if n in self.pending:
            return list(self.pending[n][1])
        return list(self.view[n])

    def edit(self, st):
        """pending[name] = (how, value, serial of the edit)"""
        n = st["opt"]
        if st.get("invalid"):
            return                # rejected by validation: nothing changes
        self.serial += 1
        if st["op"] == "assign":
            self.shadow.discard(n)
        if st["op"] == "assign" and st.get("from"):
            # the value is whatever the view of the source option returns at this moment
            y = st["from"]["opt"]
            if st["from"]["other"]:
                val = list(self.initial[y])
            elif y in self.pending and self.pending[y][0] == "inplace" and y not in self.shadow:
                val = list(self.pending[y][1])
            else:
                val = list(self.view[y])
            self.pending[n] = ("assign", val, self.serial)
        elif st["op"] == "assign":
            if self.kind(n) == "scalar":
                self.pending[n] = ("assign", validated(self.types[n], st["value"]), self.serial)
            else:
                self.pending[n] = ("assign", list(st["value"]), self.serial)      # elements as assigned (may be ints)
        else:
            lst = self.base(n)
            apply_listop(lst, st["method"], st["args"])
            how = self.pending[n][0] if n in self.pending else "inplace"
            self.pending[n] = (how, lst, self.serial)

    def must(self):
        return {n: hv for n, hv in self.pending.items() if wire(hv[1]) != wire(self.view[n])}

    def ack(self, delivered):
        """Tor accepted `delivered`; an option edited again since it was sent stays pending
        (as a no-op change if the new value is the one just saved)"""
        for n, hv in delivered.items():
            v = hv[1]
            if self.echo and isinstance(v, list) and wire(v) != wire(self.view[n]):
                # the echo replaces the view by what Tor reports: strings, as Tor's grammar took them
                v = [x for x in wire(v) if x != ""] if self.kind(n) == "commalist" else tor_list(wire(v))
            self.view[n] = v
            if n in self.pending and self.pending[n][2] == hv[2]:
                del self.pending[n]
                self.shadow.discard(n)

    def event(self, items):
        """CONF_CHANGED for a change made by another controller: the view follows Tor, a pending local change stays
        as the application left it (it is what the next save delivers)"""
        groups = {}
        for k, v in items:
            groups.setdefault(k, [])
            if v is not None:
                groups[k].append(v)
        for n, vals in groups.items():
            t = self.types[n]
            if CT.is_listy(t):
                self.view[n] = CT.ref_read(t, vals, self.defaults.get(n))
            else:
                self.view[n] = vals[-1] if vals else ((self.defaults.get(n) or [None])[-1])
            if n in self.pending:
                self.shadow.add(n)


# ---------------------------------------------------------------------------
# generation

NASTY = ['say "hi"', '"quoted"', 'C:\\tor\\data', 'back\\slash "and" quote', 'tab\there', ' leading blank',
         'trailing blank ', '  both  ', 'a"b', '\\', '"', 'ends with backslash\\', 'notice file "/var/log/my tor.log"',
         'x=\\"y\\"', "single 'quotes'", '\\"', 'two  spaces', '#not a comment', 'semi;colon']


CTRL = ['bell\x0712', '\x011', 'a\x1f7z', '\x7f0', 'x\x0bq', '\x078', 'tab\x0934', '\x1b[0m', 'nul-ish\x01', '\x0c\x0e5 6']


PLAIN = [False]     # set while generating a case with Tor's echo on: values must survive Tor's (escaped) event
#                     rendering and txtorcon's reply parsing unchanged - that decoding is C13's subject, not C10's


CRLF = ["relay\n", "\n", "two\nlines", "cr\r", "line1\r\nline2", "ends with blank and lf \n", "x\n\n", "\rstart"]


def crlf_value(rnd, plain):
    """a value with CR / LF at its end or inside: the option types that validate nothing let it through, so it
    must be refused with an error (nothing sent) or go out as ONE line that decodes to exactly this value"""
    c = rnd.choice(CRLF)
    return rnd.choice([c, str(plain) + "\n", str(plain) + "\r\n", str(plain) + c])


def nasty(rnd, plain):
    if PLAIN[0]:
        return plain
    if rnd.random() < 0.15:
        return crlf_value(rnd, plain)
    if rnd.random() < 0.25:
        # control characters other than CR/LF, followed by octal digits / '8' / letters (octal escapes on the wire)
        c = rnd.choice(CTRL)
        return rnd.choice([c, plain + c, c + plain, plain + " " + c + rnd.choice("01234567")])
    return _nasty(rnd, plain)


def _nasty(rnd, plain):
    """string-like values that need Tor's QuotedString escapes on the wire (or are easy to mangle)"""
    r = rnd.random()
    if r < 0.5:
        return rnd.choice(NASTY)
    if r < 0.75:
        return plain + " " + rnd.choice(NASTY)
    return rnd.choice(NASTY).strip() + " " + plain


def gen_assign_value(rnd, typ):
    v = _gen_assign_value(rnd, typ)
    if isinstance(v, list) and rnd.random() < 0.12:
        r = rnd.random()
        if r < 0.3 or not v:
            v = [odd_elem(rnd, typ)]                       # e.g. SocksPort = [0]: all elements falsy
        elif r < 0.65:
            v.insert(rnd.randint(0, len(v)), odd_elem(rnd, typ))
        else:
            v[rnd.randrange(len(v))] = odd_elem(rnd, typ)
        return v
    if typ in CT.STR_TYPES and rnd.random() < 0.04 and not PLAIN[0]:
        return rnd.choice(MARKERS)
    if typ in CT.STR_TYPES and rnd.random() < 0.3:
        return nasty(rnd, v)
    if typ == CT.LINELIST and v and rnd.random() < 0.3:
        v[rnd.randrange(len(v))] = nasty(rnd, v[0])
    return v


def _gen_assign_value(rnd, typ):
    k = CT.kind_of(typ)
    if k == "scalar":
        if typ == CT.BOOL:
            return rnd.choice([True, False, 0, 1])
        if typ == CT.BOOLAUTO:
            return rnd.choice([-1, 0, 1, True, False])
        if typ in CT.INT_TYPES:
            raw = CT.gen_scalar_raw(rnd, typ)
            if rnd.random() < 0.3:
                return odd_int(rnd, typ, raw)
            return rnd.choice([int(raw), raw])
        if typ == "TimeMsecInterval":
            raw = CT.gen_scalar_raw(rnd, typ)
            return rnd.choice([int(raw), raw])
        if typ == "Float":
            return rnd.choice([0.5, 1.25, 3.0, 0.001, "2.50", "0.75", 12.125])
        return CT.gen_scalar_raw(rnd, typ)
    if k == "commalist":
        n = rnd.choice([1, 2, 3, 4, 5]) if rnd.random() < 0.92 else 0
        return CT.gen_csv(rnd, typ, n) if n else []
    n = rnd.choice([1, 1, 2, 3, 4, 5, 6]) if rnd.random() < 0.9 else 0
    out = []
    while len(out) < n:
        v = CT.gen_port_entry(rnd) if k == "portlist" else CT.gen_line(rnd)
        if v not in out:
            out.append(v)
    if k == "linelist" and len(out) >= 2 and rnd.random() < 0.2:
        out[rnd.randrange(len(out))] = out[0]          # Tor accepts repeated lines
    if k == "portlist" and out and rnd.random() < 0.25:
        out = [rnd.choice([9050, 9150, 1337, 5353])] + [x for x in out[1:]]
    return out


def odd_int(rnd, typ, raw):
    """a value int() accepts for an integer-typed option but whose str() is not the canonical decimal text: a bool, an
    integral float, a numeric string with blanks around it, a plus sign or leading zeros.  The validated value is the
    integer: the wire must carry str(int(value)) (or the assignment is refused with ValueError / TypeError)"""
    i = int(raw)
    r = rnd.random()
    if r < 0.2:
        return rnd.choice([True, False])
    if r < 0.4:
        return float(i) if abs(i) < 2 ** 40 else 900.0
    sign = "-" if i < 0 else ""
    digits = str(abs(i))
    r = rnd.random()
    if r < 0.45:
        return rnd.choice([" %s", "%s ", "  %s  ", "\t%s", " %s\t"]) % raw
    if r < 0.7:
        return sign + rnd.choice(["0", "00", "000"]) + digits
    if r < 0.9 or i < 0:
        return ("+" + digits) if i >= 0 else (" " + raw)
    return " +" + rnd.choice(["", "0"]) + digits + " "


def int_spelling(v):
    """structural class of a value assigned to an integer-typed option ('' = an int or its canonical decimal text)"""
    if isinstance(v, bool):
        return "bool"
    if isinstance(v, float):
        return "float"
    if isinstance(v, str):
        try:
            if v == str(int(v)):
                return ""
        except ValueError:
            return ""
        f = []
        t = v.strip()
        if t != v:
            f.append("blank-padded")
        if t.startswith("+"):
            f.append("plus-sign")
        if len(t.lstrip("+-")) > 1 and t.lstrip("+-").startswith("0"):
            f.append("leading-zeros")
        return "numeric-string:" + ("+".join(f) or "other")
    return ""


# real Tor options whose names start with 'HiddenService' but are ordinary stand-alone Boolean options (not part of the
# HiddenServiceOptions family that txtorcon folds into the 'HiddenServices' pseudo-option)
HS_PREFIXED_BOOLS = ["HiddenServiceStatistics", "HiddenServiceSingleHopMode", "HiddenServiceNonAnonymousMode"]


def hs_prefixed(n):
    return n.lower().startswith("hiddenservice")


MARKERS = ["DEFAULT", "DEFAULT", "default", "NEVER", "auto", "0"]     # strings that look like txtorcon / Tor markers


def materialize(v, mode):
    """marker-like strings as the application would hold them: built at run time (a fresh object: user input, a file)
    or written as a literal in its source (the interned object)"""
    import sys
    if isinstance(v, list):
        return [materialize(x, mode) for x in v]
    if isinstance(v, str) and v in MARKERS:
        return sys.intern(v) if mode == "literal" else "".join(list(v))
    return v


def odd_elem(rnd, typ):
    if rnd.random() < 0.35 and not PLAIN[0]:
        # (not with Tor's echo on: 'Key=DEFAULT' in an event is not distinguishable from the bare key after
        # txtorcon's reply parsing - event decoding is C11/C13's subject)
        return rnd.choice(MARKERS)
    """list elements that are not (non-empty) strings: ints incl. 0, booleans, the empty string;
    on the wire each is str(element), once, in order"""
    k = CT.kind_of(typ)
    if k == "commalist":
        return rnd.choice([0, 0, 80, 443, 9001])
    if k == "portlist":
        return rnd.choice([0, 0, 9001, 9002, 1337, False] + ([] if PLAIN[0] else [""]))
    return rnd.choice([0, 0, 7, False, True] + ([] if PLAIN[0] else ["", ""]))


def gen_elem(rnd, typ):
    if rnd.random() < 0.07:
        return odd_elem(rnd, typ)
    if typ == CT.LINELIST and rnd.random() < 0.15:
        return nasty(rnd, CT.gen_line(rnd))
    k = CT.kind_of(typ)
    if k == "commalist":
        e = CT.gen_csv(rnd, typ, 1)[0]
        return crlf_value(rnd, e) if (not PLAIN[0] and rnd.random() < 0.04) else e
    return CT.gen_port_entry(rnd) if k == "portlist" else CT.gen_line(rnd)


def gen_inplace(rnd, m, n):
    typ = m.types[n]
    cur = m.base(n)
    fuzzy = n in m.fuzzy
    meths = ["append", "append", "extend", "insert"]
    if not fuzzy:
        meths += ["remove", "pop", "pop", "setitem", "setslice"]
    meth = rnd.choice(meths)
    if len(cur) == 1 and meth in ("remove", "pop") and rnd.random() < 0.6:
        meth = "append"                   # emptying is covered, but should not dominate
    invalid = (not fuzzy) and rnd.random() < 0.06
    if meth == "append":
        args = [rnd.choice(cur) if cur and rnd.random() < 0.1 else gen_elem(rnd, typ)]
    elif meth == "extend":
        args = [[gen_elem(rnd, typ) for _ in range(rnd.choice([0, 1, 2, 3]))]]
    elif meth == "insert":
        args = [0 if fuzzy else rnd.randint(0, len(cur)), gen_elem(rnd, typ)]
    elif meth == "remove":
        if cur and not invalid:
            args = [rnd.choice(cur)]
        else:
            args = ["not a member"]
    elif meth == "pop":
        if not cur and not invalid:
            return gen_inplace_simple(rnd, typ)
        r = rnd.random()
        if invalid:
            args = [len(cur) + 2]
        elif r < 0.5:
            args = []
        else:
            args = [rnd.randrange(0, len(cur))]
    elif meth == "setitem":
        if not cur and not invalid:
            return gen_inplace_simple(rnd, typ)
        args = [len(cur) + 1 if invalid else rnd.randrange(-len(cur), len(cur)), gen_elem(rnd, typ)]
    else:
        a = rnd.randint(0, len(cur))
        b = rnd.randint(a, len(cur))
        args = [a, b, [gen_elem(rnd, typ) for _ in range(rnd.choice([0, 0, 1, 2]))]]
    return meth, args


def gen_inplace_simple(rnd, typ):
    return "append", [gen_elem(rnd, typ)]


def c10_table(rnd):
    """every declared type; shapes that bootstrap correctly (C11 reports the others)"""
    table = CT.gen_table(rnd, every_type=True, shapes=("unset", "single", "multi", "multi"))
    for o in table:
        if o["type"] == CT.PORTLINES and len(o["init"]) > 1:
            o["init"] = o["init"][:1]
        if o["type"] in (CT.PORTLINES, CT.LINELIST) and o["default"] is not None and len(o["default"]) < 2:
            o["default"] = None
        if o["type"] in CT.COMMA_TYPES:
            o["default"] = None
            if not o["init"]:             # an empty comma list is viewed as [''] (tolerated by C11): not a base to edit
                o["init"] = CT.gen_values(rnd, o["type"], rnd.choice(["single", "multi"]))
    # in 6 tables of 10 the Boolean options are ones whose names start with 'HiddenService' (Tor lists them in
    # config/names like any other Boolean option; they have nothing to do with the HiddenServices pseudo-option)
    if rnd.random() < 0.6:
        names = list(HS_PREFIXED_BOOLS)
        rnd.shuffle(names)
        for o in table:
            if o["type"] == CT.BOOL and names:
                o["name"] = names.pop()
    return table


INVALID = {CT.BOOLAUTO: ["auto", "True", None, "maybe"], CT.LINELIST: ["not a list", ("a", "tuple"), 7, None]}
for _t in CT.INT_TYPES:
    INVALID[_t] = ["seven", "1.5", None, "12 KB", ""]


def gen_invalid_assign(rnd, m):
    """an assignment whose value the option's declared type cannot validate (int('seven'), a str for a line
    list ...): it must raise and leave the option's value and pending change as they were"""
    cands = [n for n in m.order if m.types[n] in INVALID]
    pend = [n for n in cands if n in m.pending]
    n = rnd.choice(pend) if pend and rnd.random() < 0.6 else rnd.choice(cands)
    v = rnd.choice(INVALID[m.types[n]])
    return {"op": "assign", "name": CT.anycase(rnd, n), "opt": n, "value": list(v) if isinstance(v, tuple) else v,
            "invalid": True, "tuple": isinstance(v, tuple)}


def gen_edit(rnd, m, exclude_assigned_inflight=()):
    names = m.order
    if rnd.random() < 0.07:
        return gen_invalid_assign(rnd, m)
    for _ in range(50):
        n = rnd.choice(names)
        k = m.kind(n)
        listy = k != "scalar"
        pend = m.pending.get(n)
        if listy and rnd.random() < 0.7:
            if pend and pend[0] == "inplace" and n in m.shadow and n not in exclude_assigned_inflight:
                # a CONF_CHANGED replaced the view while this option's in-place edit is pending: the application goes
                # on editing the list object it holds - that object IS the pending value
                meth, args = gen_inplace(rnd, m, n)
                return {"op": "inplace", "name": CT.anycase(rnd, n), "opt": n, "method": meth, "args": args, "held": True}
            if (pend and pend[0] == "assign") or n in exclude_assigned_inflight or n in m.shadow:
                continue                      # leniency L: no in-place on a pending whole-value assignment (also when a
                #                               CONF_CHANGED came meanwhile: a fresh read returns Tor's list, not the pending one)
            meth, args = gen_inplace(rnd, m, n)
            return {"op": "inplace", "name": CT.anycase(rnd, n), "opt": n, "method": meth, "args": args}
        if k == "commalist" and rnd.random() < 0.3:
            continue
        return {"op": "assign", "name": CT.anycase(rnd, n), "opt": n, "value": gen_assign_value(rnd, m.types[n])}
    raise RuntimeError("no edit found")


def gen_assign_from(rnd, m, other=None):
    """X = <view of another list option Y of the same kind> (Y of this or of another TorConfig)"""
    names = list(m.order)
    rnd.shuffle(names)
    for x in names:
        if m.kind(x) == "scalar":
            continue
        ys = [y for y in m.order if y != x and m.kind(y) == m.kind(x)
              and not (y in m.pending and m.pending[y][0] == "assign") and y not in m.shadow]
        if not ys:
            continue
        y = rnd.choice(ys)
        if other is None:
            other = rnd.random() < 0.25
        if other and rnd.random() < 0.3:
            y = x if not (x in m.pending and m.pending[x][0] == "assign") else y
        return {"op": "assign", "name": CT.anycase(rnd, x), "opt": x,
                "from": {"opt": y, "name": CT.anycase(rnd, y), "other": bool(other)}}
    return None


def gen_inplace_on(rnd, m, n):
    meth, args = gen_inplace(rnd, m, n)
    return {"op": "inplace", "name": CT.anycase(rnd, n), "opt": n, "method": meth, "args": args}


def gen_alias_case(rnd, table):
    """assign a value read from another option, save, then edit target and source in place"""
    m = Model(table)
    steps = []

    def add(st):
        m.edit(st)
        steps.append(st)

    def save(rep="ok"):
        steps.append({"op": "save", "reply": rep})
        if rep == "ok":
            m.ack(dict(m.pending))
    for _ in range(rnd.choice([0, 0, 1, 2])):
        add(gen_edit(rnd, m))
    af = gen_assign_from(rnd, m)
    x, y, other = af["opt"], af["from"]["opt"], af["from"]["other"]
    if not other and not (y in m.pending) and rnd.random() < 0.3:
        add(gen_inplace_on(rnd, m, y))
    add(af)
    if rnd.random() < 0.2:
        save(rnd.choice([513, 552]))
    save()
    order = rnd.choice([[x], [x, y], [y, x], [x, x], [y]])
    for n in order:
        if n in m.pending and m.pending[n][0] == "assign":
            continue
        add(gen_inplace_on(rnd, m, n))
        if rnd.random() < 0.5:
            save()
    save()
    if rnd.random() < 0.5:
        n = rnd.choice([x, y])
        add(gen_inplace_on(rnd, m, n))
        save()
    return steps


def gen_repeat_overlap(rnd, table):
    """4-5 back-to-back saves before Tor answers the first, one option going a, b, c, b[, c]: SETCONF lines that are
    still queued repeat byte for byte; each save still owes Tor its own SETCONF"""
    m = Model(table)
    steps = []
    for _ in range(rnd.choice([0, 0, 1, 2])):
        st = gen_edit(rnd, m)
        m.edit(st)
        steps.append(st)
    n = rnd.choice([x for x in m.order if m.kind(x) == "scalar" and m.types[x] != CT.BOOL])
    vals, seen = [], {m.view[n]}
    for _ in range(200):
        v = _gen_assign_value(rnd, m.types[n])
        if validated(m.types[n], v) not in seen:
            seen.add(validated(m.types[n], v))
            vals.append(v)
        if len(vals) == 3:
            break
    if len(vals) < 3:
        return None
    a, b, c = vals
    seq = rnd.choice([[a, b, c, b], [a, b, c, b], [a, b, a, b], [a, b, c, b, c], [a, b, c, a, b]])

    def asg(v):
        st = {"op": "assign", "name": CT.anycase(rnd, n), "opt": n, "value": v}
        m.edit(st)
        return st
    steps.append(asg(seq[0]))
    saves, snaps = [], []
    allok = rnd.random() < 0.7
    for i in range(len(seq)):
        snaps.append(dict(m.pending))
        eds = [asg(seq[i + 1])] if i + 1 < len(seq) else []
        saves.append({"reply": "ok" if allok else rnd.choice(["ok", "ok", 513]), "edits_after": eds})
    steps.append({"op": "overlap", "saves": saves})
    for sv, snap in zip(saves, snaps):
        if sv["reply"] == "ok":
            m.ack(snap)
    steps.append({"op": "save", "reply": "ok"})
    return steps


def gen_overlap_case(rnd, table):
    if rnd.random() < 0.15:
        steps = gen_repeat_overlap(rnd, table)
        if steps:
            return steps
    m = Model(table)
    steps = []

    def edits(lo, hi):
        out = []
        for _ in range(rnd.randint(lo, hi)):
            st = gen_assign_from(rnd, m) if rnd.random() < 0.04 else None
            st = st or gen_edit(rnd, m)
            m.edit(st)
            out.append(st)
        return out
    aba = None
    if rnd.random() < 0.25:
        # one option goes A -> (save) -> B -> (save) -> A while both saves are outstanding
        n = rnd.choice([x for x in m.order if m.kind(x) == "scalar"])
        for _ in range(30):
            a, b = gen_assign_value(rnd, m.types[n]), gen_assign_value(rnd, m.types[n])
            if validated(m.types[n], a) != validated(m.types[n], b) and validated(m.types[n], a) != m.view[n]:
                aba = (n, a, b)
                break
    laba = None
    only_inplace = rnd.random() < 0.5
    want_laba = not aba and rnd.random() < 0.25
    if want_laba and not only_inplace:
        steps.extend(edits(1, 3))
    if want_laba:
        # a list goes S1 -> (save) -> S2 -> (save) -> S1 by in-place operations only
        cands = [x for x in m.order if m.kind(x) != "scalar" and x not in m.fuzzy
                 and not (x in m.pending and m.pending[x][0] == "assign")]
        n = rnd.choice(cands)
        e = gen_elem(rnd, m.types[n])
        cur = m.base(n)
        kind = rnd.choice(["append-pop-append", "pop-append-pop", "insert-remove-insert", "setitem"])
        if kind == "append-pop-append" or not cur:
            ops = [("append", [e]), ("pop", []), ("append", [e])]
        elif kind == "pop-append-pop":
            ops = [("pop", []), ("append", [cur[-1]]), ("pop", [])]
        elif kind == "insert-remove-insert":
            i = rnd.randint(0, len(cur))
            e = "only-once " + str(e)
            ops = [("insert", [i, e]), ("remove", [e]), ("insert", [i, e])]
        else:
            i = rnd.randrange(len(cur))
            ops = [("setitem", [i, e]), ("setitem", [i, cur[i]]), ("setitem", [i, e])]
        laba = [{"op": "inplace", "name": CT.anycase(rnd, n), "opt": n, "method": mth, "args": a} for mth, a in ops]
    if not want_laba:
        steps.extend(edits(1, 3))
    if laba:
        m.edit(laba[0])
        steps.append(laba[0])
    if aba:
        st = {"op": "assign", "name": CT.anycase(rnd, aba[0]), "opt": aba[0], "value": aba[1]}
        m.edit(st)
        steps.append(st)
    for _ in range(5):
        if m.must():
            break
        steps.extend(edits(1, 1))
    nsaves = rnd.choice([2, 2, 2, 3])
    saves = []
    snaps = []

    def reassign():
        """assign again an option that an outstanding save carries: to the value in flight, or to another one"""
        cands = [n for sn in snaps for n in sn if m.kind(n) == "scalar"]
        if not cands:
            return []
        n = rnd.choice(cands)
        typ = m.types[n]
        carried = [sn[n][1] for sn in snaps if n in sn]
        for _ in range(20):
            v = gen_assign_value(rnd, typ)
            same = validated(typ, v) in carried
            if same == (rnd.random() < 0.6):
                break
        st = {"op": "assign", "name": CT.anycase(rnd, n), "opt": n, "value": v}
        m.edit(st)
        return [st]
    for i in range(nsaves):
        snaps.append(dict(m.pending))
        last = i == nsaves - 1
        eds = edits(0, 1) if last else edits(1, 2)
        if laba:
            eds = [] if only_inplace else [e for e in eds if e["opt"] != laba[0]["opt"]]
            if i < 2:
                m.edit(laba[i + 1])
                eds.append(laba[i + 1])
        if aba and i < 2:
            st = {"op": "assign", "name": CT.anycase(rnd, aba[0]), "opt": aba[0], "value": aba[2 if i == 0 else 1]}
            m.edit(st)
            eds.append(st)
        elif rnd.random() < 0.3:
            eds += reassign()
        saves.append({"reply": rnd.choice(["ok", "ok", 513, 552]), "edits_after": eds})
    steps.append({"op": "overlap", "saves": saves})
    for sv, snap in zip(saves, snaps):
        if sv["reply"] == "ok":
            m.ack(snap)
    steps.extend(edits(0, 2))
    steps.append({"op": "save", "reply": "ok"})
    return steps


def gen_foreign_event(rnd, m, table):
    """another controller changed 1-3 options: CONF_CHANGED; preferably options with a pending local change"""
    pend = [o for o in table if o["name"] in m.pending]
    opts = rnd.sample(pend, min(len(pend), rnd.choice([1, 1, 2]))) if pend and rnd.random() < 0.7 else []
    opts += [o for o in rnd.sample(table, rnd.choice([0, 1, 2])) if o not in opts]
    if not opts:
        opts = [rnd.choice(table)]
    items = []
    for o in opts:
        pv = m.pending.get(o["name"])
        if pv and pv[0] == "inplace" and isinstance(pv[1], list) and pv[1] and rnd.random() < 0.4 \
                and set(vfeat(pv[1]).split("+")) <= {"", "zero-or-false-element"}:
            # the other controller made the very change that is pending here
            w = wire(pv[1])
            items += [[o["name"], ",".join(w)]] if CT.kind_of(o["type"]) == "commalist" else [[o["name"], v] for v in w]
            continue
        vals = CT.gen_values(rnd, o["type"], rnd.choice(["unset", "single", "multi", "multi"]))
        if CT.kind_of(o["type"]) == "commalist" and not vals:
            vals = CT.gen_values(rnd, o["type"], "single")
        items += [[o["name"], v] for v in vals] or [[o["name"], None]]
    return {"op": "event", "items": items}


def gen_reply(rnd):
    r = rnd.random()
    return "ok" if r < 0.68 else (513 if r < 0.84 else 552)


def gen_case(rnd, mode):
    table = c10_table(rnd)
    if mode == "alias":
        return {"mode": mode, "table": table, "steps": gen_alias_case(rnd, table)}
    if mode == "overlap":
        return {"mode": mode, "table": table, "steps": gen_overlap_case(rnd, table)}
    echo = rnd.choice([False, False, "after", "before"]) if mode == "seq" else False
    PLAIN[0] = bool(echo)
    m = Model(table, echo=echo)
    steps = []
    if mode == "midack":
        for _ in range(rnd.choice([0, 1, 1, 2, 3])):
            st = gen_edit(rnd, m)
            m.edit(st)
            steps.append(st)
        if not m.must():
            for _ in range(5):
                st = gen_edit(rnd, m)
                m.edit(st)
                steps.append(st)
                if m.must():
                    break
        inflight = dict(m.pending)
        assigned = [n for n, hv in inflight.items() if hv[0] == "assign"]
        ed = gen_edit(rnd, m, exclude_assigned_inflight=assigned)
        # in a third of the cases the edit made while the SETCONF is in flight is aimed at a list that is itself in
        # flight as an in-place edit, and keeps its length (item replacement): 'not edited since' cannot be told
        # from the length
        same_len = [n for n, hv in inflight.items() if hv[0] == "inplace" and n not in m.shadow and n not in m.fuzzy
                    and m.kind(n) != "scalar" and len(m.base(n)) > 0]
        if same_len and rnd.random() < 0.35:
            n = rnd.choice(same_len)
            ed = {"op": "inplace", "name": CT.anycase(rnd, n), "opt": n, "method": "setitem",
                  "args": [rnd.randrange(-len(m.base(n)), len(m.base(n))), gen_elem(rnd, m.types[n])],
                  "same_length_on_inflight_list": True}
        reply = rnd.choice(["ok", "ok", "ok", 513])
        steps.append({"op": "save_edit_ack", "reply": reply, "edit": ed})
        m.edit(ed)
        if reply == "ok":
            m.ack(inflight)
        for _ in range(rnd.choice([0, 0, 1, 2])):
            st = gen_edit(rnd, m)
            m.edit(st)
            steps.append(st)
        steps.append({"op": "save", "reply": "ok"})
        return {"mode": mode, "table": table, "steps": steps}
    nsteps = rnd.choice([2, 3, 4, 5, 6, 8, 10, 11])
    burst = rnd.random() < 0.35
    for i in range(nsteps):
        if (not burst or i >= 5) and i > 0 and rnd.random() < 0.33:
            rep = gen_reply(rnd)
            steps.append({"op": "save", "reply": rep})
            if rep == "ok":
                m.ack(dict(m.pending))
        elif rnd.random() < 0.12:
            st = gen_foreign_event(rnd, m, table)
            m.event(st["items"])
            steps.append(st)
            cands = [n for n in sorted({k for k, _ in st["items"]})
                     if n in m.shadow and m.pending[n][0] == "inplace"]
            if cands and rnd.random() < 0.7:
                n = rnd.choice(cands)
                meth, args = gen_inplace(rnd, m, n)
                st = {"op": "inplace", "name": CT.anycase(rnd, n), "opt": n, "method": meth, "args": args, "held": True}
                m.edit(st)
                steps.append(st)
        else:
            st = gen_assign_from(rnd, m) if rnd.random() < 0.06 else None
            st = st or gen_edit(rnd, m)
            m.edit(st)
            steps.append(st)
    steps.append({"op": "save", "reply": "ok"})
    return {"mode": mode, "table": table, "steps": steps, "echo": echo}


# ---------------------------------------------------------------------------
# execution + oracle

class Stop(Exception):
    pass


def vfeat(v):
    """structural features of a value (or list of values) that matter for the wire encoding"""
    vals = [str(x) for x in v] if isinstance(v, list) else [str(v)]
    f = set()
    if isinstance(v, list) and "" in vals:
        f.add("empty-string-element")
    if isinstance(v, list) and any(x in ("0", "False") for x in vals):
        f.add("zero-or-false-element")
    if "DEFAULT" in vals:
        f.add("equals-DEFAULT")
    for x in vals:
        if '"' in x:
            f.add("dquote")
        if "\\" in x:
            f.add("backslash")
        if "\t" in x:
            f.add("tab")
        if x != x.strip(" "):
            f.add("edge-blank")
        if "\n" in x or "\r" in x:
            core = x.rstrip("\r\n")
            f.add("trailing-cr-or-lf" if ("\n" not in core and "\r" not in core) else "cr-or-lf")
        for i, ch in enumerate(x):
            if (ord(ch) < 0x20 and ch not in "\t\r\n") or ord(ch) == 0x7f:
                f.add("ctrl-then-octal-digit" if x[i + 1:i + 2] and x[i + 1] in "01234567" else "ctrl")
    return "+".join(sorted(f))


def line_class(expected):
    """class of a whole SETCONF line: the encoding-relevant features of the pending values"""
    f = set()
    for hv in expected.values():
        f.update(x for x in vfeat(hv[1]).split("+") if x)
    return "values:" + ("+".join(sorted(f)) or "plain")


def tor_busy(link):
    return bool(link.tor.inbox or link.tor.outbox)


class Run(object):
    def __init__(self, case, rec):
        self.case = case
        self.rec = rec
        self.m = Model(case["table"], echo=case.get("echo") or False)
        self.rejected_before = False
        self.decoded = 0
        self.overlap_tag = None
        self.marker_steps = 0
        self.default_modes = set()   # how elements / values equal to 'DEFAULT' were built in this case
        self.held = {}               # option -> the list object the application got at its last in-place edit
        self.evented = set()         # options that had a pending local change when a CONF_CHANGED named them
        self.failed_assign = set()   # options that had a pending change when an assignment to them failed validation
        self.other = None            # a second, never edited TorConfig over the same table (source of values)
        self.spelling = {}           # integer-typed option -> int_spelling() of the value its pending assignment was given

    def V(self, clause, cls, detail):
        self.rec.violation(clause, cls, detail, self.case)
        raise Stop()

    def cls(self, n, *extra):
        parts = [self.m.kind(n) if self.overlap_tag else self.m.klass(n)]
        if n in self.m.pending:
            parts.append(self.m.pending[n][0])
        parts.extend(extra)
        if hs_prefixed(n):
            parts.append("name-starts-with-HiddenService")
        if n in self.m.pending and self.spelling.get(n):
            parts.append("assigned-as-" + self.spelling[n])
        if "equals-DEFAULT" in parts and self.default_modes:
            parts.append("built:" + "/".join(sorted(self.default_modes)))
        if n in self.failed_assign:
            parts.append("after-failed-assignment")
        if n in self.evented:
            parts.append("after-conf-changed-for-it")
        if self.m.echo:
            parts.append("echo-" + self.m.echo)
        if self.overlap_tag:
            parts.append("after-" + self.overlap_tag)
        elif self.rejected_before:
            parts.append("after-rejection")
        return "+".join(parts)

    def marker_mode(self, st):
        """literal for every third step that carries a marker-like string, run-time built otherwise (deterministic)"""
        txt = repr(st.get("value")) + repr(st.get("args"))
        if not any(repr(mk) in txt for mk in set(MARKERS)):
            return "runtime"
        import zlib
        self.marker_steps += 1
        mode = st.get("markers") or ("literal" if zlib.crc32(txt.encode("latin1", "replace")) % 3 == 0 else "runtime")
        self.rec.count("marker_like_values_" + mode)
        if "'DEFAULT'" in txt:
            self.default_modes.add(mode)
        return mode

    # -- one edit on the real object ------------------------------------------
    def do_edit(self, st, cfg, link, where="between-saves"):
        n0 = len(link.transport.writes)
        exc = None
        odd = ""
        try:
            if st["op"] == "assign" and st.get("from"):
                src = cfg
                if st["from"]["other"]:
                    if self.other is None:
                        self.other = CT.boot(self.case["table"])[0]
                    src = self.other
                setattr(cfg, st["name"], getattr(src, st["from"]["name"]))     # the very object the view returned
                self.rec.count("assigned_from_other_option")
            elif st["op"] == "assign" and st.get("invalid"):
                v = tuple(st["value"]) if st.get("tuple") else st["value"]
                self.rec.count("invalid_assignments")
                if st["opt"] in self.m.pending:
                    self.rec.count("invalid_assignments_on_pending_option")
                    self.failed_assign.add(st["opt"])
                try:
                    setattr(cfg, st["name"], v)
                except (ValueError, TypeError) as e:
                    exc = e
                else:
                    self.V("invalid-value-accepted", self.m.klass(st["opt"]), {"step": st})
            elif st["op"] == "assign":
                v = materialize(st["value"], self.marker_mode(st))
                if self.m.types[st["opt"]] in CT.INT_TYPES:
                    odd = int_spelling(v)
                    if odd:
                        self.rec.count("odd_int_spellings_assigned")
                        self.rec.seen("int_spellings", odd)
                if hs_prefixed(st["opt"]):
                    self.rec.count("hiddenservice_prefixed_assignments")
                setattr(cfg, st["name"], list(v) if isinstance(v, list) else v)
            else:
                if st.get("held") and st["opt"] in self.held:
                    lst = self.held[st["opt"]]          # the object obtained at the previous in-place edit
                    self.rec.count("held_object_edits")
                else:
                    lst = getattr(cfg, st["name"])
                self.held[st["opt"]] = lst
                a = materialize(st["args"], self.marker_mode(st))
                meth = st["method"]
                if meth == "setitem":
                    lst[a[0]] = a[1]
                elif meth == "setslice":
                    lst[a[0]:a[1]] = list(a[2])
                elif meth == "extend":
                    lst.extend(list(a[0]))
                else:
                    getattr(lst, meth)(*a)
                self.rec.count("inplace_ops")
        except (ValueError, IndexError, TypeError) as e:
            exc = e
        except Exception as e:
            self.V("edit-raised-" + type(e).__name__, self.m.klass(st["opt"]) + "+" + st["op"], {"step": st, "exc": repr(e)})
        refused = exc is not None and st["op"] == "assign" and not st.get("invalid") and not st.get("from") \
            and "cr-or-lf" in vfeat(st["value"])
        if odd and exc is not None and not st.get("invalid") and isinstance(exc, (ValueError, TypeError)):
            # a legitimate answer to a bool / float / padded or signed numeric string for an integer-typed option:
            # refused at assignment, value and pending change stay as they were
            self.rec.count("odd_int_spellings_refused_at_assignment")
            refused = True
        elif refused:
            self.rec.count("crlf_values_refused_at_assignment")      # a legitimate answer to a value with CR / LF
        if not refused:
            self.m.edit(st)
            if st["op"] == "assign" and not st.get("invalid"):       # (a failed assignment leaves the pending one)
                if odd:
                    self.spelling[st["opt"]] = odd
                else:
                    self.spelling.pop(st["opt"], None)
        self.rec.count("quiet_checks")
        self.rec.count("edits_applied")
        if exc is not None:
            self.rec.count("edits_that_raised")
        if where == "between-saves":
            link.pump()           # nothing may be in flight either
        if len(link.transport.writes) != n0 or (where == "between-saves" and tor_busy(link)):
            self.V("write-" + where, self.m.klass(st["opt"]) + "+" + st["op"],
                   {"step": st, "written": b"".join(d for _, d in link.transport.writes[n0:])})
        if self.m.must() and not cfg.needs_save():
            n = sorted(self.m.must())[0]
            self.V("needs-save-false-with-pending-change", self.cls(n), {"step": st, "pending": self.m.must()})

    # -- save ------------------------------------------------------------------
    def start_save(self, cfg, tor, link, reply):
        del tor.scripted[:]
        if reply != "ok":
            tor.script("SETCONF", (reply, [("end", REJECTIONS[reply])]))
        n0 = len(link.transport.writes)
        out = []
        try:
            d = cfg.save()
            d.addBoth(out.append)
        except Exception as e:
            self.V("save-raised", "general", {"exc": repr(e)})
        data = b"".join(x for _, x in link.transport.writes[n0:])
        return out, data

    def judge_wire(self, data, expected, tor, optional=()):
        """the bytes one save() wrote vs the reference pending set `expected`; options in `optional`
        (already carried by an earlier, still unanswered SETCONF) may or may not be named again"""
        m = self.m
        self.last_groups = {}
        expected = {n: (hv[0], wire(hv[1]), hv[2]) for n, hv in expected.items()}
        must = {n: hv for n, hv in expected.items() if hv[1] != wire(m.view[n]) and n not in optional}
        any_n = sorted(must)[0] if must else (sorted(expected)[0] if expected else None)
        if not expected:
            self.rec.count("empty_save_checks")
            if data:
                self.V("save-without-changes-wrote", "nothing-pending", {"written": data})
            return False
        if not data:
            if must:
                n = sorted(must)[0]
                clause = "emptied-list-not-cleared" if must[n][1] == [] else "changed-option-missing"
                self.V(clause, self.cls(n) if clause != "emptied-list-not-cleared" else m.kind(n),
                       {"written": data, "must": must})
            return False
        if not data.endswith(b"\r\n") or data.count(b"\r\n") != 1:
            self.V("save-wrote-%s-lines" % ("several" if data.count(b"\r\n") > 1 else "partial"), line_class(expected),
                   {"written": data, "pending": expected})
        line = data[:-2].decode("latin1")
        if "\n" in line or "\r" in line:
            # Tor ends a command at LF: this is more than one line, whatever the fake Tor's framing made of it
            self.V("save-wrote-several-lines", line_class(expected), {"written": data})
        word, _, rest = line.partition(" ")
        if word.upper() != "SETCONF":
            self.V("not-a-setconf", line_class(expected), {"line": line})
        try:
            items = kvline.parse(rest)
        except kvline.KvError as e:
            self.V("setconf-unparseable", line_class(expected), {"line": line, "err": str(e)})
        self.rec.count("setconf_lines_decoded")
        self.rec.count("setconf_items_decoded", len(items))
        self.decoded += 1
        groups = {}
        for k, v in items:
            c = tor.conf.canon(k)
            if c is None or c not in m.types:
                self.V("setconf-unknown-option", line_class(expected), {"line": line, "key": k})
            groups.setdefault(c, []).append(v)
        self.rec.seen("options_per_setconf", str(len(groups)))
        self.last_groups = groups
        for c, vals in groups.items():
            if c not in expected:
                self.V("unchanged-option-sent", m.klass(c), {"line": line, "option": c, "pending": sorted(expected)})
            how, want = expected[c][:2]
            kind = m.kind(c)
            if kind == "scalar":
                if len(vals) != 1:
                    self.V("scalar-sent-%d-times" % len(vals), self.cls(c), {"line": line, "option": c})
                if vals[0] != want:
                    self.V("scalar-value", self.cls(c, *filter(None, [vfeat(want)])),
                           {"line": line, "option": c, "want": want, "got": vals[0]})
            else:
                if kind == "commalist" and want != []:
                    # an empty comma list may be viewed as [''] (C11 leniency): empty items carry nothing
                    vals = [v for v in vals if v not in (None, "")]
                    want = [v for v in want if v != ""] or want
                if want == []:
                    if vals not in ([None], [""]):
                        self.V("emptied-list-not-cleared", kind, {"line": line, "option": c, "got": vals})
                elif vals != want and not (kind == "commalist" and vals == [",".join(want)]):
                    if "DEFAULT" in want and [x for x in want if x != "DEFAULT"] == vals:
                        self.V("list-elements", "element-equals-DEFAULT+built:" + ("literal" if "literal" in self.default_modes else "runtime"),
                               {"line": line, "option": c, "want": want, "got": vals})
                    clause = "list-elements"
                    if sorted(map(str, vals)) == sorted(want):
                        clause = "list-order"
                    self.V(clause, self.cls(c, *filter(None, [vfeat(want)])),
                           {"line": line, "option": c, "want": want, "got": vals})
            self.rec.count("options_compared")
            if hs_prefixed(c):
                self.rec.count("hiddenservice_prefixed_options_decoded")
            if kind == "scalar" and self.spelling.get(c) and c in m.pending and m.pending[c][2] == expected[c][2]:
                self.rec.count("odd_int_spellings_decoded")
            self.rec.seen("kinds_delivered", m.klass(c) + "/" + how)
            if vfeat(want):
                self.rec.count("escaped_values_decoded")
                if "cr-or-lf" in vfeat(want):
                    self.rec.count("crlf_values_decoded")
                self.rec.seen("value_features", vfeat(want))
        for c in sorted(must):
            if c not in groups:
                if isinstance(must[c][1], list) and must[c][1] and set(must[c][1]) == {"DEFAULT"}:
                    self.V("list-elements", "element-equals-DEFAULT+built:" + ("literal" if "literal" in self.default_modes else "runtime"),
                           {"line": line, "option": c, "want": must[c][1], "got": []})
                if must[c][1] == []:
                    self.V("emptied-list-not-cleared", m.kind(c), {"line": line, "option": c})
                self.V("changed-option-missing", self.cls(c), {"line": line, "option": c, "want": must[c][1]})
        return True

    def after_ack(self, cfg, tor, link, out, reply, delivered, rnd_names):
        m = self.m
        if len(out) != 1:
            self.V("save-deferred-fired-%d-times" % len(out), "reply-" + str(reply), {})
        from twisted.python.failure import Failure
        failed = isinstance(out[0], Failure)
        self.rec.count("save_outcomes_seen")
        if reply == "ok":
            self.rec.count("saves_accepted")
            if failed:
                self.V("accepted-save-failed", "general", {"err": repr(out[0].value)})
            # the store now holds what was delivered (sanity of decode == store semantics)
            for n, (how, want, _ser) in delivered.items():
                want = wire(want)
                if m.kind(n) == "commalist" or "" in want:
                    continue              # ('' element: "Key=" is a clear in Tor's grammar; judged on the wire only)
                if want == wire(m.view[n]):
                    continue              # no-op change: naming it was optional
                got = tor.conf.get(n)
                wl = want if isinstance(want, list) else [want]
                if got != wl:
                    self.V("store-differs-from-pending", self.cls(n), {"option": n, "store": got, "want": wl})
            m.ack(delivered)
            self.failed_assign -= set(delivered)
            self.evented -= set(delivered)
            if cfg.needs_save() and not m.pending:
                self.V("needs-save-true-after-ack", ("echo-" + m.echo) if m.echo else "general",
                       {"unsaved": repr(dict(cfg.unsaved))[:300]})
            # reads return the saved values (= the store)
            for n in delivered:
                if m.kind(n) == "commalist" or (isinstance(m.view[n], list) and "" in wire(m.view[n])):
                    continue
                if n in m.pending:
                    continue
                try:
                    read = getattr(cfg, rnd_names.get(n, n))
                except Exception as e:
                    self.V("read-raised", m.klass(n), {"option": n, "exc": repr(e)})
                store = tor.conf.get(n) or list(m.defaults.get(n) or [])     # unset => Tor uses the default
                self.rec.count("reads_compared")
                if m.kind(n) == "scalar":
                    ok, why = CT.read_matches(read, m.types[n], store, None)
                    if not ok and (why == "type" or (store and str(read) == store[-1])):
                        ok = True         # value types are C11's subject
                    if not ok and store == ["DEFAULT"]:
                        self.V("read-after-ack", "scalar-value-equals-DEFAULT", {"option": n, "read": repr(read), "store": store})
                    if not ok:
                        self.V("read-after-ack", (m.kind(n) + "+after-" + self.overlap_tag) if self.overlap_tag else m.klass(n),
                               {"option": n, "read": repr(read), "store": store})
                else:
                    got = [str(x) for x in read] if isinstance(read, list) else None
                    if got is not None and got != store:
                        got = [x for x in got if x != "DEFAULT"] if "DEFAULT" not in store else got
                    # a cleared option falls back to Tor's default: [] and the default are both "the saved value"
                    if got != store and not (got == [] and delivered[n][1] == []):
                        self.V("read-after-ack", m.klass(n) + "+" + delivered[n][0],
                               {"option": n, "read": repr(read), "store": store})
        else:
            self.rec.count("saves_rejected")
            self.rejected_before = True
            if not failed:
                self.V("rejected-save-succeeded", "reply-%s" % reply, {})
            if m.must() and not cfg.needs_save():
                n = sorted(m.must())[0]
                self.V("pending-lost-after-rejection", m.klass(n) + "+" + m.pending[n][0],
                       {"pending": {k: v[1] for k, v in m.must().items()}})

    def second_save(self, cfg, tor, link):
        """nothing pending => a further save writes nothing"""
        n0 = len(link.transport.writes)
        try:
            cfg.save()
        except Exception as e:
            self.V("save-raised", "nothing-pending", {"exc": repr(e)})
        link.pump()
        self.rec.count("second_save_checks")
        if len(link.transport.writes) != n0:
            self.V("second-save-wrote", "nothing-pending",
                   {"written": b"".join(d for _, d in link.transport.writes[n0:])})

    def foreign_event(self, st, cfg, tor, link):
        """CONF_CHANGED for another controller's change: nothing is written, nothing becomes or stops being pending"""
        m, rec = self.m, self.rec
        had = set(m.pending)
        n0 = len(link.transport.writes)
        changed = tor.external_change([(k, v) for k, v in st["items"]])
        link.pump()
        m.event([it for it in st["items"] if it[0] in changed])      # Tor announces only what really changed
        rec.count("foreign_events")
        names = sorted({k for k, _ in st["items"]})
        on_pending = [n for n in names if n in had and n in changed]
        if on_pending:
            rec.count("foreign_events_on_pending_option")
            self.evented.update(on_pending)
        kinds = "+".join(sorted({m.kind(n) + ("-pending-" + m.pending[n][0] if n in had else "") for n in names}))
        if len(link.transport.writes) != n0:
            self.V("write-on-conf-changed", kinds, {"written": b"".join(d for _, d in link.transport.writes[n0:])})
        if m.must() and not cfg.needs_save():
            self.V("pending-lost-on-conf-changed", kinds, {"pending": {k: v[1] for k, v in m.must().items()}})
        if not m.pending and cfg.needs_save():
            self.V("conf-changed-made-option-pending", kinds, {"unsaved": repr(dict(cfg.unsaved))[:300]})
        if link.exceptions:
            self.V("exception-escaped", kinds, {"exceptions": link.exceptions})

    def overlap(self, st, cfg, tor, link, spell):
        """2-3 save() calls outstanding at once: save, edits, save, [edits, save], [edits]; then Tor answers
        them in order, each accepted or rejected independently"""
        m, rec = self.m, self.rec
        saves = st["saves"]
        pattern = "-".join(str(sv["reply"]) for sv in saves)
        trailing = bool(saves[-1]["edits_after"])
        rec.seen("overlap_patterns", pattern + ("+trailing-edit" if trailing else ""))
        # structural class: was an option assigned, while saves were outstanding, a value equal to one that an
        # outstanding SETCONF carries for it?  (then "what was sent" and "what is pending" are easy to confuse)
        carried, again = {}, False
        mm = Model(self.case["table"])
        mm.view, mm.pending, mm.serial = dict(m.view), dict(m.pending), m.serial
        for sv in saves:
            for n, hv in mm.pending.items():
                carried.setdefault(n, []).append((wire(hv[1]), hv[2]))
            for ed in sv["edits_after"]:
                mm.edit(ed)
                n = ed["opt"]
                if any(w == wire(mm.pending[n][1]) and ser != mm.pending[n][2] for w, ser in carried.get(n, [])):
                    again = True      # assigned / edited back to a value an outstanding SETCONF carries
        if len(saves) >= 4:
            cls = "overlapping-saves+queued-setconf-repeats"
        elif again:
            cls = "overlapping-saves+value-in-flight-assigned-again"
        else:
            cls = "overlapping-saves" + ("+a-save-rejected" if any(sv["reply"] != "ok" for sv in saves) else "") + \
                ("+trailing-edit" if trailing else "")
        self.overlap_tag = cls
        rec.seen("overlap_classes", cls)
        info = []              # per save: expected snapshot, outcome list, optional names
        inflight = {}          # option -> serial carried by an unanswered SETCONF
        del tor.scripted[:]
        nlines0 = len(tor.lines)
        for i, sv in enumerate(saves):
            expected = dict(m.pending)
            optional = {n for n, hv in expected.items() if inflight.get(n) == hv[2]}
            n0 = len(link.transport.writes)
            out = []
            try:
                cfg.save().addBoth(out.append)
            except Exception as e:
                self.V("save-raised", cls, {"exc": repr(e)})
            data = b"".join(x for _, x in link.transport.writes[n0:])
            ent = {"expected": expected, "out": out, "optional": optional, "reply": sv["reply"], "groups": None}
            if i == 0:
                if self.judge_wire(data, expected, tor):
                    ent["groups"] = self.last_groups
            elif data:
                self.V("write-while-save-outstanding", cls, {"written": data})
            info.append(ent)
            for n, hv in expected.items():
                inflight[n] = hv[2]
            for ed in sv["edits_after"]:
                self.do_edit(ed, cfg, link, where="between-save-and-ack")
                spell[ed["opt"]] = ed["name"]
                rec.count("overlap_edits")
        rec.count("overlapping_saves", len(saves))
        # Tor's answers, in order (one scripted entry per SETCONF that will arrive)
        for ent in info:
            if ent["expected"]:
                r = ent["reply"]
                tor.script("SETCONF", None if r == "ok" else (r, [("end", REJECTIONS[r])]))
        link.pump()
        del tor.scripted[:]
        later = [l for l in tor.lines[nlines0:] if l.upper().startswith("SETCONF")]
        if info[0]["groups"] is not None or (info[0]["expected"] and later):
            later = later[1:]          # the first save's own line (already judged)
        waiting = [ent for ent in info[1:] if ent["expected"]]
        if len(later) > len(waiting):
            self.V("save-wrote-several-lines", cls, {"lines": later})
        if len(later) < len(waiting):
            waiting = [ent for ent in waiting
                       if any(hv[1] != m.view[n] and n not in ent["optional"] for n, hv in ent["expected"].items())]
            if len(later) != len(waiting):
                self.V("changed-option-missing", cls, {"lines": later, "saves_with_changes": len(waiting)})
        # acks in order
        li = 0
        for i, ent in enumerate(info):
            if i > 0 and ent in waiting:
                line = later[li]
                li += 1
                if self.judge_wire(line.encode("latin1") + b"\r\n", ent["expected"], tor, ent["optional"]):
                    ent["groups"] = self.last_groups
            out = ent["out"]
            from twisted.python.failure import Failure
            if len(out) != 1:
                self.V("save-deferred-fired-%d-times" % len(out), cls, {"save": i})
            failed = isinstance(out[0], Failure)
            if ent["groups"] is None:
                continue
            rec.count("save_outcomes_seen")
            if ent["reply"] == "ok":
                rec.count("saves_accepted")
                if failed:
                    self.V("accepted-save-failed", cls, {"save": i, "err": repr(out[0].value)})
                m.ack({n: ent["expected"][n] for n in ent["groups"]})
            else:
                rec.count("saves_rejected")
                self.rejected_before = True
                if not failed:
                    self.V("rejected-save-succeeded", cls, {"save": i})
        # what Tor holds now is what the accepted SETCONFs carried, in order
        touched = set()
        for ent in info:
            touched.update(ent["groups"] or ())
        for n in sorted(touched):
            v = m.view[n]
            want = wire(v) if isinstance(v, list) else ([v] if v is not None else [])
            if m.kind(n) == "commalist" or "" in want:
                continue
            got = tor.conf.get(n) or list(m.defaults.get(n) or [])
            if got != want and not (want == [] ):
                self.V("store-differs-from-accepted-saves", cls, {"option": n, "store": got, "want": want})
            if n in m.pending:
                continue                  # still pending: what reads return is not specified
            # nothing pending for it any more: reads return what Tor holds, whatever the order of answers was
            try:
                read = getattr(cfg, spell.get(n, n))
            except Exception as e:
                self.V("read-raised", cls, {"option": n, "exc": repr(e)})
            rec.count("reads_compared")
            rec.count("overlap_reads_compared")
            first_rej = next((i for i, e in enumerate(info) if e["groups"] and n in e["groups"] and e["reply"] != "ok"), None)
            later_ok = first_rej is not None and any(e["groups"] and n in e["groups"] and e["reply"] == "ok"
                                                     for e in info[first_rej + 1:])
            rcls = cls + ("+rejected-then-accepted" if later_ok else "")
            if m.kind(n) == "scalar":
                ok, why = CT.read_matches(read, m.types[n], got, None)
                if not ok and (why == "type" or (got and str(read) == got[-1])):
                    ok = True
                if not ok and got == ["DEFAULT"]:
                    self.V("read-after-ack", "scalar-value-equals-DEFAULT", {"option": n, "read": repr(read), "store": got})
                if not ok:
                    self.V("read-after-ack", "scalar+" + rcls, {"option": n, "read": repr(read), "store": got})
            else:
                rl = [str(x) for x in read] if isinstance(read, list) else None
                if rl is not None and rl != got and "DEFAULT" not in got:
                    rl = [x for x in rl if x != "DEFAULT"]
                if rl != got and not (rl == [] and want == []):
                    self.V("read-after-ack", m.kind(n) + "+" + rcls, {"option": n, "read": repr(read), "store": got})
        must = m.must()
        rec.count("overlap_outcomes_checked")
        if must and not cfg.needs_save():
            self.V("change-lost", cls, {"still_pending_per_reference": {k: v[1] for k, v in must.items()}})
        if not m.pending and cfg.needs_save():
            self.V("needs-save-true-after-ack", cls, {"unsaved": repr(dict(cfg.unsaved))[:300]})
        if not m.pending:
            self.second_save(cfg, tor, link)

    def run(self):
        case, rec, m = self.case, self.rec, self.m
        cfg, fail, proto, tor, link = CT.boot(case["table"], echo=case.get("echo") or False)
        if case.get("echo"):
            rec.seen("echo_modes", case["echo"])
        if cfg is None:
            rec.violation("bootstrap-failed", type(getattr(fail, "value", fail)).__name__,
                          {"failure": str(fail)[:300]}, case)
            return
        spell = {}
        try:
            for st in case["steps"]:
                if st["op"] in ("assign", "inplace"):
                    self.do_edit(st, cfg, link)
                    spell[st["opt"]] = st["name"]
                    continue
                if st["op"] == "overlap":
                    self.overlap(st, cfg, tor, link, spell)
                    continue
                if st["op"] == "event":
                    self.foreign_event(st, cfg, tor, link)
                    continue
                reply = st["reply"]
                expected = dict(m.pending)
                out, data = self.start_save(cfg, tor, link, reply)
                from twisted.python.failure import Failure
                if not data and out and isinstance(out[0], Failure) and "cr-or-lf" in line_class(expected):
                    # refused with an error and nothing sent: acceptable for a value holding CR / LF; the case ends
                    # here (the refused change stays pending, so every later save would be refused again)
                    rec.count("crlf_values_refused_at_save")
                    del tor.scripted[:]
                    raise Stop()
                wrote = self.judge_wire(data, expected, tor)
                if st["op"] == "save_edit_ack":
                    ed = st["edit"]
                    rec.count("midack_edits")
                    if ed.get("same_length_on_inflight_list"):
                        rec.count("midack_same_length_edits_of_a_list_in_flight")
                    if wrote:
                        self.do_edit(ed, cfg, link, where="between-save-and-ack")
                    else:
                        self.do_edit(ed, cfg, link)
                    spell[ed["opt"]] = ed["name"]
                link.pump()
                del tor.scripted[:]
                if not wrote:
                    # nothing was (or had to be) written: only no-op changes can have been pending
                    if expected and reply == "ok":
                        m.ack(expected)
                        if not m.pending:
                            self.second_save(cfg, tor, link)
                    continue
                self.after_ack(cfg, tor, link, out, reply, expected, spell)
                if st["op"] == "save_edit_ack":
                    # the edit made while the save was in flight is a change since the last successful save
                    if m.must() and not cfg.needs_save():
                        self.V("change-lost", "edit-between-save-and-ack",
                               {"edit": st["edit"], "reply": reply, "still_pending_per_reference":
                                {k: v[1] for k, v in m.must().items()}})
                if reply == "ok" and not m.pending:
                    self.second_save(cfg, tor, link)
            if link.exceptions:
                self.V("exception-escaped", "general", {"exceptions": link.exceptions})
        except Stop:
            pass


def run_case(case, rec):
    r = Run(case, rec)
    r.run()
    rec.case(case, nontrivial=r.decoded > 0)
    return r


def run_shard(spec, rec):
    mode = spec["mode"]
    for i in range(spec["n"]):
        rnd = gen.rnd_for(spec["seed"], PROPERTY, spec["shard"], i)
        case = gen_case(rnd, mode)
        run_case(case, rec)
        if i < 2:
            rec.sample({"mode": case["mode"], "steps": case["steps"],
                        "table": ["%s %s" % (o["name"], o["type"]) for o in case["table"]]})


def replay(case, rec):
    run_case(case, rec)


def plan(tier, seed):
    if tier == "quick":
        return [{"mode": "seq", "n": 300} for _ in range(10)] + [{"mode": "midack", "n": 300} for _ in range(2)] + \
            [{"mode": "alias", "n": 300} for _ in range(2)] + [{"mode": "overlap", "n": 300} for _ in range(2)]
    return [{"mode": "seq", "n": 3200, "timeout_s": 3000} for _ in range(26)] + \
           [{"mode": "midack", "n": 3200, "timeout_s": 3000} for _ in range(6)] + \
           [{"mode": "alias", "n": 3200, "timeout_s": 3000} for _ in range(4)] + \
           [{"mode": "overlap", "n": 3200, "timeout_s": 3000} for _ in range(4)]
