"""C18 - choosing a SOCKS port never alters Tor's existing SOCKS listeners.

Workload A (discover-or-add): the real ``_create_socks_endpoint``, ``TorConfig.create_socks_endpoint``,
``TorConfig.socks_endpoint`` and the ``Tor`` methods that funnel into them, run against
FakeTor (vf.faketor.sockstor.SocksStore: Tor's SocksPort option family) for an enumerated
set of existing SocksPort configurations x requested port.  Observed at the boundary: the
SETCONF lines on the control transport (decoded with the reference kvline parser), the
state of FakeTor's config store before/after, and the address the returned endpoint
really connects to (connectTCP/connectUNIX on the fake reactor).

Workload B (fallback): ``TorClientEndpoint(host, port).connect()`` without SOCKS endpoint
under every sequence of connect outcomes on the fake reactor.

No socket is opened: ``available_tcp_port`` runs on FakeReactor.listenTCP.
"""
import itertools

from twisted.internet import protocol
from twisted.internet.interfaces import IStreamClientEndpoint

from .. import audit, gen, wire
from ..faketor import core, sockstor
from ..refs import kvline
from ..refs import reply as R

PROPERTY = "C18"
READY = True
LEVEL = "exploration"
TECHNIQUE = ("runtime monitoring: control-wire recorder + FakeTor config store + fake reactor "
             "(connect/listen doubles), reference kvline decode and reference SocksPort-line reader as "
             "oracle; complete enumeration of SocksPort configurations x request x API and of "
             "connect-outcome sequences")
LEVEL_TEXT = ("Held on the executions observed: every cell of an enumerated table (existing SocksPort "
              "configuration x requested port(s) x public entry point, incl. two-call histories; ~39 000 cells "
              "quick, ~1.5 million thorough) and every connect-outcome sequence of length 2 (quick) / 3 (thorough) "
              "over 27 outcome kinds (incl. SOCKS-level failures and slow answers under virtual time after a successful TCP connect) for the 9050/9150 fallback. Enumeration of the listed forms, not a proof "
              "for other SocksPort spellings; at most one clause is reported per call (root-cause order).")
LEVEL_NOTE = ("Trusted: FakeTor GETCONF/SETCONF semantics for the SocksPort family (vf.faketor.sockstor), "
              "vf.refs.kvline, the reference SocksPort-line reader in sockstor.parse_first, Twisted's "
              "TCP4ClientEndpoint/UNIXClientEndpoint/_WrappingFactory on the fake reactor.")
RULE = ("workload A: a case = (existing SocksPort lines as FakeTor reports them | unset | unset with "
        "__SocksPort, requested port(s): none / first word of an existing entry / absent TCP, host:port, "
        "unix / absent but substring of an existing line / alias spelling, entry point). Distinct = hash "
        "of that tuple. Non-trivial = the call reached a verdict clause (use-existing or add) with at "
        "least the GETCONF answered. Tor-object histories: a Tor owning a loaded TorConfig (ctor / get_config) "
        "whose view diverged from Tor (9 preludes) before the first stream_via/dns_resolve/dns_resolve_ptr/"
        "_default_socks_endpoint/web_agent. workload B: a case = (host, port, sequence of connect outcomes: "
        "success | one of 8 ConnectError classes | 2 non-ConnectError failures | TCP success followed by a SOCKS "
        "error reply 1..8 or a drop before/after the method reply). Two further TorConfig histories per configuration: SocksPort "
        "at a default that Tor lists in config/defaults (from boot / after a bare-key CONF_CHANGED on top of the configuration), "
        "and the configuration arriving by CONF_CHANGED while the bootstrap's GETCONF __SocksPort is outstanding.")
ASSUMPTIONS = [
    "GETCONF SocksPort answers with Tor's spelling 'SocksPort', one line per entry verbatim, bare key when unset; "
    "GETCONF __SocksPort of an unset option answers the bare key (control-spec 3.3)",
    "usable entry = TCP entry (port or IPv4:port) with non-zero port, or unix:path; IPv6 and 'auto' entries may be "
    "used or skipped by correct code; port 0 is not a listener",
    "leniencies: any usable entry may be chosen when none was requested; order of re-listed entries and the position "
    "of the new one are free; option-name spelling is case-insensitive; with SocksPort unset either Tor's built-in 127.0.0.1:9050 is used or a port is added "
    "(re-listing nothing or 9050); TorConfig methods called without a port may raise when the first entry is unusable",
    "requests that alias an existing entry under another spelling (9050 vs 127.0.0.1:9050), that name an IPv6/zero "
    "entry, or that repeat an entry with option words are counted, and judged only on the shape of any SETCONF written",
    "fallback: the reactor reports a connect outcome only after connectTCP returned; after a successful TCP connect "
    "the SOCKS5 dialogue is played (success, error reply REP 1..8 followed by close, close before/after the "
    "method reply); those SOCKS-level failures are not connection errors: no further port, and the failure reported "
    "must not be a ConnectError / an error of another attempt (and must carry the reply code if it has a code)",
    "Tor-object histories: the loaded TorConfig's view is made to differ from Tor only in ways that leave Tor's own "
    "configuration untouched (rejected save, rejected save still in flight, unsaved in-place edit)",
    "overlapping calls (burst: none awaited; hold: FakeTor keeps SETCONF replies back until all calls were made) are "
    "judged at quiescence: each SETCONF against what Tor had when it processed it, endpoints against Tor's final "
    "configuration; a SETCONF that re-lists exactly what Tor has is accepted as a no-op; calls that fail although no "
    "existing entry could serve them are counted only",
    "the white space between the address and the option words of an entry may be TAB(s) or several blanks; FakeTor "
    "reports the line as written and it must be recognised and re-listed like any other",
    "staged edits: the application may have edited the TorConfig object (SocksPort or another option, also with a value "
    "Tor would refuse) without save() when a port Tor already has is asked for: nothing may be written then; when a "
    "later addition flushes that staged option too, the staged option's own key/value is not judged",
    "a unix: entry is a listener whatever its path looks like (colons, a trailing ':0' or ':9050')",
    "SocksPort addresses may be host names (localhost, an FQDN): an endpoint connecting to that name (for localhost also "
    "to a loopback literal) matches; a request for the same port on a literal address is then counted as ambiguous",
    "another controller's change of SocksPort (FakeTor store + CONF_CHANGED) is placed inside the in-flight window of a "
    "refused add, after the refusal, or after an accepted add; following calls are judged against FakeTor's store then",
    "fault injection: FakeTor refuses the next SETCONF(s) with 513/552/553 and changes nothing; a further SETCONF is "
    "tolerated only as a new try after a refused one and must again be 'what Tor has + exactly one new entry'; a call "
    "that fails after a refusal is fine, an endpoint for a refused port is not",
    "a request for the same TCP port number on another (non-wildcard) address than an existing entry names a different "
    "listener (absent); with a wildcard (0.0.0.0/::) entry on that port it is counted as ambiguous",
    "fallback under virtual time: Tor may answer the SOCKS dialogue slowly (29 s .. 1 h of reactor time before the method "
    "reply or the final reply); slowness is not a connection error: no further port, and no ConnectError reported when "
    "the late answer is a success (a late success that is not delivered for another reason is counted, not judged); an "
    "attempt the client abandons itself (stopConnecting) gets no further outcome from the reactor",
    "refusal window: while a create_socks_endpoint() SETCONF is unanswered another controller changes SocksPort "
    "(FakeTor store + CONF_CHANGED to us), then Tor refuses our SETCONF; the following calls are judged against what "
    "FakeTor has then. The refused window call itself is not judged",
    "an API Deferred still pending at quiescence is counted (unresolved), not judged",
    "announced default: a Tor may list SocksPort line(s) in GETINFO config/defaults; while the option is at that default "
    "(GETCONF answers the bare key, control-spec 3.3; from the start, or after another controller's RESETCONF reported by a "
    "CONF_CHANGED with the bare key) those lines are the entries Tor has and told the controller: the TorConfig methods "
    "(the only code path that reads config/defaults) must use / re-list them; the unset-leniency (re-list nothing or "
    "9050) does not apply there. Entry points that never read config/defaults are not generated for this class",
    "bootstrap race: SocksPort is unset when TorConfig bootstraps and another controller sets it between Tor's answers to "
    "GETCONF SocksPort and GETCONF __SocksPort (the CONF_CHANGED reaches us before the second answer); the following "
    "calls are judged against FakeTor's store. Lines that would need quoting in the event are not generated",
]
TRUSTED_BASE = ["vf.faketor.core.FakeTor + vf.faketor.sockstor.SocksStore (SocksPort family, 513 on malformed lines)",
                "vf.refs.kvline", "vf.faketor.sockstor.FakeReactor", "Twisted client endpoints"]
ANCHORS = [
    "txtorcon.endpoints:_create_socks_endpoint",
    "txtorcon.torconfig:_endpoint_from_socksport_line",
    "txtorcon.torconfig:TorConfig.socks_endpoint",
    "txtorcon.torconfig:TorConfig.create_socks_endpoint",
    "txtorcon.endpoints:TorClientEndpoint.connect",
    "txtorcon.endpoints:TorClientEndpoint.__init__",
    "txtorcon.controller:Tor._default_socks_endpoint",
    "txtorcon.controller:Tor.stream_via",
    "txtorcon.util:available_tcp_port",
]
FLOORS = {
    "quick": {"evaluations": 1000, "use_existing_checked": 300, "add_checked": 200, "setconf_decoded": 150,
              "endpoint_targets_compared": 500, "fallback_sequences_judged": 35,
              "fallback_attempts_checked": 60, "fallback_outcomes_compared": 30,
              "fallback_socks_failures_compared": 80, "fallback_slow_successes_judged": 40, "reach:txtorcon.controller:Tor._default_socks_endpoint": 400,
              "overlap_histories_judged": 200, "overlap_setconfs_judged": 250, "refused_setconfs_seen": 150, "window_histories_steps_judged": 120, "staged_edit_steps_judged": 150,
              "announced_default_steps_judged": 150, "bootstrap_race_steps_judged": 25,
              "reach:txtorcon.endpoints:_create_socks_endpoint": 400,
              "reach:txtorcon.endpoints:TorClientEndpoint.connect": 90,
              "reach:txtorcon.torconfig:TorConfig.create_socks_endpoint": 150,
              "reach:txtorcon.torconfig:TorConfig.socks_endpoint": 100},
    "thorough": {"evaluations": 20000, "use_existing_checked": 6000, "add_checked": 4000, "setconf_decoded": 3000,
                 "endpoint_targets_compared": 10000, "fallback_sequences_judged": 250,
                 "fallback_attempts_checked": 450, "fallback_outcomes_compared": 200,
                 "fallback_socks_failures_compared": 800, "overlap_histories_judged": 20000,
                 "announced_default_steps_judged": 150, "bootstrap_race_steps_judged": 25,
                 "reach:txtorcon.endpoints:_create_socks_endpoint": 8000,
                 "reach:txtorcon.endpoints:TorClientEndpoint.connect": 1500},
}

LOCAL_HOSTS = ("127.0.0.1", "localhost", "::1")

FALLBACK_PORTS = (9050, 9150)

# ---------------------------------------------------------------------------
# reference reading of a configuration


def entry_info(line):
    sp = sockstor.split_line(line)
    if sp is None:
        return {"line": line, "first": line, "flags": [], "target": None, "kind": "invalid"}
    first, flags = sp
    t = sockstor.parse_first(first)
    if t is None:
        kind = "invalid"
    elif t[0] == "unix":
        kind = "usable"
    elif t[0] == "auto":
        kind = "optional"
    elif t[2] == 0:
        kind = "zero"
    elif t[0] == "tcp":
        kind = "usable"
    else:
        kind = "optional"       # tcp6
    return {"line": line, "first": first, "flags": flags, "target": t, "kind": kind}


def attempt_of(target):
    """what a client endpoint for this target makes the reactor do"""
    if target is None or target[0] == "auto":
        return None
    if target[0] == "unix":
        return ("unix", target[1])
    return ("tcp", target[1], target[2])


WILDCARD_HOSTS = ("0.0.0.0", "::")


def classify_request(req, infos):
    if req is None:
        return "none", None
    ri = entry_info(req)
    exact = [i for i in infos if i["first"] == ri["first"]]
    sem = [i for i in infos if i["target"] is not None and i["target"] == ri["target"]]
    if ri["flags"]:
        if exact or sem:
            return "ambiguous", ri
        return "absent", ri
    if any(i["kind"] == "usable" for i in exact):
        return "present", ri
    if not exact and not sem:
        rt = ri["target"]
        if rt is not None and rt[0] in ("tcp", "tcp6"):
            same_port = [i for i in infos if i["target"] is not None and i["target"][0] in ("tcp", "tcp6")
                         and i["target"][2] == rt[2] and rt[2] != 0]
            if any(i["target"][1] in WILDCARD_HOSTS for i in same_port) or rt[1] in WILDCARD_HOSTS:
                return "ambiguous", ri        # a wildcard listener also serves the other address
            if any(sockstor.is_host_name(i["target"][1]) for i in same_port) or sockstor.is_host_name(rt[1]):
                return "ambiguous", ri        # a name may resolve to the other address
            if same_port:
                return "absent-same-port", ri  # another address, same port number: a different listener
        if any(req in i["line"] for i in infos):
            return "absent-substring", ri
        return "absent", ri
    return "ambiguous", ri


def config_features(case, infos):
    f = []
    if not infos:
        f.append("unset")
    if case.get("under"):
        f.append("under")
    if any(i["flags"] for i in infos):
        f.append("opts")
    if len(infos) >= 2:
        f.append("multi")
    if any(i["kind"] == "zero" for i in infos):
        f.append("zero")
    if any(i["first"].startswith('unix:"') for i in infos):
        f.append("quoted-unix")
    return f


def family_of(api):
    if api.startswith("torcfg_"):
        return "torobj"
    return "torconfig" if api.startswith("cfg") else "direct"


# ---------------------------------------------------------------------------
# workload A: execution

class _Probe(protocol.Protocol):
    pass


class _ProbeFactory(protocol.Factory):
    protocol = _Probe


def _quiet_twisted_log():
    from twisted.python import log
    try:
        log.defaultObserver.stop()
    except Exception:
        pass


def _reset_singletons():
    import txtorcon.endpoints as ep
    ep._global_tor = None
    try:
        import txtorcon.circuit as circ
        circ._get_circuit_attacher.attacher = None
    except Exception:
        pass


def _settle(link, reactor):
    for _ in range(4):
        link.pump()
        reactor.advance(0)
    link.pump()


def _call(fn, *a, **kw):
    try:
        return ("returned", fn(*a, **kw))
    except Exception as e:      # noqa
        return ("raised", e)


REJECT_TEXT = {
    513: "Unacceptable option value: Failed to bind one of the listener ports.",
    552: "Unrecognized option: Failed to parse/validate config: Failed to bind one of the listener ports.",
    553: "Unable to set option: Failed to bind one of the listener ports.",
}


def _run_prelude(pre, cfg, aud, link, reactor):
    """make the TorConfig object's view of SocksPort differ from what Tor has, without
    changing Tor: a save() Tor rejects (answered, or still in flight when the API is
    called) or an in-place edit that is never saved"""
    kind = pre.get("kind", "none")
    if kind == "none":
        return "in-sync"
    value, edit = pre["value"], pre["edit"]
    try:
        if edit == "replace":
            cfg.SocksPort = [value]
        elif edit == "insert0":
            cfg.SocksPort.insert(0, value)
        elif edit == "set0" and len(cfg.SocksPort):
            cfg.SocksPort[0] = value
        else:
            cfg.SocksPort.append(value)
    except Exception as e:     # noqa
        return "edit-raised:%r" % (e,)
    if kind == "unsaved-edit":
        return "edited"
    o = aud.watch(cfg.save(), "prelude-save")
    if kind == "rejected-save":
        _settle(link, reactor)
        return "save:%s" % (o.describe()[0] if o.fired else "pending",)
    return "save-in-flight"


def _stage_edit(st, cfg):
    """the application edits the TorConfig object and does NOT save(): that edit is staged, Tor knows nothing"""
    try:
        opt, how, value = st["opt"], st["how"], st.get("value")
        if how == "assign":
            setattr(cfg, opt, value)
        elif how == "append":
            getattr(cfg, opt).append(value)
        elif how == "remove-last":
            lst = getattr(cfg, opt)
            if len(lst) < 2:
                return "not-applicable"
            lst.pop()
        return "staged" if cfg.needs_save() else "nothing-staged"
    except Exception as e:     # noqa
        return "edit-raised:%r" % (e,)


OTHER_X, OTHER_Y = "9777 IsolateDestAddr", "unix:/run/tor/other.sock"


def _run_window(win, cfg, tor, aud, link, reactor):
    """create_socks_endpoint(<absent>) whose SETCONF is still unanswered -> another controller changes
    SocksPort (FakeTor's store changes, CONF_CHANGED is delivered to us) -> Tor refuses our SETCONF (5xx,
    nothing applied).  The calls that follow are the steps of the case."""
    when = win.get("when", "in-flight")
    held = []

    def hold(rest):
        held.append(rest)
        return None

    def other_controller():
        had = tor.conf.get("SocksPort")
        if win["change"] == "add":
            now = had + [OTHER_X]
        elif win["change"] == "replace":
            now = [OTHER_X, OTHER_Y]
        elif win["change"] == "remove-first":
            now = had[1:] or [OTHER_Y]
        else:
            now = had + [OTHER_Y, OTHER_X]
        tor.conf.values["SocksPort"] = list(now)
        tor.conf.values["__SocksPort"] = []
        if "CONF_CHANGED" in tor.subscribed:
            tor.outbox += R.encode(650, [("mid", "CONF_CHANGED")] + [("mid", "SocksPort=" + v) for v in now] +
                                   [("end", "OK")])
        _settle(link, reactor)

    if when != "in-flight":
        # the first call is answered at once (refused: 'after-refusal', accepted: 'after-accept'),
        # only THEN the other controller changes SocksPort
        if when == "after-refusal":
            code = win.get("code", 553)
            tor.script("SETCONF", (code, [("end", REJECT_TEXT[code])]))
        res = _call(cfg.create_socks_endpoint, reactor, win["req"])
        o = aud.watch(res[1], "window-call") if res[0] == "returned" else None
        _settle(link, reactor)
        other_controller()
        return "%s:first-call-%s" % (when, "ok" if (o is not None and o.fired and o.ok) else "failed")
    tor.handlers["SETCONF"] = hold
    res = _call(cfg.create_socks_endpoint, reactor, win["req"])
    o = aud.watch(res[1], "window-call") if res[0] == "returned" else None
    _settle(link, reactor)
    if not held:
        del tor.handlers["SETCONF"]
        return "no-setconf-in-flight"
    had = tor.conf.get("SocksPort")
    if win["change"] == "add":
        now = had + [OTHER_X]
    elif win["change"] == "replace":
        now = [OTHER_X, OTHER_Y]
    elif win["change"] == "remove-first":
        now = had[1:] or [OTHER_Y]
    else:
        now = had + [OTHER_Y, OTHER_X]
    tor.conf.values["SocksPort"] = list(now)
    tor.conf.values["__SocksPort"] = []
    if "CONF_CHANGED" in tor.subscribed:
        tor.outbox += R.encode(650, [("mid", "CONF_CHANGED")] + [("mid", "SocksPort=" + v) for v in now] +
                               [("end", "OK")])
    _settle(link, reactor)
    rest = held.pop(0)
    code = win.get("code", 553)
    parts = [("end", REJECT_TEXT[code])]
    tor.replies.append(("SETCONF " + rest, code, parts))
    tor.outbox += R.encode(code, parts)
    del tor.handlers["SETCONF"]
    _settle(link, reactor)
    if o is not None and o.fired and o.ok:
        return "window-call-succeeded-though-refused"
    return "refused"


class _AnnouncedDefaultStore(sockstor.SocksStore):
    """a Tor whose GETINFO config/defaults lists SocksPort line(s) D: while the option is at its default
    (GETCONF answers the bare key, control-spec 3.3: 'set to a default value semantically different from an empty
    string') the listeners Tor has are D, and that is what Tor told the controller"""

    def socks_entries(self):
        got = sockstor.SocksStore.socks_entries(self)
        return got if got else list(self.defaults.get("SocksPort", []))


def _make_tor_for(case):
    d = case.get("defaults")
    if not d:
        return sockstor.make_tor(case.get("socks"), case.get("under"))
    store = _AnnouncedDefaultStore(None if d["when"] == "boot" else case.get("socks"), None)
    store.defaults["SocksPort"] = list(d["lines"])
    return core.FakeTor(conf=store)


def _reset_to_default(tor, link, reactor):
    """another controller: RESETCONF SocksPort -> the option is back at its default, CONF_CHANGED carries the bare key"""
    tor.conf.values["SocksPort"] = []
    tor.conf.values["__SocksPort"] = []
    sent = "CONF_CHANGED" in tor.subscribed
    if sent:
        tor.outbox += R.encode(650, [("mid", "CONF_CHANGED"), ("mid", "SocksPort"), ("end", "OK")])
    _settle(link, reactor)
    return "reset-to-default:" + ("conf-changed-delivered" if sent else "not-subscribed")


def _arm_boot_race(tor, lines, fired):
    """while TorConfig bootstraps: between the answer to GETCONF SocksPort (unset) and the answer to GETCONF
    __SocksPort another controller sets SocksPort=<lines>; Tor sends CONF_CHANGED to us before that answer"""
    def racing(rest):
        if rest.strip().lower() == "__socksport" and not fired:
            fired.append(1)
            tor.conf.values["SocksPort"] = list(lines)
            tor.conf.values["__SocksPort"] = []
            if "CONF_CHANGED" in tor.subscribed:
                fired.append("delivered")
                tor.outbox += R.encode(650, [("mid", "CONF_CHANGED")] + [("mid", "SocksPort=" + v) for v in lines] +
                                       [("end", "OK")])
        return tor.cmd_GETCONF(rest)
    tor.handlers["GETCONF"] = racing


def run_steps(case):
    """execute one case; -> list of per-step observations"""
    import txtorcon
    from txtorcon import endpoints as tep
    from txtorcon import controller as tctl

    _reset_singletons()
    api = case["api"]
    tor = _make_tor_for(case)
    tor.emit_conf_changed = bool(case.get("conf_changed"))
    proto, tor, link = core.connected_protocol(tor)
    reactor = sockstor.FakeReactor(free_ports=list(case.get("free", [45011, 45012, 45013])))
    aud = audit.Auditor(wire.LClock())
    race_fired = []
    if case.get("bootrace"):
        _arm_boot_race(tor, case["bootrace"]["lines"], race_fired)
    for code in case.get("reject", []):
        # fault injection: Tor refuses the next SETCONF (nothing is changed then)
        tor.script("SETCONF", (code, [("end", REJECT_TEXT[code])]))
    cfg = None
    boot_problem = None
    if api.startswith("cfg"):
        o = aud.watch(txtorcon.TorConfig.from_protocol(proto), "boot")
        _settle(link, reactor)
        if not (o.fired and o.ok):
            boot_problem = o.describe()
        else:
            cfg = o.value
    history_note = None
    if case.get("bootrace"):
        tor.handlers.pop("GETCONF", None)
        history_note = "boot-race:" + ("conf-changed-before-answer" if "delivered" in race_fired else
                                       ("not-subscribed" if race_fired else "getconf-not-asked"))
    if case.get("defaults") and cfg is not None:
        history_note = "at-default-from-boot" if case["defaults"]["when"] == "boot" else \
            _reset_to_default(tor, link, reactor)
    torobj = None
    if api in ("tor_default", "stream_via", "dns_resolve", "dns_resolve_ptr", "web_agent"):
        torobj = tctl.Tor(reactor, proto)
    staged_note = None
    if case.get("staged") and cfg is not None:
        staged_note = _stage_edit(case["staged"], cfg)
    prelude_note = None
    if api.startswith("torcfg_"):
        # a Tor object that owns a loaded TorConfig (what connect()/launch()/get_config() give)
        if case.get("cfg_via") == "get_config":
            torobj = tctl.Tor(reactor, proto)
            o = aud.watch(torobj.get_config(), "get_config")
        else:
            o = aud.watch(txtorcon.TorConfig.from_protocol(proto), "boot")
        _settle(link, reactor)
        if not (o.fired and o.ok):
            boot_problem = o.describe()
        else:
            cfg = o.value
            if torobj is None:
                torobj = tctl.Tor(reactor, proto, _tor_config=cfg)
            prelude_note = _run_prelude(case.get("prelude") or {}, cfg, aud, link, reactor)
    window_note = None
    if case.get("window") and cfg is not None and not api.startswith("torcfg_"):
        window_note = _run_window(case["window"], cfg, tor, aud, link, reactor)
    obs = []
    for req in case["steps"]:
        step = {"req": req, "E": tor.conf.socks_entries(), "others": tor.conf.snapshot_others(),
                "unset": not tor.conf.socks_entries(), "boot_problem": boot_problem, "cfg_view": None}
        if cfg is not None:
            try:
                view = cfg.SocksPort
                step["cfg_view"] = [x if isinstance(x, str) else repr(x) for x in view] \
                    if isinstance(view, list) else repr(view)
            except Exception as e:     # noqa
                step["cfg_view"] = "unreadable: %r" % (e,)
        wmark = len(link.transport.writes)        # what the API writes starts here
        nrep0 = len(tor.replies)
        a0 = len(reactor.attempts)
        l0 = len(reactor.listening)
        target = None
        outcome = ("skipped",)
        if boot_problem is None:
            how = "endpoint"
            if api == "direct":
                res = _call(tep._create_socks_endpoint, reactor, proto, socks_config=req)
            elif api == "direct_pos":
                res = _call(tep._create_socks_endpoint, reactor, proto, req) if req is not None \
                    else _call(tep._create_socks_endpoint, reactor, proto)
            elif api == "cfg_create":
                res = _call(cfg.create_socks_endpoint, reactor, req)
            elif api == "cfg_sync":
                res = _call(cfg.socks_endpoint, reactor, req) if req is not None \
                    else _call(cfg.socks_endpoint, reactor)
            elif api == "cfg_sync_int":
                res = _call(cfg.socks_endpoint, reactor, int(req))
            elif api in ("tor_default", "torcfg_default"):
                res = _call(torobj._default_socks_endpoint)
            elif api == "from_connection":
                how = "connect"
                res = _call(lambda: tep.TorClientEndpoint.from_connection(
                    reactor, proto, "example.com", 80).connect(_ProbeFactory()))
            elif api in ("stream_via", "torcfg_stream_via"):
                how = "connect"
                res = _call(lambda: torobj.stream_via("example.com", 443).connect(_ProbeFactory()))
            elif api in ("dns_resolve", "torcfg_dns_resolve"):
                how = "connect"
                res = _call(torobj.dns_resolve, "example.com")
            elif api in ("dns_resolve_ptr", "torcfg_dns_resolve_ptr"):
                how = "connect"
                res = _call(torobj.dns_resolve_ptr, "192.0.2.7")
            elif api in ("web_agent", "torcfg_web_agent"):
                how = "connect"

                def go():
                    agent = torobj.web_agent()
                    return agent.request(b"GET", b"http://example.com/")
                res = _call(go)
            else:
                raise ValueError(api)
            if res[0] == "raised":
                outcome = ("raised", type(res[1]).__name__, str(res[1])[:160])
            else:
                o = aud.watch(res[1], "api")
                _settle(link, reactor)
                if how == "endpoint":
                    if not o.fired:
                        outcome = ("pending",)
                    elif not o.ok:
                        outcome = ("failed", type(o.value).__name__, str(o.value)[:160])
                    else:
                        ep = o.value
                        if IStreamClientEndpoint.providedBy(ep):
                            before = len(reactor.attempts)
                            _call(ep.connect, _ProbeFactory())
                            if len(reactor.attempts) == before + 1:
                                target = reactor.attempts[-1]
                                reactor.open.pop()         # never resolved: only the address matters
                                outcome = ("endpoint", type(ep).__name__)
                            else:
                                outcome = ("endpoint-without-attempt", type(ep).__name__)
                        else:
                            outcome = ("not-an-endpoint", type(ep).__name__)
                else:
                    # the API connects by itself: the first attempt on the reactor is the choice
                    if len(reactor.attempts) > a0:
                        target = reactor.attempts[a0]
                        outcome = ("endpoint", "attempt-by-api")
                        del reactor.open[:]
                    elif o.fired and not o.ok:
                        outcome = ("failed", type(o.value).__name__, str(o.value)[:160])
                    else:
                        outcome = ("pending",)
        step["outcome"] = outcome
        step["target"] = target
        written = b"".join(d for (_t, d) in link.transport.writes[wmark:]).decode("latin1")
        step["lines"] = [l for l in written.split("\r\n") if l]
        step["replies"] = [(l, c) for (l, c, _p) in tor.replies[nrep0:] if l in step["lines"]]
        step["prelude_note"] = prelude_note
        step["window_note"] = window_note
        step["staged_note"] = staged_note
        step["history_note"] = history_note
        step["E_after"] = tor.conf.socks_entries()
        step["others_after"] = tor.conf.snapshot_others()
        step["listened"] = [(p.number, p.interface, p.open) for p in reactor.listening[l0:]]
        step["link_exceptions"] = list(link.exceptions)
        obs.append(step)
    return obs


# ---------------------------------------------------------------------------
# workload A: oracle

def _ms_sub(a, b):
    """multiset a - b (lists)"""
    out = list(a)
    for x in b:
        if x in out:
            out.remove(x)
    return out


def judge_step(case, step, nstep, rec, V):
    """Evaluate one API call.  At most ONE violation is reported per call: the first
    failing clause in root-cause order (what was written -> use/add decision -> where the
    endpoint leads), so that one defect does not fan out into a key per consequence."""
    api = case["api"]
    fam = family_of(api)
    E = step["E"]
    infos = [entry_info(l) for l in E]
    feats = config_features(case, infos)
    rclass, ri = classify_request(step["req"], infos)
    usable = [i for i in infos if i["kind"] == "usable"]
    optional = [i for i in infos if i["kind"] == "optional"]
    unset = not infos
    outcome = step["outcome"]
    if step["boot_problem"] is not None:
        rec.count("torconfig_bootstrap_failed")
        return False
    okind = outcome[0] if outcome[0] not in ("failed", "raised") else outcome[0] + ":" + outcome[1]
    rec.seen("outcome_kinds", "%s:%s" % (api, okind))
    if step.get("staged_note"):
        rec.count("staged_edit_steps_judged")
        rec.seen("staged_notes", step["staged_note"])
    if step.get("window_note"):
        rec.count("window_histories_steps_judged")
        rec.seen("window_notes", step["window_note"])
    if step.get("history_note"):
        rec.seen("history_notes", step["history_note"])
        if case.get("defaults"):
            rec.count("announced_default_steps_judged")
        elif step["history_note"] == "boot-race:conf-changed-before-answer":
            rec.count("bootstrap_race_steps_judged")
        else:
            rec.count("bootstrap_race_not_produced")

    writes = []
    for l in step["lines"]:
        w, _, rest = l.partition(" ")
        if w.upper() in ("SETCONF", "RESETCONF"):
            writes.append((w.upper(), rest))
    accepted = [l for (l, c) in step["replies"] if l.split(" ")[0].upper() in ("SETCONF", "RESETCONF") and c == 250]
    rec.count("control_lines_seen", len(step["lines"]))

    if rclass == "none":
        mode = "use" if usable else ("either" if (optional or unset) else "add")
    elif rclass == "present":
        mode = "use"
    elif rclass in ("absent", "absent-substring", "absent-same-port"):
        mode = "add"
    else:
        mode = "either"
    rec.seen("situations", "%s/%s/%s/%s" % (fam, mode, rclass, "+".join(feats) or "plain"))

    view = step.get("cfg_view")

    def history_cause():
        """structural class of the input when nothing more specific explains a failure"""
        if fam == "torobj":
            k = (case.get("prelude") or {}).get("kind", "none")
            return None if k == "none" else "config-view-diverged:" + k
        if fam == "torconfig" and case.get("defaults"):
            # Tor's config/defaults lists SocksPort; the option is at that default (from the start, or put back
            # by another controller: CONF_CHANGED with the bare key)
            return "socksport-at-default-listed-in-config-defaults:" + \
                ("from-boot" if case["defaults"]["when"] == "boot" else "after-conf-changed-bare-key")
        if fam == "torconfig" and case.get("bootrace"):
            return "conf-changed-while-bootstrap-getconf-outstanding"
        if fam == "torconfig" and case.get("staged"):
            # the application had edited the TorConfig object without save() when the call was made
            so = case["staged"]["opt"]
            return "staged-unsaved-edit:" + ("socksport" if so == "SocksPort" else
                                             ("other-option-tor-rejects" if case["staged"].get("rejected") else "other-option"))
        if fam == "torconfig" and case.get("window"):
            # an earlier create_socks_endpoint() was refused after a CONF_CHANGED had arrived while it was in flight
            return {"in-flight": "after-refusal-with-conf-changed-in-flight",
                    "after-refusal": "after-refusal-then-conf-changed",
                    "after-accept": "after-add-then-conf-changed"}[case["window"].get("when", "in-flight")]
        if fam == "torconfig" and case.get("reject") and nstep > 0:
            # an earlier create_socks_endpoint() of this history was refused by Tor
            return "after-refused-setconf"
        if fam == "torconfig" and view is not None and view != E:
            # the TorConfig object's own idea of SocksPort is not what Tor reported
            if isinstance(view, list) and "DEFAULT" in view:
                return "unset-default"
            return "config-view-differs-from-tor"
        if fam == "torconfig" and case.get("conf_changed") and nstep > 0:
            return "after-conf-changed"
        if unset:
            return "unset-default"
        return None

    def is_name(t):
        return t is not None and t[0] == "tcp" and sockstor.is_host_name(t[1])

    def odd_ws(line):
        return "\t" in line or "  " in line

    def general(suffix):
        """class when nothing structural about the history explains it"""
        if (rclass == "present" and is_name(ri["target"])) or \
                (rclass == "none" and usable and all(is_name(i["target"]) for i in usable)):
            return "host-name-entry"
        relevant = [i for i in usable if i["first"] == ri["first"]] if rclass == "present" else usable
        if relevant and all(i["target"][0] == "unix" and ":" in i["target"][1] for i in relevant):
            return "unix-path-with-colon"
        if relevant and all(odd_ws(i["line"]) for i in relevant):
            return "options-after-tab-or-several-blanks"
        return "general/" + suffix

    found = []

    def report(clause, cause, detail):
        found.append(clause)
        if len(found) == 1:
            V(clause, "%s/%s" % (fam, cause), detail)

    # ---- (1) every SETCONF written must be a faithful re-listing plus exactly one new entry
    refused = [l for (l, c) in step["replies"] if l.split(" ")[0].upper() in ("SETCONF", "RESETCONF") and c >= 500]
    if refused:
        rec.count("refused_setconfs_seen", len(refused))
    # one SETCONF adds the port; another one is tolerated only as a new try after Tor refused the previous one
    if any((w + " " + r) not in refused for (w, r) in writes[:-1]):
        report("more-than-one-setconf", history_cause() or "general", {"writes": writes, "E": E, "refused": refused})
    for nwrite, (w, rest) in enumerate(writes):
        if nwrite and (writes[nwrite - 1][0] + " " + writes[nwrite - 1][1]) not in refused:
            break          # follows an accepted one: already reported above
        rec.count("setconf_decoded")
        try:
            items = kvline.parse(rest)
        except kvline.KvError as e:
            report("setconf-not-parseable", history_cause() or "general", {"line": rest, "error": str(e)})
            continue
        foreign = [k for (k, _v) in items if k.lower() not in ("socksport", "__socksport")]
        if case.get("staged") and mode != "use":
            # an addition's save() also flushes what the application staged itself: its own business
            foreign = [k for k in foreign if k.lower() != case["staged"]["opt"].lower()]
        if foreign:
            report("setconf-touches-other-option", history_cause() or "general", {"keys": foreign, "line": rest})
        got = [v for (k, v) in items if k.lower() in ("socksport", "__socksport")]
        if any(v is None or v == "" for v in got):
            report("setconf-relist-mismatch", "bare-key-clears-socksport", {"line": rest, "E": E})
            continue
        missing = _ms_sub(E, got)
        extra = _ms_sub(got, E)
        missing_hard = missing              # every entry, the non-listeners ("0", "addr:0") included
        if unset and "9050" in extra and len(extra) == 2:
            extra.remove("9050")              # re-listing Tor's built-in default is fine
        ok_new = False
        if len(extra) == 1:
            new = entry_info(extra[0])
            if rclass == "none":
                ok_new = new["kind"] == "usable" and sockstor.valid_line(new["line"]) and \
                    new["target"] not in [i["target"] for i in infos]
            else:
                ok_new = new["target"] is not None and new["target"] == ri["target"] and \
                    sorted(f.lower() for f in new["flags"]) == sorted(f.lower() for f in ri["flags"])
        if missing_hard or not ok_new:
            lost = [i for i in infos if i["line"] in missing_hard]
            how = ["zero" if i["kind"] == "zero" else "quoted" if i["first"].startswith('unix:"') else
                   ("opts" if i["flags"] and i["first"] in extra else
                    ("auto" if i["target"] == ("auto",) else "other")) for i in lost]
            if lost and all(h == "auto" for h in how) and (fam != "torconfig" or len(infos) == 1):
                c = "existing-auto-entry"
            elif fam == "torconfig" and history_cause():
                c = history_cause()
            elif lost and all(h == "zero" for h in how):
                c = "existing-port-0-entry"
            elif fam == "torobj" and history_cause():
                c = history_cause()
            elif lost and all(h == "opts" for h in how):
                c = "existing-entry-with-option-words"
            elif "DEFAULT" in extra:
                c = "unset-default-sentinel-sent"
            elif lost and "quoted" in how and "other" not in how:
                c = "unix-quoted-path"
            elif nwrite:
                c = "after-refused-setconf"
            elif history_cause():
                c = history_cause()
            elif missing_hard and len(got) == 1:
                c = "only-new-entry-sent"
            elif not extra:
                c = "no-new-entry"
            elif missing_hard:
                c = "entries-lost"
            else:
                c = "new-entry-wrong"
            report("setconf-relist-mismatch", c,
                   {"reported_by_tor": E, "setconf_values": got, "missing": missing_hard, "unexpected": extra,
                    "line": w + " " + rest})
    # ---- (2) nothing else in Tor's configuration changed; old entries survive
    rec.count("store_snapshots_compared")
    oa, ob = dict(step["others_after"]), dict(step["others"])
    if case.get("staged") and mode != "use":
        oa.pop(case["staged"]["opt"], None)
        ob.pop(case["staged"]["opt"], None)
    if oa != ob:
        report("other-config-modified", history_cause() or "general",
               {"before": step["others"], "after": step["others_after"]})
    if accepted:
        gone = _ms_sub([i["line"] for i in infos], step["E_after"])
        if gone:
            report("listener-entry-changed-in-tor", history_cause() or "general",
                   {"before": E, "after": step["E_after"], "lost": gone})
    added_targets = [attempt_of(entry_info(l)["target"]) for l in _ms_sub(step["E_after"], E)] if accepted else []

    # ---- (3) use an existing entry vs add one
    judged = False
    if mode == "use":
        rec.count("use_existing_checked")
        judged = True
        if writes:
            report("setconf-although-usable-entry-exists", history_cause() or general(rclass),
                   {"E": E, "req": step["req"], "writes": writes})
        if outcome[0] in ("raised", "failed"):
            lenient = fam == "torconfig" and rclass == "none" and infos[0]["kind"] != "usable"
            if lenient:
                rec.count("unjudged_first_entry_unusable")
            else:
                report("usable-entry-not-used", history_cause() or general(rclass),
                       {"E": E, "req": step["req"], "outcome": outcome})
    elif mode == "add":
        rec.count("add_checked")
        judged = True
        adder = not (api.startswith("cfg_sync") or (api == "cfg_create" and rclass == "none"))
        if adder and not writes and outcome[0] != "endpoint":
            # (an endpoint that leads nowhere is reported by clause 4)
            report("no-port-added-when-none-usable", history_cause() or ("general/" + rclass),
                   {"E": E, "req": step["req"], "outcome": outcome})
    else:
        rec.count("either_checked")

    # ---- (4) the endpoint must lead to a listener Tor has (or just got)
    if outcome[0] == "endpoint":
        rec.count("endpoint_targets_compared")
        T = tuple(step["target"])
        have = [attempt_of(i["target"]) for i in usable + optional]
        if unset and not writes:
            have.append(("tcp", "127.0.0.1", 9050))
        have += added_targets
        if rclass != "none":
            have = [h for h in have if h == attempt_of(ri["target"])]
        if T not in have and T[0] == "tcp" and T[1] in LOCAL_HOSTS and ("tcp", "localhost", T[2]) in have:
            rec.count("localhost_spelled_as_literal")
        elif T not in have:
            if T[0] == "tcp" and T[2] == 0:
                c = "zero-port-entry"
            elif T[0] == "unix" and T[1].startswith('"'):
                c = "unix-quoted-path"
            elif T[0] == "unix" and any(i["flags"] and i["target"][0] == "unix" and
                                        T[1] == i["line"][5:] for i in usable):
                c = "unix-entry-with-option-words"
            elif fam in ("torconfig", "torobj") and history_cause():
                c = history_cause()
            elif rclass == "absent-same-port" and not writes:
                c = "request-same-port-as-entry-on-other-address"
            elif rclass == "absent-substring" and not writes:
                c = "request-substring-of-existing-entry"
            elif history_cause():
                c = history_cause()
            elif writes and not accepted:
                c = "setconf-refused"
            else:
                c = "general/" + rclass
            report("endpoint-not-a-socks-listener", c,
                   {"endpoint_connects_to": T, "listeners_tor_has": have, "E": E, "req": step["req"],
                    "E_after": step["E_after"], "writes": writes})
    elif outcome[0] in ("not-an-endpoint", "endpoint-without-attempt"):
        report("result-is-not-an-endpoint", history_cause() or "general", {"outcome": outcome})
    elif outcome[0] == "pending":
        rec.count("unresolved")
    if len(found) > 1:
        rec.count("consequential_clauses_not_reported", len(found) - 1)
    for (n, iface, is_open) in step["listened"]:
        rec.count("probe_listeners_seen")
        if is_open:
            rec.count("probe_listener_left_open")
    return judged


# ---------------------------------------------------------------------------
# workload A: overlapping calls (a second/third call made before Tor answered the first)

def run_overlap(case, rec, V):
    """2-3 calls on the same connection, none awaited before the next is made.

    schedule 'burst': all calls are made, then bytes move (the protocol serialises the
    commands); schedule 'hold': bytes move after every call but FakeTor keeps each SETCONF
    reply back until all calls were made, then answers them in order.  Judged at
    quiescence:
      * every SETCONF Tor processed re-lists what Tor had AT THAT MOMENT (port-0 entries
        may be dropped) plus exactly one new entry that some call asked for (or, for calls
        without a port, a usable one); a SETCONF that re-lists exactly what Tor has is a
        no-op and accepted;
      * every endpoint handed out leads to a listener in Tor's FINAL configuration (and to
        the requested port when one was requested);
      * no SETCONF at all when every call could be served by an entry Tor already had;
      * a call that could be served by an existing entry must not fail."""
    import txtorcon
    from txtorcon import endpoints as tep
    from txtorcon import controller as tctl
    _reset_singletons()
    calls = case["calls"]
    tor = sockstor.make_tor(case.get("socks"), case.get("under"))
    tor.emit_conf_changed = bool(case.get("conf_changed"))
    proto, tor, link = core.connected_protocol(tor)
    reactor = sockstor.FakeReactor(free_ports=list(case.get("free", [45011, 45012, 45013])))
    aud = audit.Auditor(wire.LClock())
    cfg = None
    if any(c["api"] == "cfg_create" for c in calls) or case.get("with_cfg"):
        o = aud.watch(txtorcon.TorConfig.from_protocol(proto), "boot")
        _settle(link, reactor)
        if not (o.fired and o.ok):
            rec.count("torconfig_bootstrap_failed")
            return False
        cfg = o.value
    torobj = tctl.Tor(reactor, proto, _tor_config=cfg)
    E0 = tor.conf.socks_entries()
    infos0 = [entry_info(l) for l in E0]
    others0 = tor.conf.snapshot_others()
    amark = len(tor.conf.apply_log)
    held = []
    if case["schedule"] == "hold":
        def hold(rest):
            held.append(rest)
            return None
        tor.handlers["SETCONF"] = hold
    outs = []
    for c in calls:
        req, api = c["req"], c["api"]
        a0 = len(reactor.attempts)
        if api == "cfg_create":
            res = _call(cfg.create_socks_endpoint, reactor, req)
        elif api == "direct":
            res = _call(tep._create_socks_endpoint, reactor, proto, socks_config=req)
        elif api == "default":
            res = _call(torobj._default_socks_endpoint)
        elif api == "stream_via":
            res = _call(lambda: torobj.stream_via("example.com", 443).connect(_ProbeFactory()))
        elif api == "dns_resolve":
            res = _call(torobj.dns_resolve, "example.com")
        else:
            raise ValueError(api)
        outs.append({"call": c, "res": res, "o": aud.watch(res[1], api) if res[0] == "returned" else None})
        if case["schedule"] == "hold":
            _settle(link, reactor)
    _settle(link, reactor)
    guard = 0
    while held and guard < 20:
        guard += 1
        rest = held.pop(0)
        code, parts = tor.cmd_SETCONF(rest)
        tor.replies.append(("SETCONF " + rest, code, parts))
        tor.outbox += R.encode(code, parts)
        _settle(link, reactor)
    # attempts made by the calls that connect by themselves
    self_attempts = list(reactor.attempts)
    del reactor.open[:]
    E_final = tor.conf.socks_entries()
    final = [entry_info(l) for l in E_final]
    listeners = [attempt_of(i["target"]) for i in final if i["kind"] in ("usable", "optional")]
    unset0 = not infos0
    if unset0:
        # SocksPort was unset: Tor's built-in 9050 was a legitimate choice when it was made; whether a later
        # SETCONF has to re-list that implicit default is a leniency (see ASSUMPTIONS), so it stays acceptable
        listeners.append(("tcp", "127.0.0.1", 9050))
    fams = sorted(set("torconfig" if c["api"] == "cfg_create" else "direct" for c in calls))
    shape = "%s:%s" % (case["schedule"], "+".join(
        (c["api"] + "/" + classify_request(c["req"], infos0)[0]) for c in calls))
    # class = which code paths overlapped (the exact shape goes into the evidence / detail)
    cls = "overlapping-calls/" + "+".join(fams) + ("/conf-changed" if case.get("conf_changed") and cfg is not None else "")
    if fams == ["torconfig"] and len(infos0) == 1 and infos0[0]["target"] == ("auto",):
        cls = "torconfig/existing-auto-entry"          # the known single-call finding, seen again here
    rec.seen("overlap_shapes", shape)
    found = []

    def report(clause, detail):
        found.append(clause)
        if len(found) == 1:
            V(clause, cls, detail)

    modes = []
    for c in calls:
        rclass, ri = classify_request(c["req"], infos0)
        usable0 = [i for i in infos0 if i["kind"] == "usable"]
        if rclass == "present" or (rclass == "none" and usable0):
            modes.append("use")
        elif rclass in ("absent", "absent-substring", "absent-same-port") or (rclass == "none" and not unset0 and
                                                          not any(i["kind"] == "optional" for i in infos0)):
            modes.append("add")
        else:
            modes.append("either")
    wanted_new = [entry_info(c["req"]) for c in calls if c["req"] is not None]
    # (1) every SETCONF Tor processed
    applies = tor.conf.apply_log[amark:]
    real_changes = 0
    for n, ap in enumerate(applies):
        rec.count("setconf_decoded")
        rec.count("overlap_setconfs_judged")
        keys = [k for (k, _v) in ap["items"]]
        if any(k.lower() not in ("socksport", "__socksport") for k in keys):
            report("setconf-touches-other-option", {"keys": keys})
            continue
        got = [v for (_k, v) in ap["items"]]
        had = ap["before"]
        hinfos = [entry_info(l) for l in had]
        if any(v is None or v == "" for v in got):
            report("setconf-relist-mismatch", {"n": n, "tor_had": had, "setconf_values": got})
            continue
        missing = _ms_sub(had, got)
        extra = _ms_sub(got, had)
        if unset0 and not had and "9050" in extra and len(extra) == 2:
            extra.remove("9050")
        if not missing and not extra:
            rec.count("overlap_noop_setconfs")
            continue
        real_changes += 1
        ok_new = False
        if len(extra) == 1:
            new = entry_info(extra[0])
            ok_new = any(new["target"] is not None and new["target"] == w["target"] and
                         sorted(f.lower() for f in new["flags"]) == sorted(f.lower() for f in w["flags"])
                         for w in wanted_new)
            if not ok_new and any(c["req"] is None for c in calls):
                ok_new = new["kind"] == "usable" and sockstor.valid_line(new["line"]) and \
                    new["target"] not in [i["target"] for i in hinfos]
        if missing or not ok_new:
            report("setconf-relist-mismatch",
                   {"shape": shape, "setconf_number": n + 1, "tor_had_when_it_processed_it": had, "setconf_values": got,
                    "missing": missing, "unexpected": extra, "all_setconfs": [[v for (_k, v) in a["items"]] for a in applies]})
    # (2) nothing else changed, nothing Tor started with was lost
    rec.count("store_snapshots_compared")
    if tor.conf.snapshot_others() != others0:
        report("other-config-modified", {"before": others0, "after": tor.conf.snapshot_others()})
    gone = _ms_sub([i["line"] for i in infos0], E_final)
    if gone:
        report("listener-entry-changed-in-tor", {"before": E0, "after": E_final, "lost": gone})
    # (3) no write at all when every call could be served
    if all(m == "use" for m in modes):
        rec.count("use_existing_checked")
        if real_changes:
            report("setconf-although-usable-entry-exists", {"E": E0, "calls": calls,
                                                            "setconfs": [[v for (_k, v) in a["items"]] for a in applies]})
    else:
        rec.count("add_checked")
    # (4) outcomes and endpoints
    n_self = 0
    for out, mode in zip(outs, modes):
        c = out["call"]
        rclass, ri = classify_request(c["req"], infos0)
        o = out["o"]
        failed = out["res"][0] == "raised" or (o is not None and o.fired and not o.ok)
        if failed:
            if mode == "use":
                report("usable-entry-not-used", {"E": E0, "call": c,
                                                 "outcome": repr(out["res"][1] if o is None else o.value)[:160]})
            else:
                rec.count("overlap_failed_calls_unjudged")
            continue
        if c["api"] in ("stream_via", "dns_resolve"):
            n_self += 1
            continue
        if o is None or not o.fired:
            rec.count("unresolved")
            continue
        ep = o.value
        if not IStreamClientEndpoint.providedBy(ep):
            report("result-is-not-an-endpoint", {"call": c, "got": type(ep).__name__})
            continue
        before = len(reactor.attempts)
        _call(ep.connect, _ProbeFactory())
        if len(reactor.attempts) != before + 1:
            report("result-is-not-an-endpoint", {"call": c, "got": "no connect attempt"})
            continue
        T = tuple(reactor.attempts[-1])
        del reactor.open[:]
        rec.count("endpoint_targets_compared")
        want = listeners if rclass == "none" else [h for h in listeners if h == attempt_of(ri["target"])]
        if rclass == "ambiguous":
            rec.count("overlap_ambiguous_unjudged")
            continue
        if T not in want:
            report("endpoint-not-a-socks-listener",
                   {"call": c, "endpoint_connects_to": T, "listeners_tor_has_at_the_end": listeners,
                    "E_start": E0, "E_final": E_final,
                    "setconfs": [[v for (_k, v) in a["items"]] for a in applies]})
    for T in self_attempts:
        rec.count("endpoint_targets_compared")
        if tuple(T) not in listeners:
            report("endpoint-not-a-socks-listener",
                   {"call": "stream_via/dns_resolve", "endpoint_connects_to": T,
                    "listeners_tor_has_at_the_end": listeners, "E_start": E0, "E_final": E_final,
                    "setconfs": [[v for (_k, v) in a["items"]] for a in applies]})
    if len(self_attempts) < n_self:
        rec.count("unresolved", n_self - len(self_attempts))
    if len(found) > 1:
        rec.count("consequential_clauses_not_reported", len(found) - 1)
    rec.count("overlap_histories_judged")
    return True


def run_case_A(case, rec):
    bad = []

    def V(clause, cls, detail):
        bad.append(clause)
        rec.violation(clause, cls, detail, case)

    if case.get("api") == "overlap":
        judged = run_overlap(case, rec, V)
        rec.case(case, nontrivial=bool(judged))
        rec.seen("apis", "overlap")
        return bad
    obs = run_steps(case)
    judged = False
    for nstep, step in enumerate(obs):
        judged = judge_step(case, step, nstep, rec, V) or judged
        if step["link_exceptions"]:
            rec.count("link_exceptions", len(step["link_exceptions"]))
    rec.case(case, nontrivial=judged or any(s["lines"] for s in obs))
    rec.seen("apis", case["api"])
    return bad


# ---------------------------------------------------------------------------
# workload A: enumeration

OPTS_TCP = ["", "IsolateDestAddr", "IsolateSOCKSAuth NoIPv6Traffic", "KeepAliveIsolateSOCKSAuth SessionGroup=3",
            "IPv6Traffic PreferIPv6 KeepAliveIsolateSOCKSAuth"]
OPTS_UNIX = ["", "WorldWritable", "GroupWritable IsolateDestAddr"]

FIRSTS_QUICK = ["9050", "9150", "127.0.0.1:9051", "192.168.7.2:9052", "unix:/run/tor/socks",
                "[::1]:9054", 'unix:"/run/tor dir/socks"', "0", "auto", "localhost:9056"]
FIRSTS_MORE = ["0.0.0.0:9053", "unix:/tmp/t.sock", "127.0.0.2:9050", "19050", "[2001:db8::1]:9055",
               "127.0.0.1:0", "tor.example.net:9057"]
# further configurations of the quick tier: non-listener entries and host names, alone and mixed
EXTRA_QUICK = [["127.0.0.1:0"], ["0", "127.0.0.1:0"], ["127.0.0.1:0", "9050 IsolateDestAddr"], ["9150", "127.0.0.1:0"],
               ["[::1]:0", "0"], ["0", "[::1]:9054 IsolateDestAddr"], ["auto", "127.0.0.1:0"],
               ["tor.example.net:9057"], ["tor.example.net:9057 IsolateDestAddr"], ["0", "tor.example.net:9057"],
               ["tor.example.net:9057 IsolateSOCKSAuth", "9150"], ["localhost:9056 IsolateDestAddr", "0"],
               ["[::1]:9054", "tor.example.net:9057 IsolateDestAddr"],
               # options after TAB(s) / several blanks (GETCONF echoes the line as written)
               ["9050\tIsolateDestAddr"], ["9050  IsolateDestAddr"], ["9050 \t IsolateSOCKSAuth\tNoIPv6Traffic"],
               ["unix:/run/tor/socks\tWorldWritable"], ["127.0.0.1:9051\tIsolateDestAddr", "9150"],
               ["9150", "192.168.7.2:9052\t\tIsolateDestAddr"], ["0", "9050\tIsolateDestAddr"],
               ["localhost:9056\tIsolateDestAddr"], ["[::1]:9054\tIsolateDestAddr", "unix:/run/tor/socks  GroupWritable"],
               ["9050\tIsolateDestAddr", "9150  IsolateSOCKSAuth", "unix:/run/tor/socks \t WorldWritable"],
               # unix paths that contain colons / look like they end in a port
               ["unix:/run/tor/socks:0"], ["unix:/run/tor/socks:0 WorldWritable"], ["unix:/run/tor/s:9050"],
               ["unix:/run/tor/s:9050 GroupWritable IsolateDestAddr"], ["unix:/run/tor/trailing:"],
               ['unix:"/run/tor dir/s:0"'], ['unix:"/run/tor dir/s:0" WorldWritable'], ["0", "unix:/run/tor/socks:0"],
               ["unix:/run/tor/socks:0 WorldWritable", "127.0.0.1:0"], ["[::1]:9054", "unix:/run/a:b/socks:0"],
               ["unix:/run/tor/socks:0", "9150 IsolateDestAddr"], ["auto", "unix:/run/tor/s:9050\tWorldWritable"]]


SEPARATORS = [" ", "\t", "  ", " \t ", "\t\t"]        # Tor splits a port line on any white space


def with_opt(first, k, sep=" "):
    pool = OPTS_UNIX if first.startswith("unix:") else OPTS_TCP
    if first in ("0", "127.0.0.1:0", "[::1]:0"):
        return first
    o = pool[k % len(pool)]
    return (first + sep + o.replace(" ", sep)) if o else first


def configs(tier, rnd):
    """-> list of {"socks": [...]|None, "under": [...]|None}"""
    out = [{"socks": None, "under": None},
           {"socks": None, "under": ["9050"]},
           {"socks": None, "under": ["9050 IsolateDestAddr"]},
           {"socks": None, "under": ["unix:/run/tor/socks WorldWritable"]}]
    firsts = FIRSTS_QUICK + (FIRSTS_MORE if tier == "thorough" else [])
    for e in EXTRA_QUICK:
        out.append({"socks": list(e), "under": None})
    # one entry, every option set
    for f in firsts:
        pool = OPTS_UNIX if f.startswith("unix:") else OPTS_TCP
        for k in range(len(pool) if f != "0" else 1):
            out.append({"socks": [with_opt(f, k)], "under": None})
    # two entries: every ordered pair, four option patterns
    pats2 = [(0, 0), (1, 0), (0, 1), (2, 1)] if tier == "quick" else \
        [(0, 0), (1, 0), (0, 1), (2, 1), (3, 2), (4, 4)]
    for a, b in itertools.permutations(firsts, 2):
        for (ka, kb) in pats2:
            out.append({"socks": [with_opt(a, ka), with_opt(b, kb)], "under": None})
    # three / four entries
    if tier == "quick":
        triples = [("9050", "9150", "unix:/run/tor/socks"), ("unix:/run/tor/socks", "9050", "127.0.0.1:9051"),
                   ("9150", "[::1]:9054", "9050"), ("0", "9050", "9150"), ("192.168.7.2:9052", "9150", "127.0.0.1:9051"),
                   ('unix:"/run/tor dir/socks"', "9050", "unix:/run/tor/socks"), ("[::1]:9054", "0", "127.0.0.1:9051")]
        for t in triples:
            for pat in ((0, 0, 0), (1, 0, 2), (0, 1, 1), (2, 3, 1)):
                out.append({"socks": [with_opt(f, k) for f, k in zip(t, pat)], "under": None})
        quads = [("9050", "9150", "127.0.0.1:9051", "unix:/run/tor/socks"),
                 ("unix:/run/tor/socks", "192.168.7.2:9052", "9150", "9050"),
                 ("9150", "9050", "[::1]:9054", "127.0.0.1:9051")]
        for q in quads:
            for pat in ((0, 0, 0, 0), (4, 0, 1, 1), (1, 2, 3, 2)):
                out.append({"socks": [with_opt(f, k) for f, k in zip(q, pat)], "under": None})
        out.append({"socks": ["9150 IPv6Traffic PreferIPv6 KeepAliveIsolateSOCKSAuth", "9155"], "under": None})
    else:
        for t in itertools.permutations(firsts, 3):
            out.append({"socks": [with_opt(f, rnd.randrange(5), rnd.choice(SEPARATORS + [" "] * 8)) for f in t],
                        "under": None})
        for _ in range(4000):
            q = rnd.sample(firsts, 4)
            out.append({"socks": [with_opt(f, rnd.randrange(5), rnd.choice(SEPARATORS + [" "] * 8)) for f in q],
                        "under": None})
        out.append({"socks": ["9150 IPv6Traffic PreferIPv6 KeepAliveIsolateSOCKSAuth", "9155"], "under": None})
    return out


ALIASES = {"9050": "127.0.0.1:9050", "9150": "127.0.0.1:9150", "127.0.0.1:9051": "9051", "19050": "127.0.0.1:19050"}


def requests_for(cfg):
    """requested ports for one configuration: [(request, note)]"""
    lines = (cfg["socks"] or []) + (cfg["under"] or [])
    infos = [entry_info(l) for l in lines]
    reqs = [None]
    for i in infos:
        if i["first"] not in reqs and i["kind"] in ("usable",) and " " not in i["first"]:
            reqs.append(i["first"])
    reqs += ["9999", "127.0.0.1:9998", "unix:/tmp/new.sock", "9997 IsolateDestAddr"]
    # absent, but a substring of an existing line
    for i in infos:
        t = i["target"]
        if i["kind"] == "usable" and t[0] == "tcp" and len(str(t[2])) >= 3:
            reqs.append(str(t[2])[:-1])
            break
    for i in infos:
        if i["kind"] == "usable" and i["target"][0] == "unix" and not i["first"].startswith('unix:"'):
            reqs.append(i["first"].rsplit("/", 1)[0] or "unix:/x")
            break
    # same port number, other address: a different listener (absent)
    for i in infos:
        t = i["target"]
        if t is not None and t[0] in ("tcp", "tcp6") and t[2] and t[1] not in WILDCARD_HOSTS:
            if t[1] != "127.0.0.1":
                reqs += [str(t[2]), "10.1.2.3:%d" % t[2]]
            else:
                reqs += ["192.168.9.9:%d" % t[2]]
            break
    # alias spelling / unusable exact entries (counted; judged on SETCONF shape only)
    for i in infos:
        if i["first"] in ALIASES:
            reqs.append(ALIASES[i["first"]])
            break
    for i in infos:
        if i["kind"] == "optional" and i["target"][0] == "tcp6":
            reqs.append(i["first"])
            break
    seen = []
    for r in reqs:
        if r not in seen:
            seen.append(r)
    return seen


NONE_ONLY_APIS = ["tor_default", "from_connection", "stream_via", "dns_resolve", "dns_resolve_ptr", "web_agent"]
TORCFG_APIS = ["torcfg_stream_via", "torcfg_dns_resolve", "torcfg_default", "torcfg_dns_resolve_ptr", "torcfg_web_agent"]
# (kind, edit, value): how the loaded TorConfig's view is made to differ from Tor (Tor itself unchanged)
PRELUDES = [
    ("none", "-", None),
    ("rejected-save", "replace", "9999 BogusFlag"),
    ("rejected-save", "insert0", "127.0.0.1:9998 NotAnOption"),
    ("inflight-rejected", "replace", "9999 BogusFlag"),
    ("inflight-rejected", "insert0", "unix:/tmp/never.sock BogusFlag"),
    ("unsaved-edit", "replace", "9999"),
    ("unsaved-edit", "insert0", "unix:/tmp/never.sock"),
    ("unsaved-edit", "set0", "127.0.0.1:9998"),
    ("unsaved-edit", "append", "9999"),
]


def overlap_cells(cfg, tier, idx, base, free):
    """histories of 2-3 overlapping calls for one configuration"""
    lines = (cfg["socks"] or []) + (cfg["under"] or [])
    infos = [entry_info(l) for l in lines]
    present = [i["first"] for i in infos if i["kind"] == "usable" and " " not in i["first"]]
    P = present[0] if present else None
    A, B, U = "9999", "9998", "unix:/tmp/second.sock"
    combos = []
    for api in ("cfg_create", "direct"):
        combos += [[(api, A), (api, B)], [(api, A), (api, U)], [(api, A), (api, A)],
                   [(api, A), (api, B), (api, A)], [(api, U), (api, A), (api, B)]]
        if P:
            combos += [[(api, A), (api, P)], [(api, P), (api, A)], [(api, A), (api, P), (api, B)], [(api, P), (api, P)]]
    combos += [[("stream_via", None), ("stream_via", None)], [("stream_via", None), ("dns_resolve", None), ("stream_via", None)],
               [("default", None), ("default", None)], [("direct", None), ("direct", None)],
               [("cfg_create", A), ("stream_via", None)], [("stream_via", None), ("cfg_create", A)],
               [("direct", A), ("stream_via", None)], [("cfg_create", A), ("direct", B)],
               [("direct", None), ("direct", A)]]
    if cfg["under"]:
        # SocksPort unset + __SocksPort set: a concurrent TorConfig write lands between the two GETCONFs of the
        # discovery and FakeTor's family semantics (our model) decide the answer: not judged, not generated
        combos = [c for c in combos if len(set(a == "cfg_create" for (a, _r) in c)) == 1]
    out = []
    if tier == "quick" or idx % 4:
        picks = [(idx * 5 + k * 7) % len(combos) for k in range(5)]
        sel = [(combos[j], ("burst", "hold")[(idx + k) % 2]) for k, j in enumerate(picks)]
    else:
        sel = [(c, sch) for c in combos for sch in ("burst", "hold")]
    for n, (combo, sch) in enumerate(sel):
        c = dict(base, api="overlap", schedule=sch, free=free, calls=[{"api": a, "req": r} for (a, r) in combo])
        if any(a == "cfg_create" for (a, _r) in combo) and (tier != "quick" or (idx + n) % 3 == 0):
            out.append(dict(c, conf_changed=True))
        out.append(c)
    return out


def refusal_cells(cfg, tier, idx, base, free):
    """fault injection: Tor refuses the SETCONF that adds the port (5xx, nothing changed)"""
    lines = (cfg["socks"] or []) + (cfg["under"] or [])
    infos = [entry_info(l) for l in lines]
    needs_add = bool(infos) and not any(i["kind"] == "usable" for i in infos)   # a call without port must add one
    codes = (513, 552, 553)
    out = []
    cells = [("direct", ["9999"]), ("cfg_create", ["9999"]), ("cfg_create", ["unix:/tmp/new.sock"]),
             ("direct", ["9999", "9998"]), ("cfg_create", ["9999", "9998"]), ("direct", ["9999", "9999"]),
             ("cfg_create", ["9999", None])]
    if needs_add:
        cells += [(api, [None]) for api in ("direct", "tor_default", "stream_via", "dns_resolve", "web_agent",
                                            "from_connection", "torcfg_stream_via")]
        cells += [("direct", [None, None]), ("tor_default", [None, None]), ("direct", [None, "9999"])]
    for n, (api, steps) in enumerate(cells):
        if tier == "quick" and not needs_add and (idx + n) % 3:
            continue
        code = codes[(idx + n) % 3]
        out.append(dict(base, api=api, steps=steps, free=free, reject=[code]))
        if needs_add or tier != "quick":
            out.append(dict(base, api=api, steps=steps, free=free, reject=[code, codes[(idx + n + 1) % 3]]))
    return out


STAGED = [
    {"opt": "SafeSocks", "how": "assign", "value": 1},
    {"opt": "Nickname", "how": "assign", "value": "relay1"},
    {"opt": "Log", "how": "append", "value": "info file /tmp/x.log"},
    {"opt": "DNSPort", "how": "assign", "value": ["5353 BogusFlag"], "rejected": True},
    {"opt": "TransPort", "how": "append", "value": "9041 NotAnOption", "rejected": True},
    {"opt": "SocksPort", "how": "append", "value": "9777"},
    {"opt": "SocksPort", "how": "append", "value": "9778 BogusFlag", "rejected": True},
    {"opt": "SocksPort", "how": "remove-last"},
]


def staged_cells(cfg, tier, idx, base, free):
    """the TorConfig carries an unsaved edit when create_socks_endpoint()/socks_endpoint() is asked for a port
    Tor already has: nothing may be written; later additions still re-list every existing entry"""
    if cfg["under"] or not cfg["socks"]:
        return []
    infos = [entry_info(l) for l in cfg["socks"]]
    present = [i["first"] for i in infos if i["kind"] == "usable" and " " not in i["first"]]
    if not present or (len(infos) >= 2 and infos[-1]["first"] == present[0]):
        return []
    P = present[0]
    combos = []
    for st in STAGED:
        follows = [("cfg_create", [P]), ("cfg_create", [P, P]), ("cfg_sync", [P]), ("cfg_create", [None])]
        if st["opt"] != "SocksPort":
            follows += [("cfg_create", [P, "9998"]), ("cfg_create", ["9998", P])]
        combos += [(st, f) for f in follows]
    if tier == "quick" or idx % 4:
        combos = [combos[(idx * 3 + k * 13) % len(combos)] for k in range(5)]
    return [dict(base, api=api, steps=steps, free=free, staged=st) for (st, (api, steps)) in combos]


def window_cells(cfg, tier, idx, base, free):
    """refused add with a CONF_CHANGED (other controller) in the in-flight window, then further calls"""
    if cfg["under"]:
        return []
    follow = [("cfg_create", ["9998"]), ("cfg_create", ["9777"]), ("cfg_sync", ["9777"]), ("cfg_create", [None]),
              ("cfg_sync", [None]), ("cfg_create", ["9998", "9777"]), ("cfg_create", ["unix:/run/tor/other.sock"]),
              ("cfg_create", ["9999"])]
    changes = ["add", "replace", "remove-first", "add2"]
    codes = (513, 552, 553)
    whens = ["in-flight", "after-refusal", "after-accept"]
    combos = [(wh, ch, f) for wh in whens for ch in changes for f in follow]
    if tier == "quick" or idx % 4:
        combos = [combos[(idx * 3 + k * 37) % len(combos)] for k in range(6)]
    out = []
    for n, (wh, ch, (api, steps)) in enumerate(combos):
        out.append(dict(base, api=api, steps=steps, free=free, conf_changed=True,
                        window={"req": "9999", "change": ch, "code": codes[(idx + n) % 3], "when": wh}))
    return out


ANNOUNCED_DEFAULTS = [["9050"], ["9050 IsolateDestAddr"], ["127.0.0.1:9050", "unix:/run/tor/default.sock WorldWritable"],
                      ["9150 IPv6Traffic PreferIPv6"], ["unix:/run/tor/default.sock"]]


def announced_default_cells(cfg, tier, idx, base, free):
    """Tor lists SocksPort line(s) in GETINFO config/defaults and the option is at that default: from the start,
    or after another controller's RESETCONF (CONF_CHANGED with the bare key) on top of this configuration"""
    if cfg["under"]:
        return []
    D = ANNOUNCED_DEFAULTS[idx % len(ANNOUNCED_DEFAULTS)]
    P = entry_info(D[0])["first"]
    whens = ["reset"] if cfg["socks"] else ["boot"]
    if cfg["socks"] and idx % 7 == 0:
        whens.append("boot")
    follows = [("cfg_create", ["9999"]), ("cfg_create", [P]), ("cfg_sync", [P]), ("cfg_create", [None]),
               ("cfg_create", ["unix:/tmp/new.sock", P]), ("cfg_create", ["9997 IsolateDestAddr", "9999"]),
               ("cfg_sync", [None])]
    out = []
    for wh in whens:
        if tier == "quick" and cfg["socks"]:
            sel = [follows[0], follows[1 + idx % 6], follows[1 + (idx + 3) % 6]]
        else:
            sel = follows
        for n, (api, steps) in enumerate(sel):
            out.append(dict(base, api=api, steps=steps, free=free, conf_changed=bool((idx + n) % 2),
                            defaults={"lines": D, "when": wh}))
    return out


def boot_race_cells(cfg, tier, idx, base, free):
    """SocksPort unset when TorConfig starts to bootstrap; another controller sets it to this configuration's lines
    while GETCONF __SocksPort is outstanding (CONF_CHANGED arrives before the answer)"""
    lines = cfg["socks"]
    if cfg["under"] or not lines or any(("\t" in l or "  " in l or '"' in l) for l in lines):
        return []          # (CONF_CHANGED carries values unquoted: lines that need quoting are not generated)
    if tier == "quick" and idx % 3:
        return []
    infos = [entry_info(l) for l in lines]
    present = [i["first"] for i in infos if i["kind"] == "usable"]
    follows = [("cfg_create", ["9999"]), ("cfg_create", ["unix:/tmp/new.sock", "9999"])]
    if present:
        follows += [("cfg_create", [present[0]]), ("cfg_sync", [present[-1]]), ("cfg_create", [present[-1], "9998"])]
    if tier == "quick":
        follows = [follows[0], follows[(1 + idx) % len(follows)]]
    return [dict(base, socks=None, api=api, steps=steps, free=free, conf_changed=bool((idx + n) % 2),
                 bootrace={"lines": list(lines)}) for n, (api, steps) in enumerate(follows)]


def cells_for(cfg, tier, idx, cidx=None):
    """all cases (dicts) for one configuration"""
    out = []
    base = {"w": "A", "socks": cfg["socks"], "under": cfg["under"]}
    free = [45011 + (idx % 400), 46011 + (idx % 300), 47011]
    for r in requests_for(cfg):
        for api in ("direct", "cfg_create", "cfg_sync"):
            if api == "cfg_sync" and r is not None and " " in r:
                continue          # documented ValueError: options cannot be given there
            out.append(dict(base, api=api, steps=[r], free=free))
        if r is not None and r.isdigit():
            out.append(dict(base, api="cfg_sync_int", steps=[r], free=free))
        if r is not None and idx % 3 == 0:
            out.append(dict(base, api="direct_pos", steps=[r], free=free))
    for api in NONE_ONLY_APIS:
        out.append(dict(base, api=api, steps=[None], free=free))
    # Tor object owning a TorConfig whose view diverged from Tor before the first use
    napis = 1 if tier == "quick" else 2
    for j, (kind, edit, value) in enumerate(PRELUDES):
        for a in range(napis):
            api = TORCFG_APIS[(idx + j + 2 * a) % len(TORCFG_APIS)]
            out.append(dict(base, api=api, steps=[None, None] if (idx + j) % 4 == 0 else [None], free=free,
                            cfg_via="get_config" if (idx + j) % 2 else "ctor",
                            prelude={"kind": kind, "edit": edit, "value": value}))
    out.extend(refusal_cells(cfg, tier, idx if cidx is None else cidx, base, free))
    out.extend(window_cells(cfg, tier, idx if cidx is None else cidx, base, free))
    out.extend(staged_cells(cfg, tier, idx if cidx is None else cidx, base, free))
    out.extend(announced_default_cells(cfg, tier, idx if cidx is None else cidx, base, free))
    out.extend(boot_race_cells(cfg, tier, idx if cidx is None else cidx, base, free))
    # (selection by the configuration's own index, not the seed-shifted one: same shapes for every seed)
    out.extend(overlap_cells(cfg, tier, idx if cidx is None else cidx, base, free))
    # histories of two calls
    out.append(dict(base, api="tor_default", steps=[None, None], free=free))
    out.append(dict(base, api="direct", steps=[None, None], free=free))
    out.append(dict(base, api="direct", steps=["9999", None], free=free))
    out.append(dict(base, api="direct", steps=["9999 IsolateDestAddr", "unix:/tmp/second.sock"], free=free))
    out.append(dict(base, api="direct", steps=[None, "9996"], free=free))
    for cc in (False, True):
        out.append(dict(base, api="cfg_create", steps=["9999", "unix:/tmp/second.sock"], free=free, conf_changed=cc))
        out.append(dict(base, api="cfg_create", steps=["unix:/tmp/first.sock", None], free=free, conf_changed=cc))
        out.append(dict(base, api="cfg_create", steps=["9999", "9999"], free=free, conf_changed=cc))
    return out


# ---------------------------------------------------------------------------
# workload B: fallback over the well-known ports

# after a SUCCESSFUL TCP connect the SOCKS5 dialogue is played: complete success, an error reply
# (RFC 1928 REP 1..8, what Tor answers), or Tor closing the connection before / after the
# method-selection reply.  These are SOCKS-level failures, not connection errors.
SOCKS_FAILURES = ["socks-reply-%d" % c for c in range(1, 9)] + ["socks-drop-before-method", "socks-drop-after-method"]
# the same dialogue, but Tor is SLOW: the reactor clock is advanced by T seconds before the method reply
# ("method") or before the final reply ("request": a slow circuit / onion rendezvous), then the request
# succeeds ("ok") or is answered with error reply 4 ("r4").  Slowness is not a connection error.
SLOW_KINDS = ["slow-request-ok-29", "slow-request-ok-31", "slow-request-ok-120", "slow-request-ok-3600",
              "slow-method-ok-45", "slow-request-r4-90"]
OUTCOME_KINDS = ["success"] + sorted(sockstor.CONNECT_ERRORS) + sorted(sockstor.OTHER_FAILURES) + SOCKS_FAILURES + \
    SLOW_KINDS


def socks_reply_code(k):
    if k.startswith("socks-reply-"):
        return int(k.rsplit("-", 1)[1])
    if k.startswith("slow-") and k.split("-")[2].startswith("r"):
        return int(k.split("-")[2][1:])
    return None


def kind_class(k):
    if k == "success":
        return "S"
    if k.startswith("slow-"):
        return "SS" if k.split("-")[2] == "ok" else "SX"
    if k in SOCKS_FAILURES:
        return "SX"
    return "CE" if k in sockstor.CONNECT_ERRORS else "X"


def play_socks(kind, proto, tr, rec, reactor=None):
    """the SOCKS server side of one connection that was established"""
    from twisted.internet import error as terr
    from twisted.python import failure as tfail
    try:
        if not tr.value():
            rec.count("socks_client_wrote_nothing")
        if kind.startswith("slow-"):
            _s, where, final, secs = kind.split("-")

            def wait():
                for _ in range(3):
                    reactor.advance(int(secs) / 3.0)
                rec.count("virtual_seconds_waited", int(secs))
            if where == "method":
                wait()
            proto.dataReceived(b"\x05\x00")
            if where == "request":
                wait()
            if final == "ok":
                proto.dataReceived(b"\x05\x00\x00\x01\x00\x00\x00\x00\x00\x00")
            else:
                proto.dataReceived(bytes([5, int(final[1:]), 0, 1, 0, 0, 0, 0, 0, 0]))
                proto.connectionLost(tfail.Failure(terr.ConnectionDone()))
            return
        if kind == "socks-drop-before-method":
            proto.connectionLost(tfail.Failure(terr.ConnectionDone()))
            return
        proto.dataReceived(b"\x05\x00")                    # method: no authentication
        if kind == "socks-drop-after-method":
            proto.connectionLost(tfail.Failure(terr.ConnectionLost()))
            return
        if kind == "success":
            proto.dataReceived(b"\x05\x00\x00\x01\x00\x00\x00\x00\x00\x00")
            return
        code = int(kind.rsplit("-", 1)[1])
        proto.dataReceived(bytes([5, code, 0, 1, 0, 0, 0, 0, 0, 0]))
        # Tor closes after an error reply (and the client asked for the close itself)
        proto.connectionLost(tfail.Failure(terr.ConnectionDone()))
    except Exception:      # noqa
        rec.count("socks_dialogue_exception")


def make_exc(kind, tag):
    if kind in sockstor.CONNECT_ERRORS:
        return sockstor.CONNECT_ERRORS[kind](tag)
    return sockstor.OTHER_FAILURES[kind](tag)


def same_error(got, want):
    return got is want or (type(got) is type(want) and getattr(got, "args", None) == getattr(want, "args", None))


def run_case_B(case, rec):
    from txtorcon import endpoints as tep
    _reset_singletons()
    bad = []

    def V(clause, cls, detail):
        bad.append(clause)
        rec.violation(clause, cls, detail, case)

    seq = list(case["seq"])
    cls_seq = [kind_class(k) for k in seq]
    reactor = sockstor.FakeReactor()
    aud = audit.Auditor(wire.LClock())
    kw = {}
    if case.get("tls_kw"):
        kw["tls"] = False
    res = _call(lambda: tep.TorClientEndpoint(case["host"], case["port"], reactor=reactor, **kw))
    if res[0] == "raised":
        rec.count("fallback_constructor_raised")
        rec.case(case, nontrivial=False)
        return bad
    ep = res[1]
    res = _call(ep.connect, _ProbeFactory())
    if res[0] == "raised":
        V("connect-raised-synchronously", "fallback", {"exc": repr(res[1])})
        rec.case(case)
        return bad
    o = aud.watch(res[1], "connect")
    given = []            # (attempt, kind, exception|None)
    k = 0
    while reactor.open and k < 8:
        if reactor.open[0].stopped:
            # the client gave this attempt up itself (stopConnecting): a reactor reports nothing further for it
            reactor.open.pop(0)
            given.append((reactor.attempts[len(given)], "abandoned-by-client", None))
            rec.count("attempts_abandoned_by_client")
            continue
        kind = seq[k] if k < len(seq) else "refused"
        att = reactor.attempts[len(given)]
        if kind == "success" or kind in SOCKS_FAILURES or kind in SLOW_KINDS:
            proto, tr = reactor.succeed()
            given.append((att, kind, None))
            if proto is not None:
                play_socks(kind, proto, tr, rec, reactor)
        else:
            exc = make_exc(kind, "attempt-%d" % (k + 1))
            given.append((att, kind, exc))
            reactor.fail(exc)
        reactor.advance(0)
        k += 1
    attempts = list(reactor.attempts)
    rec.count("fallback_attempts_checked", len(attempts))
    rec.count("fallback_sequences_judged")
    rec.seen("fallback_attempt_patterns", "%s -> %s" % (",".join(cls_seq), [a[2] if a[0] == "tcp" else a for a in attempts]))

    # reference: which attempts are due
    due = [FALLBACK_PORTS[0]]
    if cls_seq[0] == "CE":
        due.append(FALLBACK_PORTS[1])
    icls = ",".join(cls_seq[:len(due)])
    # order / identity of the attempts actually made
    for n, a in enumerate(attempts):
        if a[0] != "tcp" or a[1] not in LOCAL_HOSTS:
            V("fallback-attempt-not-local-tcp", icls, {"attempt": a, "n": n})
    ports = [a[2] for a in attempts if a[0] == "tcp"]
    if len(set(ports)) != len(ports):
        V("fallback-port-tried-twice", icls, {"attempts": attempts})
    if ports[:len(due)] != due[:len(ports)]:
        V("fallback-order", icls, {"attempts": attempts, "due": due})
    if len(ports) > len(due):
        last = cls_seq[len(due) - 1]
        clause = {"S": "attempt-after-success", "X": "advanced-after-non-connection-error",
                  "SX": "advanced-after-socks-level-failure",
                  "SS": "advanced-while-socks-request-pending",
                  "CE": "attempt-beyond-well-known-ports"}[last]
        V(clause, icls, {"attempts": attempts, "outcomes": seq[:len(attempts)]})
    elif len(ports) < len(due):
        V("did-not-advance-after-connection-error", icls, {"attempts": attempts, "outcomes": seq[:len(attempts)]})
    # result
    if len(ports) == len(due) and ports == due:
        final_kind = seq[len(due) - 1]
        if final_kind == "success":
            rec.count("fallback_success_outcomes")
            if o.fired and not o.ok:
                rec.count("fallback_success_but_failed_unjudged")
        elif kind_class(final_kind) == "SS":
            # merely slow, then successful: no connection error occurred, so none may be reported
            rec.count("fallback_slow_successes_judged")
            from twisted.internet import error as terr
            if o.fired and not o.ok and isinstance(o.value, terr.ConnectError):
                V("connection-error-reported-without-one", icls, {"got": repr(o.value), "outcomes": seq[:len(due)]})
            elif not (o.fired and o.ok):
                rec.count("fallback_slow_success_not_delivered_unjudged")
        elif kind_class(final_kind) == "SX":
            # the TCP connection was made: the outcome is that SOCKS failure, nothing else
            rec.count("fallback_socks_failures_compared")
            injected = [g[2] for g in given if g[2] is not None]
            if not o.fired:
                V("socks-failure-but-no-outcome", icls, {"attempts": attempts, "outcomes": seq[:len(due)]})
            elif o.ok:
                V("socks-failure-but-success-reported", icls, {"value": repr(o.value), "outcomes": seq[:len(due)]})
            else:
                from twisted.internet import error as terr
                code = socks_reply_code(final_kind)
                got_code = getattr(o.value, "code", None)
                if any(o.value is e for e in injected) or isinstance(o.value, terr.ConnectError) or \
                        (code is not None and got_code is not None and got_code != code):
                    V("socks-failure-not-reported", icls + "/" + ("reply" if code else "drop"),
                      {"socks_outcome": final_kind, "got": repr(o.value), "got_code": got_code,
                       "outcomes": seq[:len(attempts)]})
                elif code is not None and got_code is None:
                    rec.count("socks_failure_without_code_unjudged")
        else:
            rec.count("fallback_outcomes_compared")
            want = given[len(due) - 1][2]
            if not o.fired:
                V("all-failed-but-no-outcome", icls, {"attempts": attempts, "outcomes": seq[:len(due)]})
            elif o.ok:
                V("all-failed-but-success-reported", icls, {"value": repr(o.value), "outcomes": seq[:len(due)]})
            elif not same_error(o.value, want):
                first = given[0][2]
                c = "first-error-reported" if (len(due) == 2 and first is not None and same_error(o.value, first)) \
                    else "other-error-reported"
                V("last-error-not-reported", icls + "/" + c,
                  {"want": repr(want), "got": repr(o.value), "outcomes": seq[:len(due)]})
    rec.case(case, nontrivial=True)
    return bad


def cases_B(tier, rnd):
    out = []
    hosts = [("example.com", 80), ("fjblvrw2jrxnhtg67qpbzi45r7ofojaoo3orzykesly2j3c2m3htapid.onion", 443),
             ("torproject.org", "8080")]
    if tier == "quick":
        seqs = list(itertools.product(OUTCOME_KINDS, repeat=2))
        for n, s in enumerate(seqs):
            for hn, h in enumerate(hosts):
                out.append({"w": "B", "host": h[0], "port": h[1], "seq": list(s) + ["refused"],
                            "tls_kw": bool((n + hn) % 2)})
        for k in OUTCOME_KINDS:
            out.append({"w": "B", "host": "example.com", "port": 80, "seq": ["refused", "timeout", k, "success"],
                        "tls_kw": False})
    else:
        for n, s in enumerate(itertools.product(OUTCOME_KINDS, repeat=3)):
            for h in hosts[:2]:
                out.append({"w": "B", "host": h[0], "port": h[1], "seq": list(s) + ["success"], "tls_kw": bool(n % 2)})
        for _ in range(300):
            out.append({"w": "B", "host": "h%d.example" % rnd.randrange(1000), "port": rnd.randrange(1, 65536),
                        "seq": [rnd.choice(OUTCOME_KINDS) for _ in range(4)], "tls_kw": rnd.random() < 0.5})
    return out


# ---------------------------------------------------------------------------
# driver interface

N_A_SHARDS = {"quick": 14, "thorough": 30}


def plan(tier, seed):
    specs = []
    n = N_A_SHARDS[tier]
    for i in range(n):
        specs.append({"mode": "A", "part": i, "parts": n, "timeout_s": 900 if tier == "quick" else 3000})
    specs.append({"mode": "B", "timeout_s": 900 if tier == "quick" else 3000})
    return specs


def run_shard(spec, rec):
    _quiet_twisted_log()
    rec.count("reference_selftests", sockstor.selftest() + kvline.selftest())
    tier = spec["tier"]
    if spec["mode"] == "A":
        rnd = gen.rnd_for(spec["seed"], PROPERTY, "configs", tier)      # same list in every shard
        cfgs = configs(tier, rnd)
        total = 0
        for idx, cfg in enumerate(cfgs):
            if idx % spec["parts"] != spec["part"]:
                continue
            cells = cells_for(cfg, tier, idx + 7 * int(spec["seed"]), cidx=idx)
            for c in cells:
                run_case_A(c, rec)
                total += 1
                if total in (3, 40, 400):
                    rec.sample({k: v for k, v in c.items()})
        rec.count("configurations", len(range(spec["part"], len(cfgs), spec["parts"])))
        rec.enumerated("workload A: every listed SocksPort configuration x request x entry point")
    else:
        rnd = gen.rnd_for(spec["seed"], PROPERTY, "fallback", tier)
        cs = cases_B(tier, rnd)
        for n, c in enumerate(cs):
            run_case_B(c, rec)
            if n in (5, 77):
                rec.sample(c)
        rec.enumerated("workload B: every connect-outcome sequence of length %d over %d outcome kinds"
                       % (2 if tier == "quick" else 3, len(OUTCOME_KINDS)))


def replay(case, rec):
    _quiet_twisted_log()
    case = dict(case)
    if case.get("w") == "B":
        run_case_B(case, rec)
    else:
        run_case_A(case, rec)
